#include <stdbool.h>
#include <stddef.h>
typedef int Vertex_handle;
#ifndef LMAX
#define LMAX 5
#endif
struct word { Vertex_handle v[LMAX]; size_t len; };
bool reverse_lexicographic_order(const struct word* rg1, const struct word* rg2) {
    size_t it1 = 0; size_t it2 = 0;
    while (it1 != rg1->len && it2 != rg2->len) {
      if (rg1->v[it1] == rg2->v[it2]) { ++it1; ++it2; } else { return rg1->v[it1] < rg2->v[it2]; }
    }
    return ((it1 == rg1->len) && (it2 != rg2->len));
}
static void mk(struct word* w){ __CPROVER_assume(w->len>=1 && w->len<=LMAX); for(size_t i=1;i<LMAX;i++) if(i<w->len) __CPROVER_assume(w->v[i] < w->v[i-1]); }
static bool same(const struct word*a,const struct word*b){ if(a->len!=b->len) return false; for(size_t i=0;i<LMAX;i++) if(i<a->len && a->v[i]!=b->v[i]) return false; return true; }
static bool subset(const struct word*a,const struct word*b){ for(size_t i=0;i<LMAX;i++) if(i<a->len){ bool f=false; for(size_t j=0;j<LMAX;j++) if(j<b->len && b->v[j]==a->v[i]) f=true; if(!f) return false;} return true; }
void h(void){ struct word a,b,c; mk(&a); mk(&b); mk(&c);
  __CPROVER_assert(!reverse_lexicographic_order(&a,&a),"irreflexive");
  bool ab=reverse_lexicographic_order(&a,&b), ba=reverse_lexicographic_order(&b,&a), bc=reverse_lexicographic_order(&b,&c), ac=reverse_lexicographic_order(&a,&c);
  __CPROVER_assert(!(ab&&ba),"asymmetric");
  __CPROVER_assert(same(&a,&b) || ab || ba,"total");
  __CPROVER_assert(!(ab&&bc) || ac,"transitive");
  __CPROVER_assert(!(subset(&a,&b) && a.len<b.len) || ab,"proper face before coface");
}
