#include <math.h>
#include <stdbool.h>
typedef double Filtration_value;
bool intersect_lifetimes(Filtration_value* f1, const Filtration_value f2){
    if (isnan(*f1)) { *f1 = f2; return !isnan(f2); }
    if (!(*f1 < f2)) return false;
    *f1 = f2; return true;
}
void h1(void){ double a,b; __CPROVER_assume(!isnan(a)&&!isnan(b)); double a0=a; bool r=intersect_lifetimes(&a,b);
  __CPROVER_assert(a==(a0<b?b:a0),"max"); __CPROVER_assert(r==(a!=a0),"changed flag"); }
/* extend_filtration scalar kernel */
void h2(void){ double v,minval,maxval; __CPROVER_assume(!isnan(v)&&!isinf(v)&&!isnan(minval)&&!isinf(minval)&&!isnan(maxval)&&!isinf(maxval)&&minval<=v&&v<=maxval);
  double scale = maxval-minval; __CPROVER_assume(!isinf(scale));
  if (scale != 0) scale = 1 / scale; __CPROVER_assume(!isinf(scale));
  double scaled_v = (v - minval) * scale;
  double up = -2 + scaled_v, down = 2 - scaled_v;
  __CPROVER_assert(up >= -2 && up <= -1, "UP range");
  __CPROVER_assert(down >= 1 && down <= 2, "DOWN range"); }
/* sparse rips edge kernel */
void h3(void){ double d,li,lj,epsilon; __CPROVER_assume(!isnan(d)&&!isinf(d)&&d>=0&&!isnan(li)&&!isnan(lj)&&lj>=0&&lj<=li&&!isnan(epsilon)&&epsilon>0&&epsilon<1&&!isinf(li));
  double alpha; bool add=true;
  if (d * epsilon <= 2 * lj) alpha = d;
  else if (d * epsilon > li + lj) add=false;
  else { alpha = (d - lj / epsilon) * 2; }
  if(add) __CPROVER_assert(alpha >= d, "sparse edge never earlier than rips edge"); }
