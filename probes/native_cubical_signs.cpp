#include <gudhi/Bitmap_cubical_complex_base.h>
#include <gudhi/Bitmap_cubical_complex_periodic_boundary_conditions_base.h>
#include <iostream>
#include <map>
template<class C> void run(C& c, const char* name){
  std::map<std::pair<int,int>,int> hist; long bad_dd=0, ncells=0;
  for (std::size_t cell=0; cell<c.size(); ++cell){ ++ncells;
    auto bd=c.get_boundary_of_a_cell(cell);
    for (std::size_t n=0;n<bd.size();++n){ int inc=c.compute_incidence_between_cells(cell,bd[n]); hist[{(int)(n%2),inc}]++; }
    // dd=0 with alternating signs
    std::map<std::size_t,int> acc;
    for (std::size_t n=0;n<bd.size();++n){ auto bb=c.get_boundary_of_a_cell(bd[n]); for(std::size_t m=0;m<bb.size();++m) acc[bb[m]] += ((n+m)%2?-1:1); }
    for (auto&kv:acc) if(kv.second!=0) ++bad_dd;
    // converse
    for (auto b: bd){ auto cb=c.get_coboundary_of_a_cell(b); if(std::find(cb.begin(),cb.end(),cell)==cb.end()) std::cout<<name<<": converse fails cell "<<cell<<" face "<<b<<"\n"; }
    for (auto a: c.get_coboundary_of_a_cell(cell)){ auto ab=c.get_boundary_of_a_cell(a); if(std::find(ab.begin(),ab.end(),cell)==ab.end()) std::cout<<name<<": converse2 fails cell "<<cell<<" coface "<<a<<"\n"; }
  }
  std::cout<<name<<" cells="<<ncells<<" dd_nonzero="<<bad_dd<<" sign-hist:";
  for(auto&kv:hist) std::cout<<" (parity "<<kv.first.first<<", inc "<<kv.first.second<<")x"<<kv.second; std::cout<<"\n";
}
int main(){
  using namespace Gudhi::cubical_complex;
  { Bitmap_cubical_complex_base<double> c(std::vector<unsigned>{3,2,2}); run(c,"base 3x2x2"); }
  { Bitmap_cubical_complex_base<double> c(std::vector<unsigned>{1,4}); run(c,"base 1x4"); }
  { Bitmap_cubical_complex_periodic_boundary_conditions_base<double> c(std::vector<unsigned>{3,3,3}, std::vector<bool>{true,false,true}); run(c,"periodic 3x3x3 TFT"); }
  { Bitmap_cubical_complex_periodic_boundary_conditions_base<double> c(std::vector<unsigned>{3,4}, std::vector<bool>{true,true}); run(c,"periodic 3x4 TT"); }
}
