#include <stddef.h>
#include <stdint.h>
#ifndef DMAX
#define DMAX 3
#endif
struct bcc { size_t D; unsigned sizes[DMAX]; unsigned multipliers[DMAX]; size_t data_size; };

/* extracted: get_boundary_of_a_cell; vector push_back -> out[n++] */
size_t get_boundary_of_a_cell(const struct bcc* this, size_t cell, size_t* boundary_elements) {
  size_t n_out = 0;
  size_t sum_of_dimensions = 0;
  size_t cell1 = cell;
  for (size_t i = this->D; i > 1; --i) {
    unsigned position = cell1 / this->multipliers[i - 1];
    cell1 = cell1 % this->multipliers[i - 1];
    if (position % 2 == 1) {
      if (sum_of_dimensions % 2) {
        boundary_elements[n_out++] = (cell + this->multipliers[i - 1]);
        boundary_elements[n_out++] = (cell - this->multipliers[i - 1]);
      } else {
        boundary_elements[n_out++] = (cell - this->multipliers[i - 1]);
        boundary_elements[n_out++] = (cell + this->multipliers[i - 1]);
      }
      ++sum_of_dimensions;
    }
  }
  if (cell1 % 2 == 1) {
    if (sum_of_dimensions % 2) {
      boundary_elements[n_out++] = (cell + 1);
      boundary_elements[n_out++] = (cell - 1);
    } else {
      boundary_elements[n_out++] = (cell - 1);
      boundary_elements[n_out++] = (cell + 1);
    }
    ++sum_of_dimensions;
  }
  return n_out;
}
size_t compute_position_in_bitmap(const struct bcc* this, const unsigned* counter) {
  size_t position = 0;
  for (size_t i = 0; i != this->D; ++i) position += this->multipliers[i] * counter[i];
  return position;
}
unsigned get_dimension_of_a_cell(const struct bcc* this, size_t cell) {
  unsigned dimension = 0;
  for (size_t i = this->D; i > 1; --i) {
    unsigned position = cell / this->multipliers[i - 1];
    size_t newcell = cell % this->multipliers[i - 1];
    if (position % 2 == 1) dimension++;
    cell = newcell;
  }
  if (cell % 2 == 1) dimension++;
  return dimension;
}


void harness(void) {
  struct bcc c; c.D = CD; { unsigned cs[] = CS; for (int q=0;q<CD;q++) c.sizes[q]=cs[q]; }
  unsigned m = 1;
  for (size_t i = 0; i < DMAX; ++i) if (i < c.D) { c.multipliers[i] = m; m *= 2*c.sizes[i]+1; }
  c.data_size = m;
  unsigned counter[DMAX];
  for (size_t i = 0; i < DMAX; ++i) if (i < c.D) __CPROVER_assume(counter[i] <= 2*c.sizes[i]);
  size_t cell = compute_position_in_bitmap(&c, counter);
  size_t out[2*DMAX]; size_t n = get_boundary_of_a_cell(&c, cell, out);
  size_t z; int acc = 0;
  for (size_t a = 0; a < 2*DMAX; ++a) if (a < n) {
    __CPROVER_assert(out[a] < c.data_size, "face index in range");
    size_t out2[2*DMAX]; size_t n2 = get_boundary_of_a_cell(&c, out[a], out2);
    for (size_t b = 0; b < 2*DMAX; ++b) if (b < n2 && out2[b] == z) acc += ((a+b)%2) ? -1 : 1;
  }
  __CPROVER_assert(acc == 0, "boundary of boundary is zero with alternating signs");
}
