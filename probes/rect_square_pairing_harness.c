#include <stddef.h>
#include <stdint.h>
#include <stdbool.h>
typedef size_t Index;
typedef int Filtration_value;            /* template parameter binding; only operator< is used */
typedef struct { Filtration_value first; } T;   /* T_no_index */
#define T_make(f,i) ((T){ (f) })
struct Edge { T f; Index v1, v2; };
#define NV 4
struct POR {
  const Filtration_value* input_p; Index size_x, size_y, input_size, dy;
  T* data_v_; Index* ds_parent_v_; Index* ds_parent_s_;
  /* ghost */
  Index g_vtx[NV]; unsigned g_vwr[NV]; unsigned g_vwr_other;
  Index g_sq; unsigned g_swr, g_swr_other;
  struct Edge g_edges[8]; unsigned g_nedges;
};
#define GUDHI_CHECK(c, e) __CPROVER_assert((c), "GUDHI_CHECK " #c)
#define input(i) (this->input_p[(i)])
static Index* ghost_v(struct POR* this, Index n){ bool hit=false; for(int k=0;k<NV;k++) if(this->g_vtx[k]==n){this->g_vwr[k]++;hit=true;} if(!hit) this->g_vwr_other++; return &this->ds_parent_v_[n]; }
static Index* ghost_s(struct POR* this, Index n){ if(n==this->g_sq) this->g_swr++; else this->g_swr_other++; return &this->ds_parent_s_[n]; }
#define ds_parent_vertex(n) (*ghost_v(this,(n)))
#define ds_parent_square(n) (*ghost_s(this,(n)))
#define data_vertex(i) (this->data_v_[(i)])
static void edges_emplace_back(struct POR* this, T f, Index v1, Index v2){ __CPROVER_assert(this->g_nedges<8,"edge log"); this->g_edges[this->g_nedges++] = (struct Edge){f,v1,v2}; }
bool has_larger_input_(struct POR* this, Index a, Index b, Filtration_value fb);
void set_parent_vertex_(struct POR* this, Index child, Index parent);
void set_parent_square_(struct POR* this, Index child, Index parent);
#define has_larger_input(a,b,f) has_larger_input_(this,(a),(b),(f))
#define set_parent_vertex(c,p) set_parent_vertex_(this,(c),(p))
#define set_parent_square(c,p) set_parent_square_(this,(c),(p))
static bool g_nd[25];
#include "body2s.inc"
bool has_larger_input_(struct POR* this, Index a, Index b, Filtration_value fb){ __CPROVER_assert(a!=b && b==this->g_sq,"callee pre"); return g_nd[a]; }


#define NMAX 25
void harness(void) {
  struct POR P; struct POR* this=&P; for(int q=0;q<25;q++){ bool b; g_nd[q]=b; }
  Index n_rows=GR, n_cols=GC;
  P.input_size=n_rows*n_cols; P.dy=n_cols; P.size_x=n_cols-1; P.size_y=n_rows-1;
  Filtration_value in[NMAX]; T dv[NMAX]; Index pv[NMAX]; Index ps[NMAX];
  P.input_p=in; P.data_v_=dv; P.ds_parent_v_=pv; P.ds_parent_s_=ps;
  Index x=GX,y=GY;
  Index i = x + P.dy*y, dy=P.dy;
  /* corner vertices: 0=UL 1=UR 2=DL 3=DR */
  Index vUL=i-1, vUR=i, vDL=i-dy-1, vDR=i-dy;
  P.g_vtx[0]=vUL; P.g_vtx[1]=vUR; P.g_vtx[2]=vDL; P.g_vtx[3]=vDR;
  for(int k=0;k<NV;k++) P.g_vwr[k]=0; P.g_vwr_other=0; P.g_sq=i; P.g_swr=0; P.g_swr_other=0; P.g_nedges=0;
  Filtration_value f=in[i];
  bool L=has_larger_input(i-1,i,f), R=has_larger_input(i+1,i,f), D=has_larger_input(i-dy,i,f), U=has_larger_input(i+dy,i,f);
  bool DL=has_larger_input(i-dy-1,i,f), UL=has_larger_input(i+dy-1,i,f), DR=has_larger_input(i-dy+1,i,f), UR=has_larger_input(i+dy+1,i,f);
  bool inV[4] = { U&&L&&UL, U&&R&&UR, D&&L&&DL, D&&R&&DR };
  /* edges: 0=eU{UL,UR} 1=eD{DL,DR} 2=eL{DL,UL} 3=eR{DR,UR} */
  bool inE[4] = { U, D, L, R };
  Index eA[4] = { vUL, vDL, vDL, vDR }, eB[4] = { vUR, vDR, vUL, vUR };
  Index sqN[4] = { i+dy, i-dy, i-1, i+1 };
  fill_and_pair__loop2_body(this, x, y);
  unsigned used[4]={0,0,0,0};
  __CPROVER_assert(P.g_vwr_other==0 && P.g_swr_other==0, "frame: only the 4 corner vertices and square i are written");
  for(int k=0;k<4;k++){
    __CPROVER_assert(P.g_vwr[k]==(inV[k]?1u:0u), "vertex written exactly once iff in lower star");
    if(inV[k]){ Index c=P.g_vtx[k], p=pv[c];
      if(p!=c){ bool ok=false; for(int e=0;e<4;e++) if((eA[e]==c&&eB[e]==p)||(eB[e]==c&&eA[e]==p)){ ok=true; used[e]++; }
        __CPROVER_assert(ok,"vertex paired along a side edge of the square"); }
    }
  }
  __CPROVER_assert(P.g_swr==1,"square written exactly once");
  if(ps[i]!=i){ bool ok=false; for(int e=0;e<4;e++) if(sqN[e]==ps[i]){ok=true; used[e]++;} __CPROVER_assert(ok,"square paired with a side edge"); }
  for(unsigned q=0;q<P.g_nedges;q++){ struct Edge ed=P.g_edges[q]; bool ok=false;
    __CPROVER_assert(ed.v1<ed.v2,"critical edge endpoints ordered");
    __CPROVER_assert(ed.f.first==f,"critical edge value is f");
    for(int e=0;e<4;e++) if((eA[e]==ed.v1&&eB[e]==ed.v2)||(eB[e]==ed.v1&&eA[e]==ed.v2)){ok=true; used[e]++;}
    __CPROVER_assert(ok,"critical edge is a side edge"); }
  for(int e=0;e<4;e++) __CPROVER_assert(used[e]==(inE[e]?1u:0u),"edge of the lower star used exactly once, others never");
  /* acyclicity of vertex->edge pairing inside the star */
  for(int k=0;k<4;k++) if(inV[k]){ Index c=P.g_vtx[k]; int steps=0; bool done=false;
    for(int s=0;s<4;s++){ if(done) break; Index p=pv[c]; if(p==c){done=true;break;} bool in=false; for(int m=0;m<4;m++) if(P.g_vtx[m]==p&&inV[m]) in=true; if(!in){done=true;break;} c=p; }
    __CPROVER_assert(done,"gradient path leaves the star or ends at a critical vertex"); }
}
