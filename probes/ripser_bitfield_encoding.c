#include <stdint.h>
typedef uint64_t simplex_t; typedef int vertex_t; typedef int8_t dimension_t;
struct BE { int bits_per_vertex; int extra_bits; };
int log2up(vertex_t n){ --n; int k=0; while(n>0){ n>>=1; ++k;} return k; }
simplex_t enc(const struct BE* this, vertex_t n, dimension_t k){ if(k==0) return 1; --k; return (simplex_t)n << (this->bits_per_vertex * k); }
vertex_t get_max_vertex(const struct BE* this, const simplex_t idx, dimension_t k, const vertex_t nn){ __CPROVER_assert(k>0,"GUDHI_assert"); --k; return (vertex_t)(idx >> (this->bits_per_vertex * k)); }
void h(void){ vertex_t n; __CPROVER_assume(n>=2 && n <= 1<<30); dimension_t K; __CPROVER_assume(K>=1 && K<=5);
  struct BE e; e.bits_per_vertex=log2up(n); e.extra_bits = 64 - e.bits_per_vertex*K; __CPROVER_assume(e.extra_bits>=0);
  __CPROVER_assert(n <= ((int64_t)1<<e.bits_per_vertex) && (e.bits_per_vertex==0 || n > ((int64_t)1<<(e.bits_per_vertex-1))), "log2up");
  vertex_t v[5]; for(int j=0;j<5;j++) __CPROVER_assume(v[j]>=0 && v[j]<n); for(int j=1;j<5;j++) if(j<K) __CPROVER_assume(v[j]>v[j-1]);
  simplex_t idx=0, rest=0; for(int j=0;j<5;j++) if(j<K){ if(j<K-1) rest += enc(&e,v[j],j+1); idx += enc(&e,v[j],j+1); }
  __CPROVER_assert(get_max_vertex(&e,idx,K,n)==v[K-1],"decode top vertex");
  __CPROVER_assert(idx - enc(&e,v[K-1],K) == rest,"remaining face code");
  __CPROVER_assert(enc(&e,v[K-1],K) <= idx && (v[K-1]+1==n || idx < enc(&e,v[K-1]+1,K)),"bracketing");
}
