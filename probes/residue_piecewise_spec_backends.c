#include <limits.h>
#include <stdint.h>
typedef unsigned int Element; typedef Element Characteristic;
/* spec functions (prelude): piecewise residue, linear addmod */
#define RES_U(e,p)  ((e) < (p) ? (e) : (e) % (p))
#define RES_S(e,p)  ((e) >= 0 ? ((e) < (int)(p) ? (Element)(e) : (Element)((e) % (int)(p))) \
                     : ((e) >= -(int)(p) ? (Element)((e) + (int)(p)) == (p) ? 0u : (Element)((e) + (int)(p)) \
                     : (((e) % (int)(p)) < 0 ? (Element)(((e) % (int)(p)) + (int)(p)) : (Element)((e) % (int)(p)))))
#define ADDMOD(x,y,p) ((uint64_t)(x)+(uint64_t)(y) < (uint64_t)(p) ? (Element)((uint64_t)(x)+(y)) : (Element)((uint64_t)(x)+(y)-(p)))
struct Ops { Characteristic characteristic_; };
Element get_value(const struct Ops* this, Element e)
__CPROVER_requires(__CPROVER_is_fresh(this,sizeof(*this)) && this->characteristic_ >= 2)
__CPROVER_ensures(__CPROVER_return_value == RES_U(e, this->characteristic_) && __CPROVER_return_value < this->characteristic_)
__CPROVER_assigns()
{ return e < this->characteristic_ ? e : e % this->characteristic_; }
Element get_value_int(const struct Ops* this, int e)
__CPROVER_requires(__CPROVER_is_fresh(this,sizeof(*this)) && this->characteristic_ >= 2 && this->characteristic_ <= 2147483647u)
__CPROVER_ensures(__CPROVER_return_value == RES_S(e, this->characteristic_) && __CPROVER_return_value < this->characteristic_)
__CPROVER_assigns()
{
#ifdef BUGGY
    if (e < -(int)(this->characteristic_)) e = e % this->characteristic_;
    if (e < 0) return e += this->characteristic_;
    return e < (int)(this->characteristic_) ? e : e % this->characteristic_;
#else
    if (e < -(int)(this->characteristic_)) e = e % (int)this->characteristic_;
    if (e < 0) return e += this->characteristic_;
    return e < (int)(this->characteristic_) ? e : e % (int)this->characteristic_;
#endif
}
Element _add(Element e1, Element e2, Characteristic characteristic)
__CPROVER_requires(characteristic >= 2 && e1 < characteristic && e2 < characteristic)
__CPROVER_ensures(__CPROVER_return_value == ADDMOD(e1,e2,characteristic))
__CPROVER_assigns()
{
    if (UINT_MAX - e1 < e2) { e1 += e2; e1 -= characteristic; return e1; }
    e1 += e2; if (e1 >= characteristic) e1 -= characteristic; return e1;
}
Element add(const struct Ops* this, Element e1, Element e2)
__CPROVER_requires(__CPROVER_is_fresh(this,sizeof(*this)) && this->characteristic_ >= 2)
__CPROVER_ensures(__CPROVER_return_value == ADDMOD(RES_U(e1,this->characteristic_), RES_U(e2,this->characteristic_), this->characteristic_))
__CPROVER_assigns()
{ return _add(get_value(this,e1), get_value(this,e2), this->characteristic_); }
void h_gv(void){ struct Ops* o; Element a; get_value(o,a); }
void h_gvi(void){ struct Ops* o; int a; get_value_int(o,a); }
void h_add0(void){ Element a,b,c; _add(a,b,c); }
void h_add(void){ struct Ops* o; Element a,b; add(o,a,b); }
