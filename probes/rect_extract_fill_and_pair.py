import re,sys
src=open('/repo/src/Persistent_cohomology/include/gudhi/Persistence_on_rectangle.h').read()
def grab(sig):
    i=src.index(sig); j=src.index('{',i); d=0; k=j
    while True:
        if src[k]=='{': d+=1
        elif src[k]=='}':
            d-=1
            if d==0: break
        k+=1
    return src[i:k+1]
body=grab('void fill_and_pair() {')
# rule L1: expression lambdas  auto N = [&](){ return E; };
n1=0
def l1(m):
    global n1; n1+=1
    return '\n#undef %s\n#define %s() (%s)\n'%(m.group(1),m.group(1),m.group(2))
body=re.sub(r'auto\s+(\w+)\s*=\s*\[&\]\(\)\s*\{\s*return\s+([^;]*);\s*\};',l1,body)
# rule L2: statement lambdas auto N = [&](ARGS) { S; ... };
n2=0
def l2(m):
    global n2; n2+=1
    args=','.join(a.split()[-1] for a in m.group(2).split(',') if a.strip())
    stm=' '.join(m.group(3).split())
    return '\n#undef %s\n#define %s(%s) do { %s } while(0)\n'%(m.group(1),m.group(1),args,stm)
body=re.sub(r'auto\s+(\w+)\s*=\s*\[&\]\(([^)]*)\)\s*\{((?:[^{}])*)\};',l2,body)
assert 'auto ' not in body and '[&]' not in body, 'unconverted lambda'
print('/* rules fired: L1=%d L2=%d */'%(n1,n2))
body=body.replace('void fill_and_pair() {','void fill_and_pair(struct POR* this) {')
body=body.replace('edges.emplace_back(','edges_emplace_back(this, ')
body=re.sub(r'\bT\(f, i\)','T_make(f, i)',body)
for mem in ['size_x','size_y','dy']:
    body=re.sub(r'(?<![\w>.])%s\b'%mem,'this->'+mem,body)
print(body)
for fn in ['bool has_larger_input(Index a, Index b, Filtration_value fb) const {','void set_parent_vertex(Index child, Index parent) {','void set_parent_square(Index child, Index parent) {']:
    b=grab(fn)
    b=b.replace(') const {',') {')
    b=re.sub(r'\((Index )','(struct POR* this, \\1',b,count=1)
    print(b)
