#include <limits.h>
#include <stdint.h>
typedef unsigned int Element;
typedef Element Characteristic;
Element _multiply(Element e1, Element e2, Characteristic characteristic)
{
    unsigned int a = e1;
    e1 = 0;
    unsigned int temp_b;
    while (a != 0) {
      if (a & 1) {
        if (e2 >= characteristic - e1) e1 -= characteristic;
        e1 += e2;
      }
      a >>= 1;
      temp_b = e2;
      if (e2 >= characteristic - e2) temp_b -= characteristic;
      e2 += temp_b;
    }
    return e1;
}
void h_mul(void){ Element a,b; __CPROVER_assume(a<P && b<P); Element r=_multiply(a,b,P); __CPROVER_assert(r == (a*b)%P, "mul spec"); } 
