#include <gudhi/Persistence_on_rectangle.h>
#include <iostream>
#include <vector>
int main(){
  using namespace Gudhi::cubical_complex;
  auto run=[](std::vector<double> in, std::size_t r, std::size_t c){
    std::cout<<r<<"x"<<c<<" input:"; for(auto v:in) std::cout<<" "<<v; std::cout<<"\n";
    auto o0=[](double b,double d){ std::cout<<"  H0 ("<<b<<","<<d<<")\n"; };
    auto o1=[](double b,double d){ std::cout<<"  H1 ("<<b<<","<<d<<")\n"; };
    double m=persistence_on_rectangle_from_top_cells(in.data(), r, c, o0, o1);
    std::cout<<"  returned global min = "<<m<<"\n";
  };
  run({1,2,3,4},2,2);
  run({4,3,2,1},2,2);
  run({1,5,2, 6,7,8},2,3);
  run({1,9,2, 9,9,9},2,3);
  run({1,5, 9,9, 2,6},3,2);
}
