#include <stddef.h>
#include <stdint.h>
typedef unsigned int Element; typedef Element Characteristic;
struct Ops { Characteristic characteristic_; Element* inverse_; size_t inverse_size; int thrown; };
size_t g_k;  /* ghost index */
/* extracted set_characteristic: inverse_.resize(c) -> stub; throw -> this->thrown=1; return */
void set_characteristic(struct Ops* this, Characteristic characteristic)
__CPROVER_requires(__CPROVER_is_fresh(this, sizeof(*this)) && characteristic < 65536)
__CPROVER_requires(__CPROVER_is_fresh(this->inverse_, 65536*sizeof(Element)))
__CPROVER_requires(1 <= g_k && g_k < 65536)
__CPROVER_assigns(this->characteristic_, this->thrown, this->inverse_size, __CPROVER_object_whole(this->inverse_))
__CPROVER_ensures(this->thrown || (this->characteristic_ == characteristic && characteristic >= 2))
__CPROVER_ensures(this->thrown || g_k >= characteristic || (this->inverse_[g_k] * (Element)g_k) % characteristic == 1)
{
    this->thrown = 0;
    if (characteristic <= 1) { this->thrown = 1; return; }
    this->inverse_size = characteristic;
    this->inverse_[0] = 0;
    for (unsigned int i = 1; i < characteristic; ++i)
    __CPROVER_assigns(i, __CPROVER_object_whole(this->inverse_), this->thrown)
    __CPROVER_loop_invariant(1 <= i && i <= characteristic && this->thrown == 0)
    __CPROVER_loop_invariant(g_k >= i || (this->inverse_[g_k] * (Element)g_k) % characteristic == 1)
    {
      unsigned int inv = 1;
      unsigned int mult = inv * i;
      while ((mult % characteristic) != 1)
      __CPROVER_assigns(inv, mult)
      __CPROVER_loop_invariant(mult == inv * i)
      {
        ++inv;
        if (mult == characteristic) { this->thrown = 1; return; }
        mult = inv * i;
      }
      this->inverse_[i] = inv;
    }
    this->characteristic_ = characteristic;
}
void harness(void){ struct Ops* o; Characteristic c; set_characteristic(o,c); }
