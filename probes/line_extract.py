import re
src=open('/repo/src/Persistent_cohomology/include/gudhi/Persistence_on_a_line.h').read()
i=src.index('void compute_persistence_of_function_on_line('); j=src.index(') {',i)+2; d=0;k=j
while True:
    if src[k]=='{': d+=1
    elif src[k]=='}':
        d-=1
        if d==0: break
    k+=1
b=src[j:k+1]
fired={}
def sub(name,pat,rep,cnt_min=1,flags=0):
    global b
    b,n=re.subn(pat,rep,b,flags=flags); fired[name]=n; assert n>=cnt_min,(name,n)
# R-drop: using-declarations, typedef, vector decl, iterator setup
sub('using',r'\n\s*using std::(begin|end);','',2)
sub('itdecl',r'auto it = begin\(input\);\s*auto stop = end\(input\);','size_t it = 0; size_t stop = input_len;')
sub('typedef',r'typedef std::decay_t<decltype\(\*it\)> Filtration;','')
sub('vecdecl',r'std::vector<Filtration> data;','Filtration data[DATA_CAP]; size_t data_n = 0;')
# R6 lambdas le/ge/gt
sub('lambda',r'auto (\w+) = \[&lt\]\(auto& x, auto& y\)\{ return\s+(!?)\s*lt\((\w), (\w)\); \};',lambda m:'\n#define %s(x,y) (%slt(%s,%s))\n'%(m.group(1),m.group(2),m.group(3),m.group(4)),3)
# R8 input iterator
sub('deref',r'\*it\+\+','input[it++]',5)
# R7 vector ops
sub('endk',r'data\.end\(\)\[-(\d)\]',lambda m:'data[VIDX(data_n,%s)]'%m.group(1))
sub('erase',r'data\.erase\(data\.end\(\)-(\d), data\.end\(\)\);',lambda m:'VERASE(data_n,%s);'%m.group(1))
sub('push',r'data\.push_back\(([^;]*)\);',lambda m:'VPUSH(data,data_n,%s);'%m.group(1))
sub('pop',r'data\.pop_back\(\);','VERASE(data_n,1);')
sub('back',r'data\.back\(\)','data[VIDX(data_n,1)]')
sub('empty',r'data\.empty\(\)','(data_n==0)')
sub('size',r'data\.size\(\)','data_n')
sub('idx',r'data\[(0|1)\]',lambda m:'data[VABS(data_n,%s)]'%m.group(1))
sub('check',r'GUDHI_CHECK \(([^,]*), std::logic_error\("Bug in Gudhi"\)\);',lambda m:'__CPROVER_assert(%s,"GUDHI_CHECK");'%m.group(1))
sub('inf',r'std::numeric_limits<Filtration>::infinity\(\)','FILT_INF')
assert 'std::' not in b and 'auto' not in b, b
print('/* fired: %s */'%fired)
print('void compute_persistence_of_function_on_line(const Filtration* input, size_t input_len)'+b)
