#include <limits.h>
#include <stdint.h>
typedef unsigned int Element;
typedef Element Characteristic;
Element _multiply(Element e1, Element e2, Characteristic characteristic)
__CPROVER_requires(characteristic >= 2 && characteristic < PMAX && e1 < characteristic && e2 < characteristic)
__CPROVER_ensures(__CPROVER_return_value == (Element)(((uint64_t)__CPROVER_old(e1) * (uint64_t)__CPROVER_old(e2)) % characteristic))
__CPROVER_assigns()
{
    unsigned int a = e1;
    uint64_t g_prod = (uint64_t)e1 * e2;   /* ghost */
    e1 = 0;
    unsigned int temp_b;

    while (a != 0)
    __CPROVER_assigns(a, e1, e2, temp_b)
    __CPROVER_loop_invariant(e1 < characteristic && e2 < characteristic && a < characteristic)
    __CPROVER_loop_invariant(((uint64_t)e1 + (uint64_t)a * e2) % characteristic == g_prod % characteristic)
    __CPROVER_decreases(a)
    {
      if (a & 1) {
        if (e2 >= characteristic - e1) e1 -= characteristic;
        e1 += e2;
      }
      a >>= 1;

      temp_b = e2;
      if (e2 >= characteristic - e2) temp_b -= characteristic;
      e2 += temp_b;
    }

    return e1;
}
void h_mul(void){ Element a,b,c; _multiply(a,b,c);} 
