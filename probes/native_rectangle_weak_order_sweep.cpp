#include <gudhi/Persistence_on_rectangle.h>
#include <gudhi/Bitmap_cubical_complex.h>
#include <gudhi/Persistent_cohomology.h>
#include <algorithm>
#include <iostream>
#include <vector>
#include <tuple>
typedef std::vector<std::tuple<int,double,double>> Dgm;
static Dgm oracle(const std::vector<double>& in, unsigned r, unsigned c){
  typedef Gudhi::cubical_complex::Bitmap_cubical_complex_base<double> B; typedef Gudhi::cubical_complex::Bitmap_cubical_complex<B> CC;
  CC cc(std::vector<unsigned>{c,r}, in, true);   // Bitmap is Fortran order: first size = fastest index = columns
  Gudhi::persistent_cohomology::Persistent_cohomology<CC, Gudhi::persistent_cohomology::Field_Zp> pc(cc, true);
  pc.init_coefficients(2); pc.compute_persistent_cohomology(0);
  Dgm d; for (auto& p : pc.get_persistent_pairs()) { double b=cc.filtration(std::get<0>(p)), e=cc.filtration(std::get<1>(p)); int dim=cc.dimension(std::get<0>(p)); if (b!=e) d.emplace_back(dim,b,e); }
  std::sort(d.begin(),d.end()); return d; }
static Dgm fast(const std::vector<double>& in, unsigned r, unsigned c){
  Dgm d; auto o0=[&](double b,double e){ if(b!=e) d.emplace_back(0,b,e); }; auto o1=[&](double b,double e){ if(b!=e) d.emplace_back(1,b,e); };
  double m=Gudhi::cubical_complex::persistence_on_rectangle_from_top_cells(in.data(), (std::size_t)r, (std::size_t)c, o0, o1);
  d.emplace_back(0,m,std::numeric_limits<double>::infinity()); std::sort(d.begin(),d.end()); return d; }
int main(int argc,char**argv){ unsigned r=atoi(argv[1]), c=atoi(argv[2]); unsigned n=r*c; long total=0,bad=0;
  std::vector<int> v(n,0); // enumerate all functions cells -> {0..n-1} whose image is an initial segment (weak orders)
  std::vector<double> in(n);
  while(true){
    int mx=-1; bool ok=true; std::vector<char> seen(n,0); for(int x:v){ seen[x]=1; mx=std::max(mx,x);} for(int k=0;k<=mx;k++) if(!seen[k]) ok=false;
    if(ok){ for(unsigned k=0;k<n;k++) in[k]=v[k]; ++total; auto a=fast(in,r,c), b=oracle(in,r,c);
      if(a!=b){ if(bad<3){ std::cout<<"MISMATCH input:"; for(auto x:in) std::cout<<" "<<x; std::cout<<"\n fast:"; for(auto&t:a) std::cout<<" ("<<std::get<0>(t)<<","<<std::get<1>(t)<<","<<std::get<2>(t)<<")"; std::cout<<"\n orac:"; for(auto&t:b) std::cout<<" ("<<std::get<0>(t)<<","<<std::get<1>(t)<<","<<std::get<2>(t)<<")"; std::cout<<"\n"; } ++bad; } }
    unsigned k=0; while(k<n && ++v[k]==(int)n){ v[k]=0; ++k; } if(k==n) break; }
  std::cout<<r<<"x"<<c<<": weak orders="<<total<<" mismatches="<<bad<<"\n"; return bad!=0; }
