#include <stdint.h>
typedef int Element;
static int Prime;
Element plus_times_equal(Element x, Element y, Element w)
__CPROVER_requires(Prime >= 2 && Prime <= 46337 && 0<=x && x<Prime && 0<=y && y<Prime && 0<=w && w<Prime)
__CPROVER_ensures(0 <= __CPROVER_return_value && __CPROVER_return_value < Prime)
__CPROVER_ensures(((int64_t)x + (int64_t)w*(int64_t)y - __CPROVER_return_value) % Prime == 0)
__CPROVER_assigns()
{
    Element result = (x + w * y) % Prime;
    if (result < 0) result += Prime;
    return result;
}
void h(void){ Element x,y,w; plus_times_equal(x,y,w); }
typedef unsigned int UE; static UE characteristic_;
UE get_value(UE e){ return e < characteristic_ ? e : e % characteristic_; }
UE multiply_and_add(UE e, UE m, UE a)
__CPROVER_requires(characteristic_>=2 && characteristic_ < 65536 && e<characteristic_ && m<characteristic_ && a<characteristic_)
__CPROVER_ensures(__CPROVER_return_value == (UE)(((uint64_t)e*m + a) % characteristic_))
__CPROVER_assigns()
{ return get_value(e * m + a); }
void h2(void){ UE e,m,a; multiply_and_add(e,m,a); }
