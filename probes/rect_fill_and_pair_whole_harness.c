#include <stddef.h>
#include <stdint.h>
#include <stdbool.h>
typedef size_t Index; typedef int Filtration_value;
typedef struct { Filtration_value first; } T;
#define T_make(f,i) ((T){ (f) })
struct Edge { T f; Index v1, v2; };
#define ECAP 32
struct POR { const Filtration_value* input_p; Index size_x, size_y, input_size, dy; T* data_v_; Index* ds_parent_v_; Index* ds_parent_s_; struct Edge edges[ECAP]; unsigned nedges; unsigned vwr[GR*GC]; unsigned swr[GR*GC]; };
#define GUDHI_CHECK(c, e) __CPROVER_assert((c), "GUDHI_CHECK " #c)
#define input(i) (this->input_p[(i)])
static Index* gv(struct POR* this, Index n){ __CPROVER_assert(n < this->input_size - this->dy - 1, "vertex index in range"); this->vwr[n]++; return &this->ds_parent_v_[n]; }
static Index* gs(struct POR* this, Index n){ __CPROVER_assert(n < this->input_size, "square index in range"); this->swr[n]++; return &this->ds_parent_s_[n]; }
#define ds_parent_vertex(n) (*gv(this,(n)))
#define ds_parent_square(n) (*gs(this,(n)))
#define data_vertex(i) (this->data_v_[(i)])
static void edges_emplace_back(struct POR* this, T f, Index v1, Index v2){ __CPROVER_assert(this->nedges<ECAP,"edge cap"); this->edges[this->nedges++] = (struct Edge){f,v1,v2}; }
bool has_larger_input_(struct POR* this, Index a, Index b, Filtration_value fb);
void set_parent_vertex_(struct POR* this, Index child, Index parent);
void set_parent_square_(struct POR* this, Index child, Index parent);
#define has_larger_input(a,b,f) has_larger_input_(this,(a),(b),(f))
#define set_parent_vertex(c,p) set_parent_vertex_(this,(c),(p))
#define set_parent_square(c,p) set_parent_square_(this,(c),(p))
#include "fp_full.inc"
void harness(void){
  struct POR P; struct POR* this=&P; Index n_rows=GR, n_cols=GC;
  P.input_size=n_rows*n_cols; P.dy=n_cols; P.size_x=n_cols-1; P.size_y=n_rows-1; P.nedges=0;
  Filtration_value in[GR*GC]; T dv[GR*GC-GC-1]; Index pv[GR*GC-GC-1]; Index ps[GR*GC];
  for(int q=0;q<GR*GC;q++){ __CPROVER_assume(in[q]>=0 && in[q]<GR*GC); P.vwr[q]=0; P.swr[q]=0; ps[q]=0; }
  P.input_p=in; P.data_v_=dv; P.ds_parent_v_=pv; P.ds_parent_s_=ps;
  fill_and_pair(this);
  /* every interior vertex written at least once, at most twice (corner pre-marking) */
  for(Index v=0; v<GR*GC-GC-1; v++){ Index x=v%GC, y=v/GC; if(x<GC-1){ bool corner=(x==0||x==GC-2)&&(y==0||y==GR-2); __CPROVER_assert(P.vwr[v]>=1 && P.vwr[v] <= (corner?2u:1u), "vertex covered"); } }
  /* interior squares written exactly once, boundary squares never */
  for(Index s=0;s<GR*GC;s++){ Index x=s%GC,y=s/GC; bool interior = x>=1&&x<GC-1&&y>=1&&y<GR-1; __CPROVER_assert(P.swr[s]==(interior?1u:0u),"square covered"); }
}
