#include <stddef.h>
#include <stdbool.h>
typedef int Filtration;
#define FILT_INF 2147483647
#define DATA_CAP (NMAX+1)
#define lt(a,b) ((a)<(b))
static size_t vchk(bool ok, size_t i){ __CPROVER_assert(ok, "vector access in range"); return i; }
#define VIDX(n,k) vchk((n)>=(size_t)(k), (n)-(k))
#define VABS(n,k) vchk((size_t)(k)<(n), (k))
#define VERASE(n,k) do{ __CPROVER_assert((n)>=(size_t)(k),"erase in range"); (n)-=(k);}while(0)
#define VPUSH(a,n,x) do{ Filtration _t=(x); __CPROVER_assert((n)<DATA_CAP,"push within capacity"); (a)[(n)++]=_t; }while(0)
static Filtration ob[NMAX+1], od[NMAX+1]; static size_t on=0;
static void out(Filtration b, Filtration d){ __CPROVER_assert(on<=NMAX,"out cap"); ob[on]=b; od[on]=d; on++; }
#include "line.inc"
void harness(void){
  Filtration in[NMAX]; size_t n; __CPROVER_assume(n>=1 && n<=NMAX);
  for(size_t i=0;i<NMAX;i++) __CPROVER_assume(in[i] < FILT_INF);
  compute_persistence_of_function_on_line(in, n);
  /* exactly one infinite interval, born at the global minimum */
  size_t ninf=0; Filtration mn=in[0]; for(size_t i=1;i<NMAX;i++) if(i<n && in[i]<mn) mn=in[i];
  for(size_t q=0;q<=NMAX;q++) if(q<on){ __CPROVER_assert(ob[q]<od[q],"non-zero length"); if(od[q]==FILT_INF){ ninf++; __CPROVER_assert(ob[q]==mn,"infinite class born at global min"); } }
  __CPROVER_assert(ninf==1,"one infinite interval");
  /* rank invariant: for thresholds s<=t taken among the input values */
  size_t a,b; __CPROVER_assume(a<n && b<n); Filtration s=in[a], t=in[b]; __CPROVER_assume(s<=t);
  size_t rank=0; bool inside=false, hit=false;
  for(size_t i=0;i<NMAX;i++) if(i<n){
     if(in[i]<=t){ if(!inside){inside=true;hit=false;} if(in[i]<=s && !hit){hit=true;rank++;} }
     else inside=false; }
  size_t cnt=0; for(size_t q=0;q<=NMAX;q++) if(q<on && ob[q]<=s && od[q]>t) cnt++;
  __CPROVER_assert(cnt==rank,"rank invariant of H0 of sublevel sets");
}
