#include <gudhi/Fields/Multi_field_small_operators.h>
#include <iostream>
#include <vector>
#include <csignal>
#include <csetjmp>
static sigjmp_buf jb; static void onfpe(int){ siglongjmp(jb,1); }
int main(){
  using namespace Gudhi::persistence_fields; signal(SIGFPE,onfpe);
  int ranges[][2]={{2,3},{2,5},{3,7},{2,7},{5,13},{7,7}}; long total=0,bad=0,fpe=0;
  for(auto&rg:ranges){ Multi_field_operators_with_small_characteristics op(rg[0],rg[1]);
    std::vector<unsigned> primes; for(int p=rg[0];p<=rg[1];p++){ bool pr=p>1; for(int d=2;d*d<=p;d++) if(p%d==0) pr=false; if(pr) primes.push_back(p);} 
    unsigned P=op.get_characteristic();
    for(unsigned mask=1; mask < (1u<<primes.size()); ++mask){ unsigned Q=1; for(size_t k=0;k<primes.size();k++) if(mask>>k&1) Q*=primes[k];
      for(unsigned e=0;e<P;e++){ ++total; if(sigsetjmp(jb,1)){ ++fpe; ++bad; continue; }
        auto r=op.get_partial_inverse(e,Q); unsigned T=1; for(size_t k=0;k<primes.size();k++) if((mask>>k&1) && e%primes[k]!=0) T*=primes[k];
        bool ok = (r.second==T); for(unsigned q:primes){ if(T%q==0){ if(((unsigned long)e*r.first)%q!=1) ok=false; } else if(r.first%q!=0) ok=false; }
        if(!ok){ if(bad<3) std::cout<<"bad range["<<rg[0]<<","<<rg[1]<<"] e="<<e<<" Q="<<Q<<" -> ("<<r.first<<","<<r.second<<") expected T="<<T<<"\n"; ++bad; } } } }
  std::cout<<"total="<<total<<" bad="<<bad<<" sigfpe="<<fpe<<"\n"; }
