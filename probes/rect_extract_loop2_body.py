import re,sys
exec(open('rect_extract_fill_and_pair.py').read().split("print('/* rules fired")[0])
# loop ordinal 2 body (internal squares)
fb=body
loops=[m.start() for m in re.finditer(r'\bfor\s*\(',fb)]
st=loops[2]; j=fb.index('{',st); d=0;k=j
while True:
    if fb[k]=='{': d+=1
    elif fb[k]=='}':
        d-=1
        if d==0: break
    k+=1
loop_hdr=fb[st:j]; loop_body=fb[j:k+1]
assert 'Index x = 1; x < size_x' in loop_hdr
# prelude lambdas = everything before "// Mark the corners"
pre=fb[fb.index('{')+1:fb.index('// Mark the corners')]
out='void fill_and_pair__loop2_body(struct POR* this, Index x, Index y) {\n'+pre+loop_body+'\n}\n'
out=out.replace('edges.emplace_back(','edges_emplace_back(this, ')
out=re.sub(r'\bT\(f, i\)','T_make(f, i)',out)
for mem in ['size_x','size_y','dy']:
    out=re.sub(r'(?<![\w>.])%s\b'%mem,'this->'+mem,out)
print(out)
for fn in ['bool has_larger_input(Index a, Index b, Filtration_value fb) const {','void set_parent_vertex(Index child, Index parent) {','void set_parent_square(Index child, Index parent) {']:
    b=grab(fn)
    b=b.replace(') const {',') {')
    b=re.sub(r'(\w+)\((Index )','\\1_(struct POR* this, \\2',b,count=1)
    print(b)
