#include <stdint.h>
typedef unsigned int Element;
struct Ops { Element characteristic_; };
#define P (this->characteristic_)
#define M(e) ((e) % (int)P)
#define RNN(x) ((x) < (int)P ? (Element)(x) : (Element)((x) % (int)P))
Element get_value_int(const struct Ops* this, int e)
__CPROVER_requires(__CPROVER_is_fresh(this,sizeof(*this)) && P >= 2 && P <= 2147483647u)
__CPROVER_ensures(__CPROVER_return_value < P)
__CPROVER_ensures(!(e >= 0 && e < (int)P) || __CPROVER_return_value == (Element)e)
__CPROVER_ensures(!(e < 0 && e >= -(int)P) || __CPROVER_return_value == (Element)(e + (int)P) % P * 0 + (e == -(int)P ? 0u : (Element)(e + (int)P)))
__CPROVER_ensures(!(e >= (int)P) || __CPROVER_return_value == (Element)M(e))
__CPROVER_ensures(!(e < -(int)P) || __CPROVER_return_value == (M(e) < 0 ? (Element)(M(e) + (int)P) : RNN(M(e))))
__CPROVER_assigns()
{
#ifdef BUGGY
    if (e < -(int)(P)) e = e % P;
    if (e < 0) return e += P;
    return e < (int)(P) ? e : e % P;
#else
    if (e < -(int)(P)) e = e % (int)P;
    if (e < 0) return e += P;
    return e < (int)(P) ? e : e % (int)P;
#endif
}
void h(void){ struct Ops* o; int e; get_value_int(o,e); }
