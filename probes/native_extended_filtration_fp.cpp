#include <gudhi/Simplex_tree.h>
#include <iostream>
int main(){
  for (double hi : {1e-310, 1.0, 1.5e308}) {
    Gudhi::Simplex_tree<> st;
    double lo = (hi > 1e300) ? -1.5e307 : 0.0;
    st.insert_simplex({0}, lo); st.insert_simplex({1}, hi); st.insert_simplex({0,1}, hi);
    auto efd = st.extend_filtration();
    std::cout << "spread " << hi-lo << ":";
    for (auto sh : st.complex_simplex_range()) { std::cout << " ["; for (auto v : st.simplex_vertex_range(sh)) std::cout << v << ","; std::cout << "]=" << st.filtration(sh);
      auto p = st.decode_extended_filtration(st.filtration(sh), efd); std::cout << "->(" << p.first << "," << (int)p.second << ")"; }
    std::cout << "\n";
  }
}
