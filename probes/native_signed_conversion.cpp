#include <gudhi/Fields/Zp_field.h>
#include <gudhi/Fields/Zp_field_operators.h>
#include <gudhi/Fields/Zp_field_shared.h>
#include <iostream>
int main(){
  using namespace Gudhi::persistence_fields;
  Zp_field_element<5> a(-12);
  std::cout << "Zp_field_element<5>(-12) = " << a.get_value() << " expected 3\n";
  Zp_field_element<5> al((long)-12);
  std::cout << "Zp_field_element<5>(-12L) = " << al.get_value() << " expected 3\n";
  Zp_field_operators<> op(5);
  std::cout << "ops(5).get_value(-12) = " << op.get_value(-12) << " expected 3\n";
  std::cout << "ops(5).get_value(-12L) = " << op.get_value(-12L) << " expected 3\n";
  Shared_Zp_field_element<>::initialize(5);
  Shared_Zp_field_element<> s(-12);
  std::cout << "shared(-12) = " << s.get_value() << " expected 3\n";
  Zp_field_element<7> b(-100);
  std::cout << "Zp<7>(-100) = " << b.get_value() << " expected " << (((-100)%7)+7)%7 << "\n";
}
