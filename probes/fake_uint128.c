#include <stdint.h>
typedef struct { uint64_t high, low; } Fake_uint128;
typedef unsigned __int128 u128;
static u128 native(Fake_uint128 a){ return ((u128)a.high << 64) + a.low; }
Fake_uint128 op_add(Fake_uint128 a, Fake_uint128 b){ Fake_uint128 res; res.low = a.low + b.low; res.high = a.high + b.high + (res.low < a.low); return res; }
Fake_uint128 op_sub(Fake_uint128 a, Fake_uint128 b){ Fake_uint128 res; res.low = a.low - b.low; res.high = a.high - b.high - (res.low > a.low); return res; }
Fake_uint128 op_shl(Fake_uint128 a, uint8_t b){ Fake_uint128 res;
    if (b >= 64) { res.low = 0; res.high = a.low << (b-64); }
    else if (b == 0) { res = a; }
    else { res.low = a.low << b; res.high = a.high << b | a.low >> (64-b); }
    return res; }
Fake_uint128 op_shr(Fake_uint128 a, uint8_t b){ Fake_uint128 res;
    if (b >= 64) { res.high = 0; res.low = a.high >> (b-64); }
    else if (b == 0) { res = a; }
    else { res.high = a.high >> b; res.low = a.low >> b | a.high << (64-b); }
    return res; }
void harness(void){ Fake_uint128 a,b; uint8_t s; __CPROVER_assume(s<128);
  __CPROVER_assert(native(op_add(a,b))==(u128)(native(a)+native(b)),"add");
  __CPROVER_assert(native(op_sub(a,b))==(u128)(native(a)-native(b)),"sub");
  __CPROVER_assert(native(op_shl(a,s))==(u128)(native(a)<<s),"shl");
  __CPROVER_assert(native(op_shr(a,s))==(u128)(native(a)>>s),"shr");
  __CPROVER_assert((native(a)<native(b)) == (a.high < b.high || (a.high == b.high && a.low < b.low)),"lt");
}
