typedef unsigned int Element; typedef Element Characteristic;
Element _multiply(Element e1, Element e2, Characteristic characteristic)
__CPROVER_requires(characteristic >= 2 && e1 < characteristic && e2 < characteristic)
__CPROVER_ensures(__CPROVER_return_value < characteristic)
__CPROVER_assigns()
{
    unsigned int a = e1; e1 = 0; unsigned int temp_b;
    while (a != 0)
    __CPROVER_assigns(a, e1, e2, temp_b)
    __CPROVER_loop_invariant(e1 < characteristic && e2 < characteristic)
    __CPROVER_decreases(a)
    {
      if (a & 1) { if (e2 >= characteristic - e1) e1 -= characteristic; e1 += e2; }
      a >>= 1;
      temp_b = e2; if (e2 >= characteristic - e2) temp_b -= characteristic; e2 += temp_b;
    }
    return e1;
}
/* loop body as function: exact step */
void _multiply__loop0_body(unsigned int* a, Element* e1, Element* e2, Characteristic characteristic)
__CPROVER_requires(__CPROVER_is_fresh(a,sizeof(*a)) && __CPROVER_is_fresh(e1,sizeof(*e1)) && __CPROVER_is_fresh(e2,sizeof(*e2)))
__CPROVER_requires(characteristic >= 2 && *e1 < characteristic && *e2 < characteristic && *a != 0)
__CPROVER_assigns(*a,*e1,*e2)
__CPROVER_ensures(*a == __CPROVER_old(*a) >> 1)
__CPROVER_ensures(*e2 == (Element)((2ull * __CPROVER_old(*e2)) % characteristic))
__CPROVER_ensures(*e1 == ((__CPROVER_old(*a) & 1) ? (Element)(((unsigned long long)__CPROVER_old(*e1) + __CPROVER_old(*e2)) % characteristic) : __CPROVER_old(*e1)))
{
      unsigned int temp_b;
      if (*a & 1) { if (*e2 >= characteristic - *e1) *e1 -= characteristic; *e1 += *e2; }
      *a >>= 1;
      temp_b = *e2; if (*e2 >= characteristic - *e2) temp_b -= characteristic; *e2 += temp_b;
}
void h1(void){ Element a,b,c; _multiply(a,b,c);} 
void h2(void){ unsigned *a; Element *x,*y; Characteristic c; _multiply__loop0_body(a,x,y,c);} 
