#include <stddef.h>
void harness(void){
  size_t n_rows, n_cols, x, y;
  __CPROVER_assume(n_rows>=2 && n_cols>=2 && n_rows<=LIM && n_cols<=LIM);
  size_t dy=n_cols, size_x=dy-1, size_y=n_rows-1, input_size=n_rows*n_cols;
  __CPROVER_assume(1<=x && x<size_x && 1<=y && y<size_y);
  size_t i = x + dy*y;
  __CPROVER_assert(i + dy + 1 < input_size, "up-right neighbour in range");
  __CPROVER_assert(i >= dy + 1, "down-left neighbour in range");
  __CPROVER_assert(i < input_size - dy - 1, "vertex index i in range of data_v_");
}
