#include <gudhi/Fields/Multi_field_small_operators.h>
#include <gudhi/Fields/Multi_field_operators.h>
#include <gudhi/Fields/Multi_field_small.h>
#include <iostream>
int main(){
  using namespace Gudhi::persistence_fields;
  Multi_field_operators_with_small_characteristics s(2,5);
  Multi_field_operators g(2,5);
  for (unsigned Q : {30u,6u,10u,15u,2u,3u,5u}) for (unsigned e=0;e<30;e++){ std::cerr<<"Q="<<Q<<" e="<<e<<std::endl;
    auto a = s.get_partial_inverse(e,Q);
    auto b = g.get_partial_inverse(mpz_class(e),mpz_class(Q));
    if (mpz_class(a.first)!=b.first || mpz_class(a.second)!=b.second)
      std::cout<<"Q="<<Q<<" e="<<e<<" small=("<<a.first<<","<<a.second<<") gmp=("<<b.first<<","<<b.second<<")\n";
  }
  // _get_inverse with int quotient/temp
  Multi_field_element_with_small_characteristics<2,5> x(5);
  auto r = x.get_partial_inverse(6);
  std::cout << "elem small <2,5>(5).partial_inverse(6) = ("<<r.first.get_value()<<","<<r.second<<") expected (5,6)\n";
}
