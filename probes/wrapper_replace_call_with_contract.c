#include <limits.h>
#include <stdint.h>
typedef unsigned int Element; typedef Element Characteristic;
struct Ops { Characteristic characteristic_; };
Element get_value(const struct Ops* this, Element e)
__CPROVER_requires(__CPROVER_is_fresh(this,sizeof(*this)) && this->characteristic_ >= 2)
__CPROVER_ensures(__CPROVER_return_value == e % this->characteristic_)
__CPROVER_assigns()
{ return e < this->characteristic_ ? e : e % this->characteristic_; }
Element _add(Element e1, Element e2, Characteristic characteristic)
__CPROVER_requires(characteristic >= 2 && e1 < characteristic && e2 < characteristic)
__CPROVER_ensures(__CPROVER_return_value == (Element)(((uint64_t)e1 + (uint64_t)e2) % characteristic))
__CPROVER_assigns()
{
    if (UINT_MAX - e1 < e2) { e1 += e2; e1 -= characteristic; return e1; }
    e1 += e2; if (e1 >= characteristic) e1 -= characteristic; return e1;
}
Element add(const struct Ops* this, Element e1, Element e2)
__CPROVER_requires(__CPROVER_is_fresh(this,sizeof(*this)) && this->characteristic_ >= 2)
__CPROVER_ensures(__CPROVER_return_value == (Element)(((uint64_t)(e1 % this->characteristic_) + (uint64_t)(e2 % this->characteristic_)) % this->characteristic_))
__CPROVER_assigns()
{ return _add(get_value(this,e1), get_value(this,e2), this->characteristic_); }
void add_inplace(const struct Ops* this, Element* e1, Element e2)
__CPROVER_requires(__CPROVER_is_fresh(this,sizeof(*this)) && this->characteristic_ >= 2 && __CPROVER_is_fresh(e1,sizeof(*e1)))
__CPROVER_ensures(*e1 == (Element)(((uint64_t)(__CPROVER_old(*e1) % this->characteristic_) + (uint64_t)(e2 % this->characteristic_)) % this->characteristic_))
__CPROVER_assigns(*e1)
{ *e1 = _add(get_value(this,*e1), get_value(this,e2), this->characteristic_); }
void h(void){ struct Ops* o; Element a,b; add(o,a,b); }
void h2(void){ struct Ops* o; Element *a,b; add_inplace(o,a,b); }
