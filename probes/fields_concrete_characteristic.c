#include <limits.h>
#include <stdint.h>
typedef unsigned int Element; typedef Element Characteristic;
static const Characteristic characteristic_ = P;
Element get_value(Element e){ return e < characteristic_ ? e : e % characteristic_; }
Element get_value_int(int e){
    if (e < -(int)(characteristic_)) e = e % (int)characteristic_;
    if (e < 0) return e += characteristic_;
    return e < (int)(characteristic_) ? e : e % (int)characteristic_; }
Element _add(Element e1, Element e2, Characteristic characteristic){
    if (UINT_MAX - e1 < e2) { e1 += e2; e1 -= characteristic; return e1; }
    e1 += e2; if (e1 >= characteristic) e1 -= characteristic; return e1; }
Element add(Element e1, Element e2){ return _add(get_value(e1), get_value(e2), characteristic_); }
Element multiply_and_add(Element e, Element m, Element a){ return get_value(e * m + a); }
int plus_times_equal(int x, int y, int w){ int result = (x + w * y) % (int)P; if (result < 0) result += (int)P; return result; }
void h_gv(void){ Element e; Element r=get_value(e); __CPROVER_assert(r<P && ((uint64_t)e-r)%P==0 && r==e%P,"residue"); }
void h_gvi(void){ int e; Element r=get_value_int(e); __CPROVER_assert(r<P && ((int64_t)e-(int64_t)r)%(int64_t)P==0,"residue signed"); }
void h_add(void){ Element a,b; Element r=add(a,b); __CPROVER_assert(r==(Element)(((uint64_t)a+b)%P),"add"); }
void h_maa(void){ Element e,m,a; __CPROVER_assume(e<P&&m<P&&a<P); Element r=multiply_and_add(e,m,a); __CPROVER_assert(r==(Element)(((uint64_t)e*m+a)%P),"maa"); }
void h_pte(void){ int x,y,w; __CPROVER_assume(0<=x&&x<(int)P&&0<=y&&y<(int)P&&0<=w&&w<(int)P); int r=plus_times_equal(x,y,w); __CPROVER_assert(0<=r&&r<(int)P&&((int64_t)x+(int64_t)w*y-r)%(int64_t)P==0,"pte"); }
