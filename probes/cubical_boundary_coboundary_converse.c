#include <stddef.h>
#include <stdint.h>
#ifndef DMAX
#define DMAX 3
#endif
struct bcc { size_t D; unsigned sizes[DMAX]; unsigned multipliers[DMAX]; size_t data_size; };

/* extracted: get_boundary_of_a_cell; vector push_back -> out[n++] */
size_t get_boundary_of_a_cell(const struct bcc* this, size_t cell, size_t* boundary_elements) {
  size_t n_out = 0;
  size_t sum_of_dimensions = 0;
  size_t cell1 = cell;
  for (size_t i = this->D; i > 1; --i) {
    unsigned position = cell1 / this->multipliers[i - 1];
    cell1 = cell1 % this->multipliers[i - 1];
    if (position % 2 == 1) {
      if (sum_of_dimensions % 2) {
        boundary_elements[n_out++] = (cell + this->multipliers[i - 1]);
        boundary_elements[n_out++] = (cell - this->multipliers[i - 1]);
      } else {
        boundary_elements[n_out++] = (cell - this->multipliers[i - 1]);
        boundary_elements[n_out++] = (cell + this->multipliers[i - 1]);
      }
      ++sum_of_dimensions;
    }
  }
  if (cell1 % 2 == 1) {
    if (sum_of_dimensions % 2) {
      boundary_elements[n_out++] = (cell + 1);
      boundary_elements[n_out++] = (cell - 1);
    } else {
      boundary_elements[n_out++] = (cell - 1);
      boundary_elements[n_out++] = (cell + 1);
    }
    ++sum_of_dimensions;
  }
  return n_out;
}
size_t compute_position_in_bitmap(const struct bcc* this, const unsigned* counter) {
  size_t position = 0;
  for (size_t i = 0; i != this->D; ++i) position += this->multipliers[i] * counter[i];
  return position;
}
unsigned get_dimension_of_a_cell(const struct bcc* this, size_t cell) {
  unsigned dimension = 0;
  for (size_t i = this->D; i > 1; --i) {
    unsigned position = cell / this->multipliers[i - 1];
    size_t newcell = cell % this->multipliers[i - 1];
    if (position % 2 == 1) dimension++;
    cell = newcell;
  }
  if (cell % 2 == 1) dimension++;
  return dimension;
}


/* extracted by hand for the probe: compute_counter_for_given_cell + get_coboundary_of_a_cell */
void compute_counter_for_given_cell(const struct bcc* this, size_t cell, unsigned* counter) {
  for (size_t dim = this->D; dim > 1; --dim) { size_t quot = cell / this->multipliers[dim - 1]; cell = cell % this->multipliers[dim - 1]; counter[dim-1] = quot; }
  counter[0] = cell;
}
size_t get_coboundary_of_a_cell(const struct bcc* this, size_t cell, size_t* coboundary_elements) {
  unsigned counter[DMAX]; compute_counter_for_given_cell(this, cell, counter);
  size_t n_out = 0; size_t cell1 = cell;
  for (size_t i = this->D; i > 1; --i) {
    unsigned position = cell1 / this->multipliers[i - 1];
    cell1 = cell1 % this->multipliers[i - 1];
    if (position % 2 == 0) {
      if ((cell > this->multipliers[i - 1]) && (counter[i - 1] != 0)) coboundary_elements[n_out++] = (cell - this->multipliers[i - 1]);
      if ((cell + this->multipliers[i - 1] < this->data_size) && (counter[i - 1] != 2 * this->sizes[i - 1])) coboundary_elements[n_out++] = (cell + this->multipliers[i - 1]);
    }
  }
  if (cell1 % 2 == 0) {
    if ((cell > 1) && (counter[0] != 0)) coboundary_elements[n_out++] = (cell - 1);
    if ((cell + 1 < this->data_size) && (counter[0] != 2 * this->sizes[0])) coboundary_elements[n_out++] = (cell + 1);
  }
  return n_out;
}
void harness(void) {
  struct bcc c; c.D = CD; { unsigned cs[] = CS; for (int q=0;q<CD;q++) c.sizes[q]=cs[q]; }
  unsigned m = 1; for (size_t i = 0; i < DMAX; ++i) if (i < c.D) { c.multipliers[i] = m; m *= 2*c.sizes[i]+1; }
  c.data_size = m;
  size_t a, b; __CPROVER_assume(a < c.data_size && b < c.data_size);
  size_t bd[2*DMAX], cb[2*DMAX]; size_t nb = get_boundary_of_a_cell(&c, a, bd); size_t nc = get_coboundary_of_a_cell(&c, b, cb);
  _Bool in_bd = 0, in_cb = 0;
  for (size_t k = 0; k < 2*DMAX; ++k) { if (k < nb && bd[k] == b) in_bd = 1; if (k < nc && cb[k] == a) in_cb = 1; }
  __CPROVER_assert(in_bd == in_cb, "b in boundary(a) iff a in coboundary(b)");
  for (size_t k = 0; k < 2*DMAX; ++k) if (k < nc) __CPROVER_assert(cb[k] < c.data_size, "coface index in range");
}
