#include <limits.h>
#include <stdint.h>
typedef unsigned int Element;
typedef Element Characteristic;

Element _add(Element e1, Element e2, Characteristic characteristic)
__CPROVER_requires(characteristic >= 2 && e1 < characteristic && e2 < characteristic)
__CPROVER_ensures(__CPROVER_return_value == (Element)(((uint64_t)e1 + (uint64_t)e2) % characteristic))
__CPROVER_assigns()
{
    if (UINT_MAX - e1 < e2) {
      // automatic unsigned integer overflow behaviour will make it work
      e1 += e2;
      e1 -= characteristic;
      return e1;
    }

    e1 += e2;
    if (e1 >= characteristic) e1 -= characteristic;

    return e1;
}
Element _subtract(Element e1, Element e2, Characteristic characteristic)
__CPROVER_requires(characteristic >= 2 && e1 < characteristic && e2 < characteristic)
__CPROVER_ensures(__CPROVER_return_value < characteristic && (__CPROVER_return_value + (uint64_t)e2) % characteristic == e1)
__CPROVER_assigns()
{
    if (e1 < e2) {
      e1 += characteristic;
    }
    e1 -= e2;

    return e1;
}
Element _multiply(Element e1, Element e2, Characteristic characteristic)
__CPROVER_requires(characteristic >= 2 && characteristic < 65536 && e1 < characteristic && e2 < characteristic)
__CPROVER_ensures(__CPROVER_return_value == (Element)(((uint64_t)e1 * (uint64_t)e2) % characteristic))
__CPROVER_assigns()
{
    unsigned int a = e1;
    e1 = 0;
    unsigned int temp_b;

    while (a != 0) {
      if (a & 1) {
        if (e2 >= characteristic - e1) e1 -= characteristic;
        e1 += e2;
      }
      a >>= 1;

      temp_b = e2;
      if (e2 >= characteristic - e2) temp_b -= characteristic;
      e2 += temp_b;
    }

    return e1;
}
void h_add(void){ Element a,b,c; _add(a,b,c);} 
void h_sub(void){ Element a,b,c; _subtract(a,b,c);} 
void h_mul(void){ Element a,b,c; _multiply(a,b,c);} 
