#include <stdint.h>
typedef unsigned int Element;
static unsigned int characteristic_;
Element get_value(Element e)
__CPROVER_requires(characteristic_ >= 2)
#ifdef SPEC_A
__CPROVER_ensures(__CPROVER_return_value == e % characteristic_)
#else
__CPROVER_ensures(__CPROVER_return_value < characteristic_ && (e - __CPROVER_return_value) % characteristic_ == 0)
#endif
__CPROVER_assigns()
{ return e < characteristic_ ? e : e % characteristic_; }
void h(void){ Element e; get_value(e); }
/* fixed signed version */
Element get_value_int(int e)
__CPROVER_requires(characteristic_ >= 2 && characteristic_ <= 2147483647u)
__CPROVER_ensures(__CPROVER_return_value < characteristic_)
__CPROVER_ensures(((int64_t)e - (int64_t)__CPROVER_return_value) % (int64_t)characteristic_ == 0)
__CPROVER_assigns()
{
    if (e < -(int)(characteristic_)) e = e % (int)characteristic_;
    if (e < 0) return e += characteristic_;
    return e < (int)(characteristic_) ? e : e % (int)characteristic_;
}
void h3(void){ int e; get_value_int(e); }
