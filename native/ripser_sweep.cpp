// Native bounded stand-in for the headline clause of C11 ("the intervals streamed by Ripser equal the barcode of the Rips
// flag filtration computed through the simplex tree and persistent cohomology"), which no contract can reach here (the
// reduction runs on heaps, hash maps and std::optional).  EVERY symmetric dissimilarity on 4 points with entries in
// {1,2,3} and in {0,1,2}, sampled ones on 5 and 6 points (VERIF_SEED), a few Euclidean clouds (one of 8 points with a class in
// dimension 3); every threshold among {none, each
// distinct distance, half the smallest}; dim_max = 0..n-2; moduli 2 and 3; input forms full, lower, upper, sparse
// (and Euclidean for the clouds).  Zero-length intervals are dropped on both sides.
// usage: ripser_sweep <seed> <tier> <shard> <nshards>     prints one JSON line
#include <gudhi/ripser.h>
#include <gudhi/Rips_complex.h>
#include <gudhi/Simplex_tree.h>
#include <gudhi/Persistent_cohomology.h>
#include <algorithm>
#include <cmath>
#include <csignal>
#include <cstdio>
#include <limits>
#include <string>
#include <unistd.h>
#include <vector>
typedef double value_t; typedef std::vector<std::vector<value_t>> Mat;
typedef std::vector<std::vector<std::pair<value_t, value_t>>> Barcode;
struct P { typedef int vertex_t; typedef double value_t; };
using namespace Gudhi::ripser;
typedef Compressed_distance_matrix<P, LOWER_TRIANGULAR> Lower; typedef Compressed_distance_matrix<P, UPPER_TRIANGULAR> Upper;
typedef Full_distance_matrix<P> Full; typedef Sparse_distance_matrix<P> Sparse; typedef Euclidean_distance_matrix<P> Euclid;
static const value_t inf = std::numeric_limits<value_t>::infinity();
static char g_cur[300];
static void on_crash(int sig) { char b[600]; int n = snprintf(b, 600, "{\"class\":\"ripser\",\"checked\":1,\"mismatches\":1,\"first\":[{\"case\":\"%s: crash (signal %d)\"}]}\n", g_cur, sig); if (write(1, b, n)) {} _exit(0); }
static long total = 0, bad = 0; static std::string firsts;
static Barcode oracle(const Mat& m, value_t threshold, int dim_max, int modulus) {
  int n = m.size(); std::vector<std::vector<value_t>> low(n); for (int i = 0; i < n; ++i) for (int j = 0; j < i; ++j) low[i].push_back(m[i][j]);
  Gudhi::rips_complex::Rips_complex<value_t> rc(low, threshold); Gudhi::Simplex_tree<> st; rc.create_complex(st, dim_max + 1);
  Gudhi::persistent_cohomology::Persistent_cohomology<Gudhi::Simplex_tree<>, Gudhi::persistent_cohomology::Field_Zp> pc(st, true);
  pc.init_coefficients(modulus); pc.compute_persistent_cohomology(0);
  Barcode b(dim_max + 1); for (int d = 0; d <= dim_max; ++d) { for (auto& iv : pc.intervals_in_dimension(d)) if (iv.first < iv.second) b[d].push_back(iv); std::sort(b[d].begin(), b[d].end()); } return b; }
template <class Dist> static Barcode run(Dist d, int dim_max, value_t threshold, unsigned modulus) {
  Barcode b(dim_max + 1); int cur = -1;
  ripser_auto(std::move(d), dim_max, threshold, modulus, [&](int dim) { cur = dim; }, [&](value_t birth, value_t death) { if (birth < death && cur >= 0 && cur <= dim_max) b[cur].push_back({birth, death}); });
  for (auto& v : b) std::sort(v.begin(), v.end()); return b; }
static std::string show(const Barcode& b) { std::string s; for (size_t d = 0; d < b.size(); ++d) { s += " dim" + std::to_string(d) + ":"; for (auto& iv : b[d]) { char t[64]; snprintf(t, 64, "[%g,%g)", iv.first, iv.second); s += t; } } return s; }
static void check(const std::string& tag, const Barcode& got, const Barcode& want) { ++total; if (got == want) return;
  if (bad < 3) { std::string w = tag + " ripser:" + show(got) + " reference:" + show(want); for (auto& c : w) if (c == '"') c = '\''; firsts += std::string(firsts.empty() ? "" : ",") + "{\"case\":\"" + w + "\"}"; } ++bad; }
static void all_forms(const std::string& name, const Mat& m, const std::vector<std::vector<value_t>>* points) {
  int n = m.size(); value_t enclosing = inf; for (int i = 0; i < n; ++i) enclosing = std::min(enclosing, *std::max_element(m[i].begin(), m[i].end()));
  std::vector<value_t> values; for (int i = 0; i < n; ++i) for (int j = 0; j < i; ++j) values.push_back(m[i][j]);
  std::sort(values.begin(), values.end()); values.erase(std::unique(values.begin(), values.end()), values.end());
  std::vector<value_t> thresholds = values; thresholds.push_back(values.front() / 2); thresholds.push_back(inf);
  for (value_t thr : thresholds) for (int dim_max = 0; dim_max <= std::max(0, n - 2); ++dim_max) for (unsigned modulus : {2u, 3u}) {
    std::string tag = name + " thr=" + (thr == inf ? std::string("none") : std::to_string(thr)) + " dim_max=" + std::to_string(dim_max) + " mod=" + std::to_string(modulus);
    snprintf(g_cur, 300, "%s", tag.c_str());
    Barcode want = oracle(m, thr == inf ? enclosing : thr, dim_max, modulus);
    std::vector<value_t> lo, up; for (int i = 0; i < n; ++i) for (int j = 0; j < i; ++j) lo.push_back(m[i][j]); for (int i = 0; i < n; ++i) for (int j = i + 1; j < n; ++j) up.push_back(m[i][j]);
    check(tag + " form=lower", run(Lower(std::vector<value_t>(lo)), dim_max, thr, modulus), want);
    check(tag + " form=upper", run(Upper(std::move(up)), dim_max, thr, modulus), want);
    check(tag + " form=full", run(Full(Lower(std::vector<value_t>(lo))), dim_max, thr, modulus), want);
    { std::vector<std::vector<Sparse::vertex_diameter_t>> nb(n); for (int i = 0; i < n; ++i) for (int j = 0; j < n; ++j) if (i != j && m[i][j] <= thr) nb[i].emplace_back(j, m[i][j]);
      check(tag + " form=sparse", run(Sparse(std::move(nb)), dim_max, thr, modulus), want); }
    if (points) check(tag + " form=euclidean", run(Euclid(std::vector<std::vector<value_t>>(*points)), dim_max, thr, modulus), want); } }
static Mat matrix_of(const Euclid& e) { int n = e.size(); Mat m(n, std::vector<value_t>(n, 0)); for (int i = 0; i < n; ++i) for (int j = 0; j < n; ++j) if (i != j) m[i][j] = e(std::max(i, j), std::min(i, j)); return m; }
int main(int argc, char** argv) {
  long seed = argc > 1 ? atol(argv[1]) : 0; int tier = argc > 2 ? atoi(argv[2]) : 0; long shard = argc > 3 ? atol(argv[3]) : 0, nsh = argc > 4 ? atol(argv[4]) : 1;
  signal(SIGSEGV, on_crash); signal(SIGABRT, on_crash); signal(SIGFPE, on_crash); signal(SIGBUS, on_crash);
  unsigned long long rng = 0x9E3779B97F4A7C15ull * (unsigned long long)(seed * 131 + shard + 1); auto nextr = [&]() { rng ^= rng << 13; rng ^= rng >> 7; rng ^= rng << 17; return rng; };
  long job = 0;
  for (int code = 0; code < 729; code++) { if (job++ % nsh != shard) continue; Mat m(4, std::vector<value_t>(4, 0)); int q = code; for (int i = 0; i < 4; i++) for (int j = 0; j < i; j++) { m[i][j] = m[j][i] = 1 + q % 3; q /= 3; } all_forms("n4#" + std::to_string(code), m, nullptr); }
  // the same with entries in {0,1,2}: distinct points at distance exactly 0 (zero-length edges; the sparse lookup keys on {j, 0})
  for (int code = 0; code < 729; code++) { if (job++ % nsh != shard) continue; Mat m(4, std::vector<value_t>(4, 0)); int q = code; for (int i = 0; i < 4; i++) for (int j = 0; j < i; j++) { m[i][j] = m[j][i] = q % 3; q /= 3; } all_forms("n4z#" + std::to_string(code), m, nullptr); }
  for (int n : {2, 3}) for (int code = 0; code < (n == 2 ? 3 : 27); code++) { if (job++ % nsh != shard) continue; Mat m(n, std::vector<value_t>(n, 0)); int q = code; for (int i = 0; i < n; i++) for (int j = 0; j < i; j++) { m[i][j] = m[j][i] = 1 + q % 3; q /= 3; } all_forms("n" + std::to_string(n) + "#" + std::to_string(code), m, nullptr); }
  int samples = tier ? 600 : 60;
  for (int s = 0; s < samples; s++) { if (job++ % nsh != shard) { for (int k = 0; k < 16; k++) nextr(); continue; } int n = 5 + (s % 2); int amax = 2 + nextr() % 5; Mat m(n, std::vector<value_t>(n, 0)); for (int i = 0; i < n; i++) for (int j = 0; j < i; j++) m[i][j] = m[j][i] = (s % 3 == 2 ? 0 : 1) + nextr() % amax; all_forms("n" + std::to_string(n) + "~" + std::to_string(s), m, nullptr); }
  std::vector<std::vector<std::vector<value_t>>> clouds = {{{0, 0}, {1, 0}, {1, 1}, {0, 1}}, {{1, 0, 0}, {-1, 0, 0}, {0, 1, 0}, {0, -1, 0}, {0, 0, 1}, {0, 0, -1}}, {{0, 0}, {2, 0}, {4, 0}, {0, 2}, {2, 2}, {4, 2}}, {{0.3, 0.1}, {4.1, 0.4}, {5.2, 3.3}, {2.9, 5.7}, {-0.4, 3.9}, {2.2, 2.4}},
    // cross-polytope in R^4 (a 3-sphere: one class in dimension 3, needs dim_max >= 3) and in R^3 with a doubled point
    {{1, 0, 0, 0}, {-1, 0, 0, 0}, {0, 1, 0, 0}, {0, -1, 0, 0}, {0, 0, 1, 0}, {0, 0, -1, 0}, {0, 0, 0, 1}, {0, 0, 0, -1}},
    {{1, 0, 0}, {-1, 0, 0}, {0, 1, 0}, {0, -1, 0}, {0, 0, 1}, {0, 0, -1}, {0, 0, -1}}};
  for (size_t c = 0; c < clouds.size(); c++) { if (job++ % nsh != shard) continue; all_forms("cloud" + std::to_string(c), matrix_of(Euclid(std::vector<std::vector<value_t>>(clouds[c]))), &clouds[c]); }
  printf("{\"class\":\"ripser\",\"checked\":%ld,\"mismatches\":%ld,\"first\":[%s]}\n", total, bad, firsts.c_str()); return 0; }
