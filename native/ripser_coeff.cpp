// Native stand-in for C11 (coefficient packing with the PORTABLE 128-bit type, which CBMC's C front end cannot bind):
// the real Rips_filtration<..>::make_entry / get_index / get_coefficient / set_coefficient on many simplex indices
// (every 2^k and 2^k - 1 that fits, plus pseudo-random ones) and every coefficient of several moduli.  Compiled twice
// by the driver: with -DGUDHI_FORCE_FAKE_UINT128 (Fake_uint128) and without (native unsigned __int128).
#include <gudhi/uint128.h>
#include <gudhi/ripser.h>
#include <cstdio>
#include <string>
using namespace Gudhi::ripser;
struct DP { typedef int vertex_t; typedef float value_t; };
int main() {
  typedef Gudhi::numbers::uint128_t S; typedef TParams<true, S, float> P;
  typedef Sparse_distance_matrix<DP> SM; typedef Bitfield_encoding<P> Enc; typedef Rips_filtration<SM, Enc, P> Filt;
  long total = 0, bad = 0; std::string firsts; unsigned long long rng = 88172645463325252ull;
  auto nextr = [&]() { rng ^= rng << 13; rng ^= rng >> 7; rng ^= rng << 17; return rng; };
  for (unsigned modulus : {3u, 5u, 7u, 11u, 251u}) {
    std::vector<std::vector<SM::vertex_diameter_t>> nb(70000); SM sm(std::move(nb), 0);
    Filt filt(std::move(sm), 3, 1.0f, modulus);                 // 17 bits per vertex, 5 vertices: indices below 2^85
    std::vector<S> idxs;
    for (int k = 0; k < 85; k++) { idxs.push_back(S(1) << k); idxs.push_back((S(1) << k) - S(1)); }
    for (int k = 0; k < 200; k++) idxs.push_back(((S(nextr() & ((1ull << 21) - 1))) << 64) + S(nextr()));
    for (S idx : idxs) for (unsigned c = 1; c < modulus; c += (modulus > 20 ? 37 : 1)) for (unsigned c2 = 1; c2 < modulus; c2 += (modulus > 20 ? 41 : 1)) {
      ++total; auto e = filt.make_entry(idx, c); bool ok = filt.get_index(e) == idx && filt.get_coefficient(e) == c;
      filt.set_coefficient(e, c2); ok = ok && filt.get_index(e) == idx && filt.get_coefficient(e) == c2;
      if (!ok) { if (bad < 3) firsts += std::string(firsts.empty() ? "" : ",") + "{\"case\":\"modulus " + std::to_string(modulus) + ", index with high word " + std::to_string((unsigned long long)(std::uint64_t)(idx >> 64)) + " low word " + std::to_string((unsigned long long)(std::uint64_t)(idx & S(~0ull))) + ", coefficients " + std::to_string(c) + " -> " + std::to_string(c2) + ": index or coefficient not preserved\"}"; ++bad; } } }
  printf("{\"class\":\"coefficient packing\",\"checked\":%ld,\"mismatches\":%ld,\"first\":[%s]}\n", total, bad, firsts.c_str()); return 0; }
