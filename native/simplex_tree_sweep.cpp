// Native bounded stand-in for the whole-tree clauses of C03, which no contract can reach here (the operations run
// through Siblings / flat_map / intrusive hooks and are not extractable): EVERY simplicial complex on the vertices
// {0,1,2,3} (all 4 vertices present), pseudo-random value assignments from {0,1,2,3} per complex, three option sets
// (default, full_featured = stable handles + linked nodes, int-valued).  Checked against definitions computed here:
//   * filtration_simplex_range: every simplex exactly once, never decreasing, faces first, and equal to the canonical
//     (value, reverse-lexicographic) order - the same for two insertion histories and all option sets;
//   * make_filtration_non_decreasing: each value becomes the max over the simplex and its faces; true iff one changed;
//   * prune_above_filtration(t): exactly the sublevel complex remains; true iff something was removed; the range
//     afterwards lists what remains (cache dropped);
//   * copy-assignment onto a tree whose cache is filled gives the source's range;
//   * explicit initialize_filtration() / initialize_filtration(true) over an existing cache, and after assign_filtration;
//   * extend_filtration over an existing cache: 2n+1 simplices, the range is a valid filtration of exactly those;
//   * reset_filtration and expansion over an existing cache leave a valid range;
//   * move construction / assignment: target lists the source's range, the moved-from tree lists exactly what it holds.
// usage: simplex_tree_sweep <seed> <samples-per-complex>    prints one JSON line
#include <gudhi/Simplex_tree.h>
#include <type_traits>
#include <algorithm>
#include <csignal>
#include <cstdio>
#include <cstdlib>
#include <map>
#include <string>
#include <unistd.h>
#include <vector>
typedef std::vector<int> Sx;
static char g_cur[200];
static void on_crash(int sig) { char b[500]; int n = snprintf(b, 500, "{\"class\":\"simplex tree\",\"checked\":1,\"mismatches\":1,\"first\":[{\"case\":\"%s: crash (signal %d)\"}]}\n", g_cur, sig); if (write(1, b, n)) {} _exit(0); }
static long total = 0, bad = 0; static std::string firsts;
static void fail(const std::string& w) { if (bad < 3) firsts += std::string(firsts.empty() ? "" : ",") + "{\"case\":\"" + w + "\"}"; ++bad; }
static Sx from_mask(unsigned m) { Sx s; for (int v = 0; v < 4; v++) if (m >> v & 1) s.push_back(v); return s; }
static std::string show(unsigned m) { std::string r = "{"; for (int v = 0; v < 4; v++) if (m >> v & 1) r += std::to_string(v); return r + "}"; }
struct Opt_int : Gudhi::Simplex_tree_options_default { typedef int Filtration_value; };
struct Opt_stable_int : Gudhi::Simplex_tree_options_full_featured { typedef int Filtration_value; };
// reverse lexicographic: compare vertices from the largest down; a proper face (prefix of the reversed word) first
static bool rlo(unsigned a, unsigned b) { for (int v = 3; v >= 0; v--) { bool x = a >> v & 1, y = b >> v & 1; if (x != y) { /* first difference from the top */
      // the word with the smaller vertex at the first differing position is smaller; a missing vertex (shorter remaining word) ...
      unsigned ra = a & ((1u << (v + 1)) - 1), rb = b & ((1u << (v + 1)) - 1); (void)ra; (void)rb; break; } }
  std::vector<int> wa, wb; for (int v = 3; v >= 0; v--) { if (a >> v & 1) wa.push_back(v); if (b >> v & 1) wb.push_back(v); }
  size_t i = 0; while (i < wa.size() && i < wb.size()) { if (wa[i] != wb[i]) return wa[i] < wb[i]; ++i; } return i == wa.size() && i != wb.size(); }
template <class ST> static std::vector<unsigned> range_of(ST& st) { std::vector<unsigned> r; for (auto sh : st.filtration_simplex_range()) { unsigned m = 0; for (auto v : st.simplex_vertex_range(sh)) m |= 1u << v; r.push_back(m); } return r; }
// any filtration range must list every simplex of the tree exactly once, never decrease, and put faces first
template <class ST> static std::string range_defect(ST& st) { std::vector<unsigned> r = range_of(st); if (r.size() != st.num_simplices()) return "lists " + std::to_string(r.size()) + " simplices, the tree holds " + std::to_string(st.num_simplices());
  std::map<unsigned, size_t> pos; for (size_t k = 0; k < r.size(); k++) { if (pos.count(r[k])) return "lists a simplex twice"; pos[r[k]] = k; }
  size_t k = 0; double prev = 0; for (auto sh : st.filtration_simplex_range()) { double f = (double)st.filtration(sh); if (k && f < prev) return "decreases at rank " + std::to_string(k); prev = f; ++k; }
  for (auto& kv : pos) for (unsigned sub = (kv.first - 1) & kv.first; sub; sub = (sub - 1) & kv.first) { auto it = pos.find(sub); if (it == pos.end()) return "lists a simplex without one of its faces"; if (it->second > kv.second) return "lists a face after its coface"; }
  return ""; }
template <class ST, class V> static std::vector<unsigned> canonical(const std::map<unsigned, V>& f) { std::vector<unsigned> r; for (auto& kv : f) r.push_back(kv.first);
  std::sort(r.begin(), r.end(), [&](unsigned a, unsigned b) { if (f.at(a) != f.at(b)) return f.at(a) < f.at(b); return rlo(a, b); }); return r; }
template <class Opt> static void one(const std::vector<unsigned>& K, unsigned long long& rng, int samples, const char* oname) {
  typedef Gudhi::Simplex_tree<Opt> ST; typedef typename Opt::Filtration_value V;
  auto nextr = [&]() { rng ^= rng << 13; rng ^= rng >> 7; rng ^= rng << 17; return rng; };
  for (int smp = 0; smp < samples; smp++) {
    std::map<unsigned, V> raw, mono; for (unsigned m : K) raw[m] = (V)(nextr() % 4);
    for (unsigned m : K) { V mx = raw[m]; for (unsigned s : K) if ((s & m) == s && raw[s] > mx) mx = raw[s]; mono[m] = mx; }
    std::string tag = std::string(oname) + " complex"; for (unsigned m : K) if (__builtin_popcount(m) > 0) { bool maximal = true; for (unsigned s : K) if (s != m && (s & m) == m) maximal = false; if (maximal) tag += " " + show(m); }
    snprintf(g_cur, 200, "%s", tag.c_str());
    // (1) two histories: dimension order with insert_simplex; random order with insert_simplex_and_subfaces
    ST a, b; std::vector<unsigned> byd = K; std::sort(byd.begin(), byd.end(), [](unsigned x, unsigned y) { return __builtin_popcount(x) != __builtin_popcount(y) ? __builtin_popcount(x) < __builtin_popcount(y) : x < y; });
    for (unsigned m : byd) a.insert_simplex(from_mask(m), mono[m]);
    std::vector<unsigned> rnd = K; for (size_t i = rnd.size(); i > 1; i--) std::swap(rnd[i - 1], rnd[nextr() % i]);
    for (unsigned m : rnd) b.insert_simplex_and_subfaces(from_mask(m), mono[m]);
    ++total; auto want = canonical<ST, V>(mono); auto ra = range_of(a), rb = range_of(b);
    if (ra != want) fail(tag + ": filtration_simplex_range after insert_simplex differs from the canonical (value, reverse-lexicographic) order");
    else if (rb != want) fail(tag + ": filtration_simplex_range after insert_simplex_and_subfaces in another order differs (history dependence)");
    for (unsigned m : K) if (b.filtration(b.find(from_mask(m))) != mono[m]) { fail(tag + ": value of " + show(m) + " after insert_simplex_and_subfaces is " + std::to_string((double)b.filtration(b.find(from_mask(m)))) + ", expected " + std::to_string((double)mono[m])); break; }
    // (1b) insert_simplex_and_subfaces with arbitrary values: every face ends at the minimum over the inserted simplices
    //      containing it, whatever the order (an existing simplex keeps the smaller value)
    { std::map<unsigned, V> mn; for (unsigned m : K) { bool first = true; V best = 0; for (unsigned sg : K) if ((sg & m) == m) { if (first || raw[sg] < best) best = raw[sg]; first = false; } mn[m] = best; }
      for (int ord = 0; ord < 2; ord++) { ST h; std::vector<unsigned> o2 = K; for (size_t i = o2.size(); i > 1; i--) std::swap(o2[i - 1], o2[nextr() % i]);
        for (unsigned m : o2) h.insert_simplex_and_subfaces(from_mask(m), raw[m]);
        ++total; bool okv = h.num_simplices() == K.size(); for (unsigned m : K) okv = okv && h.find(from_mask(m)) != h.null_simplex() && h.filtration(h.find(from_mask(m))) == mn[m];
        if (!okv) { fail(tag + ": insert_simplex_and_subfaces with arbitrary values: a face does not hold the minimum over the inserted simplices containing it (order dependence)"); break; } } }
    // (2) make_filtration_non_decreasing on the raw (possibly non monotone) values
    ST c; for (unsigned m : byd) c.insert_simplex(from_mask(m), raw[m]); (void)range_of(c);
    bool changed = c.make_filtration_non_decreasing(); bool should = false; for (unsigned m : K) should |= raw[m] != mono[m];
    ++total; bool ok = changed == should; for (unsigned m : K) ok = ok && c.filtration(c.find(from_mask(m))) == mono[m];
    if (!ok) fail(tag + ": make_filtration_non_decreasing returned " + std::to_string(changed) + " (expected " + std::to_string(should) + ") or a value is not the max over the faces");
    else if (range_of(c) != want) fail(tag + ": filtration range after make_filtration_non_decreasing is stale or not canonical");
    // (3) prune at every threshold
    for (int t = -1; t <= 3; t++) { ST d; for (unsigned m : byd) d.insert_simplex(from_mask(m), mono[m]); (void)range_of(d);
      bool removed = d.prune_above_filtration((V)t); std::map<unsigned, V> keep; for (unsigned m : K) if (!((V)t < mono[m])) keep[m] = mono[m];
      ++total; if (removed != (keep.size() != K.size()) || d.num_simplices() != keep.size()) fail(tag + ": prune_above_filtration(" + std::to_string(t) + ") kept " + std::to_string(d.num_simplices()) + " simplices / returned " + std::to_string(removed) + ", the sublevel complex has " + std::to_string(keep.size()));
      else if (range_of(d) != canonical<ST, V>(keep)) fail(tag + ": filtration range after prune_above_filtration(" + std::to_string(t) + ") does not list exactly the sublevel complex"); }
    // (4) copy-assignment onto a tree with a filled cache
    ST e; e.insert_simplex_and_subfaces({0, 1, 2, 3}, (V)1); (void)range_of(e); e = a; ++total;
    if (range_of(e) != want) fail(tag + ": after copy-assignment the filtration range is not the source's");
    // (5) explicit re-initialisation over an existing cache: every simplex still exactly once, canonical order
    { ST r = a; (void)range_of(r); r.initialize_filtration(); ++total;
      if (range_of(r) != want) fail(tag + ": initialize_filtration() over an existing cache does not give the canonical range (" + std::to_string(range_of(r).size()) + " entries for " + std::to_string(K.size()) + " simplices)");
      r.initialize_filtration(true); ++total;
      if (range_of(r) != want) fail(tag + ": initialize_filtration(true) over an existing cache does not give the canonical range of the finite-valued simplices");
      // raise a maximal simplex, refresh explicitly (the documented way after assign_filtration)
      unsigned top = 0; for (unsigned m : K) { bool maximal = true; for (unsigned sg : K) if (sg != m && (sg & m) == m) maximal = false; if (maximal) top = m; }
      std::map<unsigned, V> up = mono; up[top] = (V)5; r.assign_filtration(r.find(from_mask(top)), (V)5); r.initialize_filtration(); ++total;
      if (range_of(r) != canonical<ST, V>(up)) fail(tag + ": after assign_filtration + initialize_filtration() the range is not the canonical one of the new values"); }
    // (7) extend_filtration over an existing cache (floating-point values only): the cone filtration has 2n+1 simplices and
    //     the range afterwards is a valid filtration of exactly those
    if constexpr (std::is_floating_point<V>::value) { ST x = a; (void)range_of(x); x.extend_filtration(); ++total;
      if (x.num_simplices() != 2 * K.size() + 1) fail(tag + ": extend_filtration gives " + std::to_string(x.num_simplices()) + " simplices, the cone on " + std::to_string(K.size()) + " simplices has " + std::to_string(2 * K.size() + 1));
      else { std::string d = range_defect(x); if (!d.empty()) fail(tag + ": after extend_filtration over an existing cache the filtration range " + d); } }
    // (8) reset_filtration over an existing cache: the range is a valid filtration of the new values
    { ST x = a; (void)range_of(x); x.reset_filtration((V)9, 1); ++total; std::string d = range_defect(x);
      if (!d.empty()) fail(tag + ": after reset_filtration(9, 1) over an existing cache the filtration range " + d); }
    // (9) expansion of the 1-skeleton over an existing cache: the range lists the expanded complex
    { ST x; for (unsigned m : byd) if (__builtin_popcount(m) <= 2) x.insert_simplex(from_mask(m), mono[m]); (void)range_of(x); x.expansion(3); ++total; std::string d = range_defect(x);
      if (!d.empty()) fail(tag + ": after expansion(3) of the 1-skeleton over an existing cache the filtration range " + d); }
    // (6) move: the target lists the source's range; the moved-from tree lists exactly its own (no) simplices and can be reused
    { ST g = a; (void)range_of(g); ST h(std::move(g)); ++total;
      if (range_of(h) != want) fail(tag + ": after move construction the target's filtration range is not the source's");
      else if (range_of(g).size() != g.num_simplices()) fail(tag + ": the moved-from tree lists " + std::to_string(range_of(g).size()) + " simplices in its filtration range but holds " + std::to_string(g.num_simplices()));
      else { for (unsigned m : byd) g.insert_simplex(from_mask(m), mono[m]); if (range_of(g) != want) fail(tag + ": a moved-from tree reused for the same complex does not list it canonically"); }
      ST g2 = a; (void)range_of(g2); ST h2; h2.insert_simplex_and_subfaces({0, 1}, (V)0); (void)range_of(h2); h2 = std::move(g2); ++total;
      if (range_of(h2) != want) fail(tag + ": after move assignment the target's filtration range is not the source's");
      else if (range_of(g2).size() != g2.num_simplices()) fail(tag + ": after move assignment the moved-from tree's filtration range has " + std::to_string(range_of(g2).size()) + " entries but the tree holds " + std::to_string(g2.num_simplices()) + " simplices"); }
  } }
int main(int argc, char** argv) {
  unsigned long long rng = 0x9E3779B97F4A7C15ull * (unsigned long long)((argc > 1 ? atol(argv[1]) : 0) + 1); int samples = argc > 2 ? atoi(argv[2]) : 3;
  signal(SIGSEGV, on_crash); signal(SIGABRT, on_crash); signal(SIGBUS, on_crash); signal(SIGFPE, on_crash);
  long ncomplex = 0;
  for (unsigned fam = 0; fam < (1u << 15); fam++) {            // bit (m-1) = subset m of {0,1,2,3} is a simplex
    bool ok = true; for (unsigned m = 1; m < 16 && ok; m++) if (fam >> (m - 1) & 1) for (unsigned s = 1; s < m; s++) if ((s & m) == s && !(fam >> (s - 1) & 1)) { ok = false; break; }
    for (int v = 0; v < 4; v++) ok = ok && (fam >> ((1u << v) - 1) & 1);
    if (!ok) continue; ++ncomplex; std::vector<unsigned> K; for (unsigned m = 1; m < 16; m++) if (fam >> (m - 1) & 1) K.push_back(m);
    one<Gudhi::Simplex_tree_options_default>(K, rng, samples, "default"); one<Gudhi::Simplex_tree_options_full_featured>(K, rng, samples, "full_featured");
    one<Opt_int>(K, rng, samples, "int-valued"); one<Opt_stable_int>(K, rng, samples, "int-valued stable-handles"); }
  printf("{\"class\":\"simplex tree\",\"complexes\":%ld,\"checked\":%ld,\"mismatches\":%ld,\"first\":[%s]}\n", ncomplex, total, bad, firsts.c_str()); return 0; }
