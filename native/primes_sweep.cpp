// Exhaustive-native stand-in (C10 / C11): every copy of the primality test in /repo against trial division for all
// n < 2^16 (and the negative ints for the signed copy).  Division by a symbolic 6k+-1 is past every CBMC back end.
#include <cassert>
#include <iostream>
#include <cstdio>
#include <gmpxx.h>
#define private public     /* the copies are private static members: test-only access */
#include <gudhi/Fields/Multi_field_small_operators.h>
#include <gudhi/Fields/Multi_field_small_shared.h>
#include <gudhi/Fields/Multi_field_small.h>
#include <gudhi/Fields/Multi_field_operators.h>
#undef private
#include <gudhi/ripser.h>
#include <string>
static bool ref(long n) { if (n < 2) return false; for (long d = 2; d * d <= n; d++) if (n % d == 0) return false; return true; }
int main() {
  using namespace Gudhi::persistence_fields; long total = 0, bad = 0; std::string firsts;
  auto chk = [&](const char* who, long n, bool got) { ++total; if (got != ref(n)) { if (bad < 3) firsts += std::string(firsts.empty() ? "" : ",") + "{\"case\":\"" + who + " is_prime(" + std::to_string(n) + ") = " + (got ? "true" : "false") + "\"}"; ++bad; } };
  for (long n = -70000; n < 65536; n++) {
    chk("Multi_field_operators_with_small_characteristics::_is_prime", n, Multi_field_operators_with_small_characteristics::_is_prime((int)n));
    chk("Multi_field_operators::_is_prime", n, Multi_field_operators::_is_prime((int)n));
    if (n >= 0) {
      chk("Shared_multi_field_element_with_small_characteristics::_is_prime", n, Shared_multi_field_element_with_small_characteristics<>::_is_prime((unsigned)n));
      chk("Multi_field_element_with_small_characteristics::_is_prime", n, Multi_field_element_with_small_characteristics<2, 3>::_is_prime((unsigned)n));
      chk("ripser::is_prime<uint32>", n, Gudhi::ripser::is_prime<unsigned>((unsigned)n));
      chk("ripser::is_prime<uint16>", n, Gudhi::ripser::is_prime<uint_least32_t>((uint_least32_t)n));
    }
  }
  printf("{\"class\":\"is_prime copies\",\"checked\":%ld,\"mismatches\":%ld,\"first\":[%s]}\n", total, bad, firsts.c_str());
  return 0;
}
