// Native stand-in for C13 (values and order): the real Bitmap_cubical_complex (base and periodic class, built from
// top-cell values and from vertex values) on a list of small shapes / periodic masks, with EVERY assignment of values
// from a small alphabet (ties, +inf, -inf included) when the number of input cells is small and pseudo-random
// assignments otherwise.  Checks, from the geometry computed independently here: each cell's value is the minimum
// over the top cells containing it (resp. the maximum over its vertices); the filtration order lists every cell once,
// never decreases, and puts every face before its cofaces.
// usage: cubical_values <seed> <tier>     prints one JSON line
#include <gudhi/Bitmap_cubical_complex.h>
#include <gudhi/Persistent_cohomology.h>
#include <gudhi/Bitmap_cubical_complex_periodic_boundary_conditions_base.h>
#include <algorithm>
#include <cstdio>
#include <cstdlib>
#include <limits>
#include <string>
#include <vector>
#include <csignal>
#include <unistd.h>
using namespace Gudhi::cubical_complex;
// a crash of the code under test (heap corruption, segmentation fault) is reported with the case that caused it
static char g_cur[256];
static void on_crash(int sig) { char b[600]; int n = snprintf(b, 600, "{\"class\":\"cubical values and order\",\"checked\":1,\"mismatches\":1,\"first\":[{\"case\":\"%s: crash (signal %d)\"}]}\n", g_cur, sig); if (write(1, b, n)) {} _exit(0); }
static const double INF = std::numeric_limits<double>::infinity();
static std::vector<unsigned> S; static std::vector<bool> P; static unsigned Dm;
static unsigned L(unsigned i) { return 2 * S[i] + (P[i] ? 0 : 1); }
static size_t M(unsigned i) { size_t m = 1; for (unsigned j = 0; j < i; j++) m *= L(j); return m; }
static unsigned coord(size_t c, unsigned i) { return (c / M(i)) % L(i); }
static size_t total() { size_t t = 1; for (unsigned i = 0; i < Dm; i++) t *= L(i); return t; }
static size_t shift(size_t c, unsigned i, int d) { unsigned x = coord(c, i); unsigned nx = (x + L(i) + d) % L(i); return c - (size_t)x * M(i) + (size_t)nx * M(i); }
// closure: all top cells containing c (coords made odd by +-1 where even), all vertices of c (coords made even)
static void expand(size_t c, bool to_top, std::vector<size_t>& out) {
  std::vector<size_t> cur{c};
  for (unsigned i = 0; i < Dm; i++) { std::vector<size_t> nxt;
    for (size_t x : cur) { unsigned ci = coord(x, i); bool odd = ci % 2;
      if (odd == to_top) nxt.push_back(x);
      else { if (P[i] || ci > 0) nxt.push_back(shift(x, i, -1)); if (P[i] || ci + 1 < L(i)) nxt.push_back(shift(x, i, +1)); } }
    cur.swap(nxt); }
  out = cur; }
static long total_cases = 0, bad = 0; static std::string firsts;
static void fail(const std::string& w) { if (bad < 3) firsts += std::string(firsts.empty() ? "" : ",") + "{\"case\":\"" + w + "\"}"; ++bad; }
template <class CC> static std::string validate(CC& cc, const std::vector<double>& in, bool top, const std::vector<size_t>& cells) {
  size_t n = total(); std::string why;
  std::vector<double> val(n); for (size_t k = 0; k < cells.size(); k++) val[cells[k]] = in[k];
  for (size_t c = 0; c < n && why.empty(); c++) { std::vector<size_t> cl; expand(c, top, cl); double want = top ? INF : -INF;
    for (size_t x : cl) want = top ? std::min(want, val[x]) : std::max(want, val[x]);
    if (cc.get_cell_data(c) != want) why = "cell " + std::to_string(c) + " has value " + std::to_string(cc.get_cell_data(c)) + ", expected " + std::to_string(want); }
  if (why.empty()) { std::vector<long> rank(n, -1); long r = 0; double prev = -INF;
    for (auto sh : cc.filtration_simplex_range()) { if (sh >= n || rank[sh] != -1) { why = "filtration range repeats or leaves the complex"; break; } rank[sh] = r++; double f = cc.filtration(sh); if (f < prev) { why = "filtration decreases at rank " + std::to_string(r); break; } prev = f; }
    if (why.empty() && (size_t)r != n) why = "filtration range lists " + std::to_string(r) + " of " + std::to_string(n) + " cells";
    for (size_t c = 0; c < n && why.empty(); c++) for (auto b : cc.get_boundary_of_a_cell(c)) if (rank[b] > rank[c]) { why = "face " + std::to_string(b) + " comes after its coface " + std::to_string(c); break; } }
  return why; }
// values only (usable on the base classes, which have no filtration range): built by hand from sizes, top cells written through the iterator
template <class BC> static void check_by_hand(BC& bc, const std::vector<double>& in, const std::string& tag) {
  ++total_cases; size_t n = total();
  std::vector<size_t> cells; for (size_t c = 0; c < n; c++) { bool all = true; for (unsigned i = 0; i < Dm; i++) all = all && (coord(c, i) % 2 == 1); if (all) cells.push_back(c); }
  size_t k = 0; for (auto it = bc.top_dimensional_cells_iterator_begin(); it != bc.top_dimensional_cells_iterator_end(); ++it) { if (k < in.size()) bc.get_cell_data(*it) = in[k]; ++k; }
  if (k != in.size()) { fail(tag + ": the top-cell iterator visits " + std::to_string(k) + " cells, expected " + std::to_string(in.size())); return; }
  bc.impose_lower_star_filtration();
  std::vector<double> val(n); for (size_t j = 0; j < cells.size(); j++) val[cells[j]] = in[j];
  for (size_t c = 0; c < n; c++) { std::vector<size_t> cl; expand(c, true, cl); double want = INF; for (size_t x : cl) want = std::min(want, val[x]);
    if (bc.get_cell_data(c) != want) { fail(tag + ": cell " + std::to_string(c) + " has value " + std::to_string(bc.get_cell_data(c)) + ", expected " + std::to_string(want)); return; } } }
template <class CC> static void check(CC& cc, const std::vector<double>& in, bool top, const std::string& tag) {
  ++total_cases; size_t n = total();
  // input cells in the order the constructor reads them = increasing bitmap position
  std::vector<size_t> cells; for (size_t c = 0; c < n; c++) { bool all = true; for (unsigned i = 0; i < Dm; i++) all = all && ((coord(c, i) % 2 == 1) == top); if (all) cells.push_back(c); }
  std::string why = validate(cc, in, top, cells);
  if (!why.empty()) { fail(tag + ": " + why); return; }
  // same object, second life: new values on the input cells, lower-star filtration imposed again, order refreshed explicitly
  ++total_cases; std::vector<double> in2(in.rbegin(), in.rend());
  for (size_t c = 0; c < n; c++) cc.get_cell_data(c) = top ? INF : -INF;
  for (size_t k = 0; k < cells.size(); k++) cc.get_cell_data(cells[k]) = in2[k];
  if (top) cc.impose_lower_star_filtration(); else cc.impose_lower_star_filtration_from_vertices();
  cc.initialize_filtration();
  why = validate(cc, in2, top, cells);
  if (!why.empty()) fail(tag + ": after new values + impose_lower_star_filtration" + (top ? "" : "_from_vertices") + "() + initialize_filtration() on the same object: " + why); }
static void run_shape(std::vector<unsigned> shape, std::vector<bool> mask, bool periodic, unsigned long long& rng, int samples) {
  S = shape; Dm = shape.size(); P = periodic ? mask : std::vector<bool>(Dm, false);
  auto nextr = [&]() { rng ^= rng << 13; rng ^= rng >> 7; rng ^= rng << 17; return rng; };
  static const double alpha[5] = {0, 1, 2, INF, -INF};
  for (int top = 1; top >= 0; top--) { size_t nin = 1; for (unsigned i = 0; i < Dm; i++) nin *= top ? S[i] : (S[i] + (P[i] ? 0 : 1));
    std::vector<unsigned> dims = S; if (!top) for (unsigned i = 0; i < Dm; i++) dims[i] = S[i] + (P[i] ? 0 : 1);
    std::string tag = std::string(periodic ? "periodic" : "base") + " shape"; for (auto s : shape) tag += " " + std::to_string(s); if (periodic) { tag += " mask "; for (bool b : mask) tag += b ? "p" : "f"; } tag += top ? " top-cells" : " vertices";
    snprintf(g_cur, 256, "%s", tag.c_str());
    bool exhaustive = nin <= 6; long cases = exhaustive ? 1 : samples; if (exhaustive) for (size_t k = 0; k < nin; k++) cases *= 5;
    for (long cs = 0; cs < cases; cs++) { std::vector<double> in(nin); long q = cs;
      for (size_t k = 0; k < nin; k++) { in[k] = exhaustive ? alpha[q % 5] : ((nextr() % 4 == 0) ? alpha[nextr() % 5] : (double)(nextr() % 7)); q /= 5; }
      // the constructors take top-cell counts per direction; from-vertices wants vertex counts
      try {
        if (periodic) { Bitmap_cubical_complex<Bitmap_cubical_complex_periodic_boundary_conditions_base<double>> cc(dims, in, P, (bool)top); check(cc, in, top, tag);
          if (top) { Bitmap_cubical_complex_periodic_boundary_conditions_base<double> bc(dims, P); check_by_hand(bc, in, tag + " (empty complex from sizes and directions, filled by hand)"); } }
        else { Bitmap_cubical_complex<Bitmap_cubical_complex_base<double>> cc(dims, in, (bool)top); check(cc, in, top, tag);
          // the same complex through the 4-argument (compatibility) constructor that generic code over both classes uses
          Bitmap_cubical_complex<Bitmap_cubical_complex_base<double>> c4(dims, in, std::vector<bool>(Dm, false), (bool)top); check(c4, in, top, tag + " (4-argument constructor)");
          if (top) { Bitmap_cubical_complex_base<double> bc(dims); check_by_hand(bc, in, tag + " (empty complex from sizes, filled by hand)"); } }
      } catch (std::exception const& e) { ++total_cases; fail(tag + ": exception " + e.what()); } } } }
int main(int argc, char** argv) {
  signal(SIGSEGV, on_crash); signal(SIGABRT, on_crash); signal(SIGBUS, on_crash); signal(SIGFPE, on_crash);
  unsigned long long rng = 0x9E3779B97F4A7C15ull * (unsigned long long)((argc > 1 ? atol(argv[1]) : 0) + 1); int tier = argc > 2 ? atoi(argv[2]) : 0; int samples = tier ? 400 : 60;
  std::vector<std::vector<unsigned>> shapes = {{1}, {2}, {5}, {1, 1}, {2, 1}, {1, 3}, {3, 2}, {2, 2, 2}, {3, 2, 1}, {1, 2, 3}, {2, 1, 1, 2}};
  for (auto& s : shapes) run_shape(s, {}, false, rng, samples);
  std::vector<std::pair<std::vector<unsigned>, std::vector<bool>>> per = {{{3}, {true}}, {{4}, {false}}, {{3, 3}, {true, true}}, {{3, 4}, {true, false}}, {{4, 3}, {false, true}}, {{3, 3}, {false, false}}, {{3, 2, 3}, {true, false, true}}, {{2, 3, 2}, {false, true, false}}, {{3, 3, 3}, {true, true, true}}, {{3, 3, 2}, {true, true, false}}};
  for (auto& pm : per) run_shape(pm.first, pm.second, true, rng, samples);
  // Betti numbers of the periodic grids over Z/2, Z/3 and Z/5 (signs matter from Z/3 on): a product of k circles and intervals has
  // Betti numbers binomial(k, i), whatever the (finite) values on the top cells
  for (auto& pm : per) { unsigned k = 0; for (bool b : pm.second) k += b; size_t nin = 1; for (auto sd : pm.first) nin *= sd;
    std::vector<double> vals(nin); for (auto& x : vals) { rng ^= rng << 13; rng ^= rng >> 7; rng ^= rng << 17; x = (double)(rng % 5); }
    for (int p : {2, 3, 5}) { ++total_cases; std::string tag = "periodic shape"; for (auto sd : pm.first) tag += " " + std::to_string(sd); tag += " mask "; for (bool b : pm.second) tag += b ? "p" : "f"; tag += " Betti numbers over Z/" + std::to_string(p);
      snprintf(g_cur, 256, "%s", tag.c_str());
      typedef Bitmap_cubical_complex<Bitmap_cubical_complex_periodic_boundary_conditions_base<double>> PCC;
      PCC cc(pm.first, vals, pm.second, true);
      Gudhi::persistent_cohomology::Persistent_cohomology<PCC, Gudhi::persistent_cohomology::Field_Zp> pc(cc, true);
      pc.init_coefficients(p); pc.compute_persistent_cohomology(0);
      std::vector<long> b(pm.first.size() + 1, 0); for (auto& pr : pc.get_persistent_pairs()) if (std::get<1>(pr) == cc.null_simplex()) b[cc.dimension(std::get<0>(pr))]++;
      std::string got, want; bool ok = true; long binom = 1;
      for (unsigned i = 0; i <= pm.first.size(); i++) { long w = i <= k ? binom : 0; if (b[i] != w) ok = false; got += std::to_string(b[i]) + " "; want += std::to_string(w) + " "; if (i < k) binom = binom * (k - i) / (i + 1); }
      if (!ok) fail(tag + ": " + got + "(expected " + want + ")"); } }
  printf("{\"class\":\"cubical values and order\",\"checked\":%ld,\"mismatches\":%ld,\"first\":[%s]}\n", total_cases, bad, firsts.c_str());
  return 0; }
