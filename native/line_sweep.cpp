// Exhaustive-native stand-in for C14 (line): compute_persistence_of_function_on_line from /repo on EVERY weak order
// of every length n <= N, with std::less and with std::greater as comparator, against two oracles: an elder-rule
// union-find on the path written here, and Bitmap_cubical_complex (1-D) + Persistent_cohomology.  Checks the
// multiset of non-zero-length pairs and that the unpaired class is reported exactly once, as (extremum, +inf).
// usage: line_sweep n shard nshards      prints one JSON line
#include <gudhi/Persistence_on_a_line.h>
#include <gudhi/Bitmap_cubical_complex.h>
#include <gudhi/Persistent_cohomology.h>
#include <algorithm>
#include <cstdio>
#include <cstdlib>
#include <functional>
#include <limits>
#include <numeric>
#include <string>
#include <vector>
#include <csignal>
#include <cmath>
#include <unistd.h>
static std::string num(double x) { if (std::isinf(x)) return x > 0 ? "\"inf\"" : "\"-inf\""; char b[40]; snprintf(b, 40, "%g", x); return b; }
// a crash (GUDHI_CHECK exception, segmentation fault) of the routine under test is reported with the input that caused it
static char g_cur[512]; static const char* g_hdr = "";
static void on_crash(int sig) { char b[900]; int n = snprintf(b, 900, "{%s\"weak_orders_total\":0,\"checked\":1,\"mismatches\":1,\"first\":[{\"input\":[%s],\"crash_signal\":%d}]}\n", g_hdr, g_cur, sig); if (write(1, b, n)) {} _exit(0); }
typedef std::vector<std::pair<double, double>> Dgm;
static const double INF = std::numeric_limits<double>::infinity();
// elder rule on a path, sub-level sets w.r.t. `lt` (vertex j enters at f[j], edge (j,j+1) at the later of the two)
template <class Lt> static Dgm elder(const std::vector<double>& f, Lt lt) {
  int n = f.size(); std::vector<int> ord(n); std::iota(ord.begin(), ord.end(), 0);
  std::stable_sort(ord.begin(), ord.end(), [&](int a, int b) { return lt(f[a], f[b]); });
  std::vector<int> par(n, -1), rep(n);  // rep = index of the oldest vertex of the component (stored at the root)
  std::function<int(int)> find = [&](int x) { return par[x] == x ? x : par[x] = find(par[x]); };
  std::vector<int> rank(n); for (int k = 0; k < n; k++) rank[ord[k]] = k;
  Dgm d;
  for (int k = 0; k < n; k++) { int j = ord[k]; par[j] = j; rep[j] = j;
    for (int nb : {j - 1, j + 1}) if (nb >= 0 && nb < n && par[nb] != -1) { int a = find(j), b = find(nb); if (a == b) continue;
        int young = rank[rep[a]] > rank[rep[b]] ? a : b, old = young == a ? b : a;
        if (f[rep[young]] != f[j]) d.emplace_back(f[rep[young]], f[j]);
        par[young] = old; } }
  d.emplace_back(f[ord[0]], INF); std::sort(d.begin(), d.end()); return d; }
static Dgm cubical(const std::vector<double>& f) {   // only for std::less
  typedef Gudhi::cubical_complex::Bitmap_cubical_complex_base<double> B; typedef Gudhi::cubical_complex::Bitmap_cubical_complex<B> CC;
  CC cc(std::vector<unsigned>{(unsigned)f.size()}, f, true);
  Gudhi::persistent_cohomology::Persistent_cohomology<CC, Gudhi::persistent_cohomology::Field_Zp> pc(cc, true);
  pc.init_coefficients(2); pc.compute_persistent_cohomology(0);
  Dgm d; for (auto& p : pc.get_persistent_pairs()) { double b = cc.filtration(std::get<0>(p)), e = cc.filtration(std::get<1>(p)); if (b != e) d.emplace_back(b, e); }
  std::sort(d.begin(), d.end()); return d; }
template <class Lt> static bool run(const std::vector<double>& f, Lt lt, Dgm& d) {
  int ninf = 0;
  Gudhi::persistent_cohomology::compute_persistence_of_function_on_line(f, [&](double b, double e) { if (e == INF) { ++ninf; d.emplace_back(b, e); } else if (b != e) d.emplace_back(b, e); }, lt);
  std::sort(d.begin(), d.end()); return ninf == 1; }
static std::string show(const Dgm& d) { std::string s = "["; for (auto& t : d) { char b[64]; s += "[" + num(t.first) + "," + num(t.second) + "],"; } if (s.size() > 1) s.pop_back(); return s + "]"; }
int main(int argc, char** argv) {
  if (argc < 4) return 2;
  static char hdr[64]; snprintf(hdr, 64, "\"length\":%d,", atoi(argv[1])); g_hdr = hdr;
  signal(SIGSEGV, on_crash); signal(SIGABRT, on_crash); signal(SIGFPE, on_crash); signal(SIGBUS, on_crash);
  unsigned n = atoi(argv[1]); long shard = atol(argv[2]), nshards = atol(argv[3]);
  long total = 0, done = 0, bad = 0; std::string firsts; std::vector<int> v(n, 0); std::vector<double> f(n);
  while (true) {
    int mx = -1; unsigned seen = 0; for (int x : v) { seen |= 1u << x; if (x > mx) mx = x; }
    if (seen == (1u << (mx + 1)) - 1) {
      if (total % nshards == shard) {
        for (unsigned k = 0; k < n; k++) f[k] = v[k];
        { int off = 0; for (unsigned k = 0; k < n && off < 480; k++) off += snprintf(g_cur + off, 500 - off, "%d%s", v[k], k + 1 < n ? "," : ""); }
        ++done;
        Dgm a, b; bool ok1 = run(f, std::less<double>(), a), ok2 = run(f, std::greater<double>(), b);
        Dgm oa = elder(f, std::less<double>()), ob = elder(f, std::greater<double>()); Dgm oc = cubical(f);
        // with std::greater the routine works on the reversed order; the unpaired class is the maximum and
        // intervals are (birth, death) with birth > death.  (The cubical oracle lists the essential class as (min, inf).)
        if (!ok1 || !ok2 || a != oa || b != ob || a != oc) {
          if (bad < 3) { firsts += std::string(firsts.empty() ? "" : ",") + "{\"input\":["; for (unsigned k = 0; k < n; k++) firsts += std::to_string(v[k]) + (k + 1 < n ? "," : ""); firsts += "],\"less\":" + show(a) + ",\"oracle_less\":" + show(oa) + ",\"cubical\":" + show(oc) + ",\"greater\":" + show(b) + ",\"oracle_greater\":" + show(ob) + ",\"one_infinite_call\":" + ((ok1 && ok2) ? "true" : "false") + "}"; }
          ++bad; }
      }
      ++total;
    }
    unsigned k = 0; while (k < n && ++v[k] == (int)n) { v[k] = 0; ++k; } if (k == n) break;
  }
  printf("{\"length\":%u,\"weak_orders_total\":%ld,\"checked\":%ld,\"mismatches\":%ld,\"first\":[%s]}\n", n, total, done, bad, firsts.c_str());
  return 0;
}
