// Exhaustive-native stand-in for C10 (multi-fields): the seven multi-field classes of /repo - three GMP-based and three
// small-characteristic variants of the matrix module plus the cohomology engine's Multi_field - on EVERY reduced
// operand (pair) of small prime ranges, against exact integer arithmetic and the property's definition of the
// partial inverse:  get_partial_inverse(x, Q) = (v, T), T = product of the primes q | Q with x != 0 mod q,
// v*x == 1 mod every prime of T, v == 0 mod every other prime of the range.  GMP is an external library, so these
// classes cannot be put under a CBMC contract; this is the labelled bounded stand-in.
// usage: multifield_sweep <class-index 0..6> <tier 0|1>   prints one JSON line
#include <cassert>
#include <iostream>
#include <csignal>
#include <cstdio>
#include <cstdlib>
#include <string>
#include <unistd.h>
#include <vector>
#include <gmpxx.h>
#include <gudhi/Fields/Multi_field.h>
#include <gudhi/Fields/Multi_field_shared.h>
#include <gudhi/Fields/Multi_field_operators.h>
#include <gudhi/Fields/Multi_field_small.h>
#include <gudhi/Fields/Multi_field_small_shared.h>
#include <gudhi/Fields/Multi_field_small_operators.h>
#include <gudhi/Persistent_cohomology/Multi_field.h>
using namespace Gudhi::persistence_fields;
typedef unsigned long UL; typedef std::pair<UL, UL> PR;
static UL ul(const mpz_class& z) { return z.get_ui(); }
static char g_cur[256]; static const char* g_cls = "";
static void on_crash(int sig) { char b[600]; int n = snprintf(b, 600, "{\"class\":\"%s\",\"checked\":1,\"mismatches\":1,\"first\":[{\"case\":\"%s\",\"crash_signal\":%d}]}\n", g_cls, g_cur, sig); if (write(1, b, n)) {} _exit(0); }
static long total = 0, bad = 0; static std::string firsts;
static void fail(const std::string& what) { if (bad < 3) firsts += std::string(firsts.empty() ? "" : ",") + "{\"case\":\"" + what + "\"}"; ++bad; }
static std::vector<int> primes_of(int lo, int hi) { std::vector<int> r; for (int p = std::max(lo, 2); p <= hi; p++) { bool pr = true; for (int d = 2; d * d <= p; d++) if (p % d == 0) pr = false; if (pr) r.push_back(p); } return r; }

// A = adapter with: UL P(); PR pinv(UL e, UL Q); UL add(UL,UL); UL sub(UL,UL); UL mul(UL,UL); UL conv(long); UL inv(UL)
template <class A> static void sweep(A& f, int lo, int hi, const char* name) {
  std::vector<int> pr = primes_of(lo, hi); UL P = 1; for (int p : pr) P *= p;
  char rg[64]; snprintf(rg, 64, "%s[%d,%d]", name, lo, hi);
  auto cur = [&](const char* op, long a, long b) { snprintf(g_cur, 256, "%s %s(%ld,%ld)", rg, op, a, b); };
  cur("characteristic", 0, 0); ++total; if (f.P() != P) fail(std::string(g_cur) + " product of the range is " + std::to_string(f.P()) + ", expected " + std::to_string(P));
  for (UL mask = 1; mask < (1ul << pr.size()); ++mask) { UL Q = 1; for (size_t k = 0; k < pr.size(); k++) if (mask >> k & 1) Q *= pr[k];
    for (UL e = 0; e < P; e++) { cur("get_partial_inverse", e, Q); ++total; PR r = f.pinv(e, Q);
      UL T = 1; for (size_t k = 0; k < pr.size(); k++) if ((mask >> k & 1) && e % pr[k] != 0) T *= pr[k];
      bool ok = r.second == T && r.first < P; for (int q : pr) { if (T % q == 0) { if ((e % q) * (r.first % q) % q != 1) ok = false; } else if (r.first % q != 0) ok = false; }
      if (!ok) fail(std::string(g_cur) + " = (" + std::to_string(r.first) + "," + std::to_string(r.second) + "), expected T=" + std::to_string(T)); } }
  for (UL a = 0; a < P; a++) { cur("get_inverse", a, 0); ++total; UL v = f.inv(a); bool ok = v < P; for (int q : pr) { if (a % q != 0) { if ((a % q) * (v % q) % q != 1) ok = false; } else if (v % q != 0) ok = false; } if (!ok) fail(std::string(g_cur) + " = " + std::to_string(v));
    for (UL b = 0; b < P; b++) { total += 3;
      cur("add", a, b); if (f.add(a, b) != (a + b) % P) fail(std::string(g_cur) + " = " + std::to_string(f.add(a, b)));
      cur("subtract", a, b); if (f.sub(a, b) != (a + P - b) % P) fail(std::string(g_cur) + " = " + std::to_string(f.sub(a, b)));
      cur("multiply", a, b); if (f.mul(a, b) != (a * b) % P) fail(std::string(g_cur) + " = " + std::to_string(f.mul(a, b))); } }
  for (long e = -3 * (long)P - 2; e <= 3 * (long)P + 2; e++) { cur("convert", e, 0); ++total; long m = e % (long)P; if (m < 0) m += P; if (f.conv(e) != (UL)m) fail(std::string(g_cur) + " = " + std::to_string(f.conv(e)) + ", residue is " + std::to_string(m)); }
  for (long e : {-2147483647L - 1, -2147483647L, 2147483647L}) { cur("convert", e, 0); ++total; long m = e % (long)P; if (m < 0) m += P; if (f.conv(e) != (UL)m) fail(std::string(g_cur) + " = " + std::to_string(f.conv(e)) + ", residue is " + std::to_string(m)); }
  // an integer (negative ones included) combined with / compared to an element: by residue, result reduced
  { long o[5]; if (f.mixed(0, 0, o)) for (long v = -2 * (long)P - 1; v <= 2 * (long)P + 1; v++) for (UL b = 0; b < P; b++) { long m = v % (long)P; if (m < 0) m += P; f.mixed(v, b, o); total += 4;
      cur("integer + element", v, b); if (o[0] != (long)((m + b) % P)) fail(std::string(g_cur) + " = " + std::to_string(o[0]));
      cur("integer - element", v, b); if (o[1] != (long)((m + P - b) % P)) fail(std::string(g_cur) + " = " + std::to_string(o[1]) + ", exact result reduced is " + std::to_string((m + P - b) % P));
      cur("integer * element", v, b); if (o[2] != (long)((m * b) % P)) fail(std::string(g_cur) + " = " + std::to_string(o[2]));
      cur("integer == element", v, b); if ((o[3] != 0) != ((UL)m == b) || (o[4] != 0) != ((UL)m == b)) fail(std::string(g_cur) + " is " + std::to_string(o[3]) + "/" + std::to_string(o[4]) + ", the residues are " + std::to_string(m) + " and " + std::to_string(b)); } }
  { long o; if (f.tm(0, 0, &o)) for (UL a = 0; a < P; a++) for (UL b = 0; b < P; b++) { f.tm(a, b, &o); ++total; cur("times_minus", a, b); if (o != (long)((P - (a * b) % P) % P)) fail(std::string(g_cur) + " = " + std::to_string(o) + ", -x*y reduced is " + std::to_string((P - (a * b) % P) % P)); } }
}
// prime ranges whose product lies in [2^31, 2^32) are accepted by the small-characteristic classes: spot checks of the inverses there
// (exhaustion is out of reach): x * inverse(x) is 1 modulo every prime not dividing x and 0 modulo the others; same for a partial inverse
template <class A> static void spot(A& f, int lo, int hi, const char* name) {
  std::vector<int> pr = primes_of(lo, hi); UL P = 1; for (int p : pr) P *= p;
  char rg[64]; snprintf(rg, 64, "%s[%d,%d]", name, lo, hi);
  ++total; snprintf(g_cur, 256, "%s characteristic", rg); if (f.P() != P) { fail(std::string(g_cur) + " is " + std::to_string(f.P()) + ", expected " + std::to_string(P)); return; }
  UL xs[] = {1, 2, 4, 31, 1000003, 2147483647ul, 2147483659ul, 3000000019ul, P - 1, P - 2, P / 2, (UL)pr[0], (UL)pr[0] * pr.back(), 0};
  UL Q2 = (UL)pr[0] * pr[1];
  for (UL a : xs) for (UL b : xs) { if (a >= P || b >= P) continue; total += 3;
    snprintf(g_cur, 256, "%s add(%lu,%lu)", rg, a, b); if (f.add(a, b) != (a + b) % P) fail(std::string(g_cur) + " = " + std::to_string(f.add(a, b)));
    snprintf(g_cur, 256, "%s subtract(%lu,%lu)", rg, a, b); if (f.sub(a, b) != (a + P - b) % P) fail(std::string(g_cur) + " = " + std::to_string(f.sub(a, b)));
    snprintf(g_cur, 256, "%s multiply(%lu,%lu)", rg, a, b); if (f.mul(a, b) != (UL)((unsigned __int128)a * b % P)) fail(std::string(g_cur) + " = " + std::to_string(f.mul(a, b))); }
  for (long e : {-2147483647L - 1, -2147483647L, -1L, 2147483647L, 4294967295L, -4294967296L, 9223372036854775807L}) { ++total; snprintf(g_cur, 256, "%s convert(%ld,0)", rg, e); long m = e % (long)P; if (m < 0) m += P; if (f.conv(e) != (UL)m) fail(std::string(g_cur) + " = " + std::to_string(f.conv(e)) + ", residue is " + std::to_string(m)); }
  { long o[5]; if (f.mixed(0, 0, o)) for (long v : {-2147483647L - 1, -2147483647L, -1L, -2L, 0L, 1L, 2147483647L}) for (UL b : xs) { if (b >= P) continue; long m = v % (long)P; if (m < 0) m += P; f.mixed(v, b, o); total += 4;
      snprintf(g_cur, 256, "%s integer + element(%ld,%lu)", rg, v, b); if ((UL)(unsigned)o[0] != (UL)((m + b) % P)) fail(std::string(g_cur) + " = " + std::to_string((unsigned)o[0]));
      snprintf(g_cur, 256, "%s integer - element(%ld,%lu)", rg, v, b); if ((UL)(unsigned)o[1] != (UL)((m + P - b) % P)) fail(std::string(g_cur) + " = " + std::to_string((unsigned)o[1]));
      snprintf(g_cur, 256, "%s integer * element(%ld,%lu)", rg, v, b); if ((UL)(unsigned)o[2] != (UL)((unsigned __int128)m * b % P)) fail(std::string(g_cur) + " = " + std::to_string((unsigned)o[2]));
      snprintf(g_cur, 256, "%s integer == element(%ld,%lu)", rg, v, b); if ((o[3] != 0) != ((UL)m == b) || (o[4] != 0) != ((UL)m == b)) fail(std::string(g_cur) + " is " + std::to_string(o[3]) + "/" + std::to_string(o[4])); } }
  for (UL x : xs) { if (x >= P) continue;
    ++total; snprintf(g_cur, 256, "%s get_inverse(%lu,0)", rg, x); UL v = f.inv(x); bool ok = v < P; for (int q : pr) { if (x % q != 0) { if ((x % q) * (v % q) % q != 1) ok = false; } else if (v % q != 0) ok = false; }
    if (!ok) fail(std::string(g_cur) + " = " + std::to_string(v) + ": not the inverse modulo every prime of the range not dividing the element");
    for (UL Q : {Q2, P / pr[0], P}) { ++total; snprintf(g_cur, 256, "%s get_partial_inverse(%lu,%lu)", rg, x, Q); PR r = f.pinv(x, Q); UL T = 1; for (int q : pr) if (Q % q == 0 && x % q != 0) T *= q;
      bool ok2 = r.second == T && r.first < P; for (int q : pr) { if (T % q == 0) { if ((x % q) * (r.first % q) % q != 1) ok2 = false; } else if (r.first % q != 0) ok2 = false; }
      if (!ok2) fail(std::string(g_cur) + " = (" + std::to_string(r.first) + "," + std::to_string(r.second) + "), expected T=" + std::to_string(T)); } } }
struct A_small_ops { Multi_field_operators_with_small_characteristics f; A_small_ops(int lo, int hi) : f(lo, hi) {}
  UL P() { return f.get_characteristic(); } PR pinv(UL e, UL Q) { auto r = f.get_partial_inverse((unsigned)e, (unsigned)Q); return {r.first, r.second}; }
  UL add(UL a, UL b) { return f.add(a, b); } UL sub(UL a, UL b) { return f.subtract(a, b); } UL mul(UL a, UL b) { return f.multiply(a, b); }
  UL conv(long e) { long P_ = P(); long m = e % P_; return f.get_value((unsigned)(m < 0 ? m + P_ : m)); }   /* the operator class only converts unsigned values */
  UL inv(UL a) { return f.get_inverse((unsigned)a); } bool mixed(long, UL, long*) { return false; } bool tm(UL, UL, long*) { return false; } };
struct A_small_shared { typedef Shared_multi_field_element_with_small_characteristics<> E; A_small_shared(int lo, int hi) { E::initialize(lo, hi); }
  UL P() { return E::get_characteristic(); } PR pinv(UL e, UL Q) { auto r = E((unsigned)e).get_partial_inverse((unsigned)Q); return {r.first.get_value(), r.second}; }
  UL add(UL a, UL b) { E x((unsigned)a); x += E((unsigned)b); return x.get_value(); } UL sub(UL a, UL b) { E x((unsigned)a); x -= E((unsigned)b); return x.get_value(); }
  UL mul(UL a, UL b) { E x((unsigned)a); x *= E((unsigned)b); return x.get_value(); } UL conv(long e) { return (e >= -2147483648L && e <= 2147483647L) ? E((int)e).get_value() : E((long)e).get_value(); } UL inv(UL a) { return E((unsigned)a).get_inverse().get_value(); } bool mixed(long v, UL b, long* o) { E f((unsigned)b); int iv = (int)v; o[0] = (long)(iv + f); o[1] = (long)(iv - f); o[2] = (long)(iv * f); o[3] = (iv == f); o[4] = (f == iv); return true; } bool tm(UL, UL, long*) { return false; } };
template <unsigned lo, unsigned hi> struct A_small_el { typedef Multi_field_element_with_small_characteristics<lo, hi> E;
  UL P() { return E::get_characteristic(); } PR pinv(UL e, UL Q) { auto r = E((unsigned)e).get_partial_inverse((unsigned)Q); return {r.first.get_value(), r.second}; }
  UL add(UL a, UL b) { E x((unsigned)a); x += E((unsigned)b); return x.get_value(); } UL sub(UL a, UL b) { E x((unsigned)a); x -= E((unsigned)b); return x.get_value(); }
  UL mul(UL a, UL b) { E x((unsigned)a); x *= E((unsigned)b); return x.get_value(); } UL conv(long e) { return (e >= -2147483648L && e <= 2147483647L) ? E((int)e).get_value() : E((long)e).get_value(); } UL inv(UL a) { return E((unsigned)a).get_inverse().get_value(); } bool mixed(long v, UL b, long* o) { E f((unsigned)b); int iv = (int)v; o[0] = (long)(iv + f); o[1] = (long)(iv - f); o[2] = (long)(iv * f); o[3] = (iv == f); o[4] = (f == iv); return true; } bool tm(UL, UL, long*) { return false; } };
struct A_gmp_ops { Multi_field_operators f; A_gmp_ops(int lo, int hi) : f(lo, hi) {}
  UL P() { return ul(f.get_characteristic()); } PR pinv(UL e, UL Q) { auto r = f.get_partial_inverse(mpz_class(e), mpz_class(Q)); return {ul(r.first), ul(r.second)}; }
  UL add(UL a, UL b) { return ul(f.add(mpz_class(a), mpz_class(b))); } UL sub(UL a, UL b) { return ul(f.subtract(mpz_class(a), mpz_class(b))); } UL mul(UL a, UL b) { return ul(f.multiply(mpz_class(a), mpz_class(b))); }
  UL conv(long e) { return ul(f.get_value(mpz_class(e))); } UL inv(UL a) { return ul(f.get_inverse(mpz_class(a))); } bool mixed(long, UL, long*) { return false; } bool tm(UL, UL, long*) { return false; } };
struct A_gmp_shared { typedef Shared_multi_field_element E; A_gmp_shared(int lo, int hi) { E::initialize(lo, hi); }
  UL P() { return ul(E::get_characteristic()); } PR pinv(UL e, UL Q) { auto r = E(mpz_class(e)).get_partial_inverse(mpz_class(Q)); return {ul(r.first.get_value()), ul(r.second)}; }
  UL add(UL a, UL b) { E x{mpz_class(a)}; x += E(mpz_class(b)); return ul(x.get_value()); } UL sub(UL a, UL b) { E x{mpz_class(a)}; x -= E(mpz_class(b)); return ul(x.get_value()); }
  UL mul(UL a, UL b) { E x{mpz_class(a)}; x *= E(mpz_class(b)); return ul(x.get_value()); } UL conv(long e) { return ul(E(mpz_class(e)).get_value()); } UL inv(UL a) { return ul(E(mpz_class(a)).get_inverse().get_value()); } bool mixed(long v, UL b, long* o) { E f{mpz_class(b)}; mpz_class z(v); o[0] = mpz_class(z + f).get_si(); o[1] = mpz_class(z - f).get_si(); o[2] = mpz_class(z * f).get_si(); o[3] = (z == f); o[4] = (f == z); return true; } bool tm(UL, UL, long*) { return false; } };
template <unsigned lo, unsigned hi> struct A_gmp_el { typedef Multi_field_element<lo, hi> E;
  UL P() { return ul(E::get_characteristic()); } PR pinv(UL e, UL Q) { auto r = E(mpz_class(e)).get_partial_inverse(mpz_class(Q)); return {ul(r.first.get_value()), ul(r.second)}; }
  UL add(UL a, UL b) { E x{mpz_class(a)}; x += E(mpz_class(b)); return ul(x.get_value()); } UL sub(UL a, UL b) { E x{mpz_class(a)}; x -= E(mpz_class(b)); return ul(x.get_value()); }
  UL mul(UL a, UL b) { E x{mpz_class(a)}; x *= E(mpz_class(b)); return ul(x.get_value()); } UL conv(long e) { return ul(E(mpz_class(e)).get_value()); } UL inv(UL a) { return ul(E(mpz_class(a)).get_inverse().get_value()); } bool mixed(long v, UL b, long* o) { E f{mpz_class(b)}; mpz_class z(v); o[0] = mpz_class(z + f).get_si(); o[1] = mpz_class(z - f).get_si(); o[2] = mpz_class(z * f).get_si(); o[3] = (z == f); o[4] = (f == z); return true; } bool tm(UL, UL, long*) { return false; } };
struct A_pcoh { Gudhi::persistent_cohomology::Multi_field f; A_pcoh(int lo, int hi) { f.init(lo, hi); }
  UL P() { return ul(f.characteristic()); } PR pinv(UL e, UL Q) { auto r = f.inverse(mpz_class(e), mpz_class(Q)); return {ul(r.first), ul(r.second)}; }
  UL add(UL a, UL b) { return ul(f.plus_equal(mpz_class(a), mpz_class(b))); } UL sub(UL a, UL b) { return ul(f.plus_times_equal(mpz_class(a), mpz_class(b), mpz_class(P() - 1))); }
  UL mul(UL a, UL b) { return ul(f.times(mpz_class(a), mpz_class(b))); } UL conv(long e) { long P_ = P(); long m = e % P_; return m < 0 ? m + P_ : m; }
  UL inv(UL a) { return ul(f.inverse(mpz_class(a), f.characteristic()).first); } bool mixed(long, UL, long*) { return false; } bool tm(UL a, UL b, long* o) { *o = mpz_class(f.times_minus(mpz_class(a), mpz_class(b))).get_si(); return true; } };
#define TPL(A, name) do { { A<2, 3> a; sweep(a, 2, 3, name); } { A<2, 5> a; sweep(a, 2, 5, name); } { A<3, 7> a; sweep(a, 3, 7, name); } { A<5, 7> a; sweep(a, 5, 7, name); } { A<7, 7> a; sweep(a, 7, 7, name); } \
  if (tier) { { A<2, 7> a; sweep(a, 2, 7, name); } { A<5, 13> a; sweep(a, 5, 13, name); } { A<11, 17> a; sweep(a, 11, 17, name); } } } while (0)
#define DYN(A, name) do { int R[][2] = {{2, 3}, {2, 5}, {3, 7}, {5, 7}, {7, 7}, {2, 7}, {5, 13}, {11, 17}}; for (int k = 0; k < (tier ? 8 : 5); k++) { A a(R[k][0], R[k][1]); sweep(a, R[k][0], R[k][1], name); } } while (0)
int main(int argc, char** argv) {
  if (argc < 3) return 2; int cls = atoi(argv[1]), tier = atoi(argv[2]);
  const char* names[] = {"Multi_field_operators_with_small_characteristics", "Shared_multi_field_element_with_small_characteristics", "Multi_field_element_with_small_characteristics", "Multi_field_operators", "Shared_multi_field_element", "Multi_field_element", "persistent_cohomology::Multi_field"};
  g_cls = names[cls]; signal(SIGSEGV, on_crash); signal(SIGABRT, on_crash); signal(SIGFPE, on_crash);
  if (cls == 0) { for (auto r : {std::pair<int,int>{3, 29}, {13, 37}}) { A_small_ops a(r.first, r.second); spot(a, r.first, r.second, names[0]); } }
  if (cls == 1) { for (auto r : {std::pair<int,int>{3, 29}, {13, 37}}) { A_small_shared a(r.first, r.second); spot(a, r.first, r.second, names[1]); } }
  if (cls == 2) { { A_small_el<3, 29> a; spot(a, 3, 29, names[2]); } { A_small_el<13, 37> a; spot(a, 13, 37, names[2]); } }
  switch (cls) { case 0: DYN(A_small_ops, names[0]); break; case 1: DYN(A_small_shared, names[1]); break; case 2: TPL(A_small_el, names[2]); break;
    case 3: DYN(A_gmp_ops, names[3]); break; case 4: DYN(A_gmp_shared, names[4]); break; case 5: TPL(A_gmp_el, names[5]); break; case 6: DYN(A_pcoh, names[6]); break; }
  printf("{\"class\":\"%s\",\"checked\":%ld,\"mismatches\":%ld,\"first\":[%s]}\n", names[cls], total, bad, firsts.c_str());
  return 0;
}
