// Exhaustive-native stand-in for C14 (rectangle): the real template from /repo on EVERY weak order of the cells of
// an r x c grid (values 0..k-1 with every value used: by lemma L5 this realises every behaviour of a routine that
// only compares its values), both output modes, against Bitmap_cubical_complex + Persistent_cohomology over Z_2
// (the oracle the property names).  Zero-length intervals are dropped on both sides.
// usage: rect_sweep r c shard nshards [sample_every]   |   rect_sweep r c random seed count     prints one JSON line; exit 0 always (the driver decides)
#include <gudhi/Persistence_on_rectangle.h>
#include <gudhi/Bitmap_cubical_complex.h>
#include <gudhi/Persistent_cohomology.h>
#include <algorithm>
#include <cstdio>
#include <cstdlib>
#include <limits>
#include <string>
#include <tuple>
#include <vector>
#include <csignal>
#include <cmath>
#include <unistd.h>
static std::string num(double x) { if (std::isinf(x)) return x > 0 ? "\"inf\"" : "\"-inf\""; char b[40]; snprintf(b, 40, "%g", x); return b; }
// a crash (GUDHI_CHECK exception, segmentation fault) of the routine under test is reported with the input that caused it
static char g_cur[512]; static const char* g_hdr = "";
static void on_crash(int sig) { char b[900]; int n = snprintf(b, 900, "{%s\"weak_orders_total\":0,\"checked\":1,\"mismatches\":1,\"first\":[{\"input\":[%s],\"crash_signal\":%d}]}\n", g_hdr, g_cur, sig); if (write(1, b, n)) {} _exit(0); }
typedef std::vector<std::tuple<int, double, double>> Dgm;
static Dgm oracle(const std::vector<double>& in, unsigned r, unsigned c) {
  typedef Gudhi::cubical_complex::Bitmap_cubical_complex_base<double> B;
  typedef Gudhi::cubical_complex::Bitmap_cubical_complex<B> CC;
  CC cc(std::vector<unsigned>{c, r}, in, true);  // Bitmap is Fortran order: first size = fastest index = columns
  Gudhi::persistent_cohomology::Persistent_cohomology<CC, Gudhi::persistent_cohomology::Field_Zp> pc(cc, true);
  pc.init_coefficients(2);
  pc.compute_persistent_cohomology(0);
  Dgm d;
  for (auto& p : pc.get_persistent_pairs()) {
    double b = cc.filtration(std::get<0>(p)), e = cc.filtration(std::get<1>(p));
    int dim = cc.dimension(std::get<0>(p));
    if (b != e) d.emplace_back(dim, b, e);
  }
  std::sort(d.begin(), d.end());
  return d;
}
static Dgm fast_values(const std::vector<double>& in, unsigned r, unsigned c) {
  Dgm d;
  auto o0 = [&](double b, double e) { if (b != e) d.emplace_back(0, b, e); };
  auto o1 = [&](double b, double e) { if (b != e) d.emplace_back(1, b, e); };
  double m = Gudhi::cubical_complex::persistence_on_rectangle_from_top_cells(in.data(), (std::size_t)r, (std::size_t)c, o0, o1);
  d.emplace_back(0, m, std::numeric_limits<double>::infinity());
  std::sort(d.begin(), d.end());
  return d;
}
static bool fast_indices(const std::vector<double>& in, unsigned r, unsigned c, Dgm& d) {
  bool in_range = true; std::size_t n = in.size();
  auto o0 = [&](std::size_t b, std::size_t e) { if (b >= n || e >= n) { in_range = false; return; } if (in[b] != in[e]) d.emplace_back(0, in[b], in[e]); };
  auto o1 = [&](std::size_t b, std::size_t e) { if (b >= n || e >= n) { in_range = false; return; } if (in[b] != in[e]) d.emplace_back(1, in[b], in[e]); };
  std::size_t m = Gudhi::cubical_complex::persistence_on_rectangle_from_top_cells<true>(in.data(), (std::size_t)r, (std::size_t)c, o0, o1);
  if (m >= n) return false;
  d.emplace_back(0, in[m], std::numeric_limits<double>::infinity());
  std::sort(d.begin(), d.end());
  return in_range;
}
static std::string show(const Dgm& d) { std::string s = "["; for (auto& t : d) { char b[96]; s += "[" + std::to_string(std::get<0>(t)) + "," + num(std::get<1>(t)) + "," + num(std::get<2>(t)) + "],"; } if (s.size() > 1) s.pop_back(); return s + "]"; }
int main(int argc, char** argv) {
  if (argc < 5) return 2;
  static char hdr[64]; snprintf(hdr, 64, "\"rows\":%d,\"cols\":%d,", atoi(argv[1]), atoi(argv[2])); g_hdr = hdr;
  signal(SIGSEGV, on_crash); signal(SIGABRT, on_crash); signal(SIGFPE, on_crash); signal(SIGBUS, on_crash);
  unsigned r = atoi(argv[1]), c = atoi(argv[2]); long shard = 0, nshards = 1, every = 1;
  if (std::string(argv[3]) != "random") { shard = atol(argv[3]); nshards = atol(argv[4]); every = argc > 5 ? atol(argv[5]) : 1; }
  unsigned n = r * c; long total = 0, done = 0, bad = 0; std::string firsts;
  std::vector<int> v(n, 0); std::vector<double> in(n);
  bool random_mode = std::string(argv[3]) == "random";
  unsigned long long rng = random_mode ? 0x9E3779B97F4A7C15ull * (unsigned long long)(atol(argv[4]) + 1) : 0;
  long count = random_mode ? atol(argv[5]) : 0;
  auto next = [&]() { rng ^= rng << 13; rng ^= rng >> 7; rng ^= rng << 17; return rng; };
  while (true) {
    if (random_mode) {   // random weak order: random number of levels k, random surjection made by relabelling
      if (done >= count) break;
      unsigned k = 1 + next() % n; std::vector<int> lab(n); for (unsigned j = 0; j < n; j++) lab[j] = next() % k;
      std::vector<int> used(n, -1); int nx = 0; std::vector<int> sorted(lab); std::sort(sorted.begin(), sorted.end());
      for (int x : sorted) if (used[x] < 0) used[x] = nx++;
      for (unsigned j = 0; j < n; j++) v[j] = used[lab[j]];
      total = done * nshards + shard;   // every sample is processed by this shard
    }
    int mx = -1; unsigned seen = 0; for (int x : v) { seen |= 1u << x; if (x > mx) mx = x; }
    if (seen == (mx >= 31 ? ~0u : (1u << (mx + 1)) - 1)) {
      if (total % nshards == shard && (total / nshards) % every == 0) {
        for (unsigned k = 0; k < n; k++) in[k] = v[k];
        { int off = 0; for (unsigned k = 0; k < n && off < 480; k++) off += snprintf(g_cur + off, 500 - off, "%d%s", v[k], k + 1 < n ? "," : ""); }
        ++done;
        Dgm o = oracle(in, r, c), a = fast_values(in, r, c), b; bool okidx = fast_indices(in, r, c, b);
        if (a != o || !okidx || b != o) {
          if (bad < 3) { firsts += std::string(firsts.empty() ? "" : ",") + "{\"input\":["; for (unsigned k = 0; k < n; k++) firsts += std::to_string(v[k]) + (k + 1 < n ? "," : ""); firsts += "],\"values_mode\":" + show(a) + ",\"index_mode\":" + show(b) + ",\"index_in_range\":" + (okidx ? "true" : "false") + ",\"oracle\":" + show(o) + "}"; }
          ++bad;
        }
      }
      ++total;
    }
    if (random_mode) continue;
    unsigned k = 0; while (k < n && ++v[k] == (int)n) { v[k] = 0; ++k; } if (k == n) break;
  }
  printf("{\"rows\":%u,\"cols\":%u,\"weak_orders_total\":%ld,\"checked\":%ld,\"mismatches\":%ld,\"first\":[%s]}\n", r, c, total, done, bad, firsts.c_str());
  return 0;
}
