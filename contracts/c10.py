"""C10 - coefficient fields: contract sidecar (what is extracted, with which bindings, and the CBMC contracts).

Top-level postconditions are written from the property statement ("converting any machine integer, negative ones
included, yields its residue; every ... operation on reduced operands equals the exact result reduced; x times its
inverse is 1; a characteristic that is not a prime greater than 1 is refused").  Helper preconditions come from
the call sites.  Every header's own copy of a duplicated body is extracted and checked separately.
"""
from vp.extract import Fn
from vp.driver import Unit, Run

F = "src/Persistence_matrix/include/gudhi/Fields/"
PC = "src/Persistent_cohomology/include/gudhi/Persistent_cohomology/"

TD_U = {"Element": "unsigned int", "Characteristic": "unsigned int", "Unsigned_integer_type": "unsigned int"}

# ------------------------------------------------------------------------------------------------ contract texts
# P is the C expression naming the characteristic in the extracted text of that header.

def c_get_value_u(P):
    return f"""
__CPROVER_requires({P} >= 2)
__CPROVER_ensures(__CPROVER_return_value == RES_U(e, {P}))
__CPROVER_ensures(__CPROVER_return_value < {P})
__CPROVER_assigns()
"""

# residue of a signed integer, one clause per region (DESIGN section 2 item 10).  `M` = e % (T)p is the
# truncating remainder the language gives for signed operands; the mathematical residue is M or M + p.
def c_get_value_s(P, T, TMAX):
    M = f"(e % ({T}){P})"
    return f"""
__CPROVER_requires({P} >= 2 && {P} <= {TMAX})
__CPROVER_ensures(__CPROVER_return_value < {P})
__CPROVER_ensures(!(e >= 0 && e < ({T}){P}) || __CPROVER_return_value == (unsigned int)e)
__CPROVER_ensures(!(e < 0 && e >= -({T}){P}) || __CPROVER_return_value == (e == -({T}){P} ? 0u : (unsigned int)(e + ({T}){P})))
__CPROVER_ensures(!(e < -({T}){P}) || __CPROVER_return_value == ({M} < 0 ? (unsigned int)({M} + ({T}){P}) : (unsigned int){M}))
__CPROVER_ensures(!(e >= ({T}){P}) || __CPROVER_return_value == (unsigned int){M})
__CPROVER_assigns()
"""

def c_add(P, a="e1", b="e2"):
    return f"""
__CPROVER_requires({P} >= 2 && {a} < {P} && {b} < {P})
__CPROVER_ensures(__CPROVER_return_value == ADDMOD({a}, {b}, {P}))
__CPROVER_ensures(__CPROVER_return_value < {P})
__CPROVER_assigns()
"""

def c_sub(P, a="e1", b="e2"):
    return f"""
__CPROVER_requires({P} >= 2 && {a} < {P} && {b} < {P})
__CPROVER_ensures(__CPROVER_return_value == SUBMOD({a}, {b}, {P}))
__CPROVER_ensures(__CPROVER_return_value < {P})
__CPROVER_assigns()
"""

# _multiply: scalar loop contract (range + termination) for every 32-bit characteristic
def c_mul_range(P, a="e1", b="e2"):
    return f"""
__CPROVER_requires({P} >= 2 && {a} < {P} && {b} < {P})
__CPROVER_ensures(__CPROVER_return_value < {P})
__CPROVER_assigns()
"""

def l_mul(P, acc="e1", b="e2"):
    return f"""
__CPROVER_assigns(a, {acc}, {b}, temp_b)
__CPROVER_loop_invariant({acc} < {P} && {b} < {P})
__CPROVER_decreases(a)
"""


# ------------------------------------------------------------------------------------------------ Zp_field_operators.h
OPS = F + "Zp_field_operators.h"
OPS_G = "unsigned int characteristic_;\n"

def H(decls, call):
    """harness: nondet inputs named in_*, call, reach marker"""
    return "int main(void) {\n" + decls + "\n  " + call + "\n  __CPROVER_assert(0, \"VP_REACH\");\n  return 0;\n}\n"

def fn_ops_get_value_u():
    return Fn(OPS, r"Element get_value\(Element e\) const", "get_value_u", c_get_value_u("characteristic_"),
              canary=(r"e < characteristic_ \? e : e % characteristic_", "e <= characteristic_ ? e : e % characteristic_"))

def fn_ops_get_value_s(T, TMAX):
    return Fn(OPS, r"template <typename Signed_integer_type, class = isSignedInteger<Signed_integer_type> >\s*Element get_value\(Signed_integer_type e\) const",
              "get_value_s", c_get_value_s("characteristic_", T, TMAX),
              canary=(r"e = e % \(\(Signed_integer_type\)\(characteristic_\)\)", "e = e % characteristic_"))

def fn_ops_add_():
    return Fn(OPS, r"static Element _add\(Element e1, Element e2, Characteristic characteristic\)", "_add",
              c_add("characteristic"), canary=(r"e1 >= characteristic", "e1 > characteristic"))

def fn_ops_sub_():
    return Fn(OPS, r"static Element _subtract\(Element e1, Element e2, Characteristic characteristic\)", "_subtract",
              c_sub("characteristic"), canary=(r"e1 < e2", "e1 <= e2"))

def fn_ops_mul_(contract=None, loops=True):
    return Fn(OPS, r"static Element _multiply\(Element e1, Element e2, Characteristic characteristic\)", "_multiply",
              contract or c_mul_range("characteristic"), loops=({0: l_mul("characteristic")} if loops else None),
              canary=(r"e2 >= characteristic - e1", "e2 > characteristic - e1"))


def units(tier):
    U = []
    U.append(Unit("zp_ops.get_value_u", "C10", [fn_ops_get_value_u()], enforce="get_value_u", typedefs=TD_U,
                  globals_=OPS_G, inputs=["in_e", "characteristic_"],
                  harness=H("  unsigned int in_e; characteristic_ = nondet_uint();", "get_value_u(in_e);"),
                  runs=[Run(only=["get_value_u.postcondition.1"], backend="z3", timeout=60, label="eq"),
                        Run(exclude=["get_value_u.postcondition.1"], backend="sat", timeout=60, label="rest")],
                  desc="Zp_field_operators::get_value(Element): residue of an unsigned integer"))
    U.append(Unit("zp_ops._add", "C10", [fn_ops_add_()], enforce="_add", typedefs=TD_U, globals_=OPS_G,
                  inputs=["in_e1", "in_e2", "in_p"],
                  harness=H("  unsigned int in_e1, in_e2, in_p;", "_add(in_e1, in_e2, in_p);"),
                  desc="Zp_field_operators::_add: exact sum reduced, reduced operands, every 32-bit characteristic"))
    U.append(Unit("zp_ops._subtract", "C10", [fn_ops_sub_()], enforce="_subtract", typedefs=TD_U, globals_=OPS_G,
                  inputs=["in_e1", "in_e2", "in_p"],
                  harness=H("  unsigned int in_e1, in_e2, in_p;", "_subtract(in_e1, in_e2, in_p);")))
    U.append(Unit("zp_ops._multiply.range", "C10", [fn_ops_mul_()], enforce="_multiply", typedefs=TD_U, globals_=OPS_G,
                  loop_contracts=True, inputs=["in_e1", "in_e2", "in_p"],
                  harness=H("  unsigned int in_e1, in_e2, in_p;", "_multiply(in_e1, in_e2, in_p);")))
    return U
