"""C10 - coefficient fields: contract sidecar (what is extracted, with which bindings, and the CBMC contracts).

Top-level postconditions are written from the property statement ("converting any machine integer, negative ones
included, yields its residue; every ... operation on reduced operands equals the exact result reduced; comparisons
are by residue; x times its inverse is 1; a characteristic that is not a prime greater than 1 is refused").  Helper
preconditions come from the call sites.  Every header's own copy of a duplicated body is extracted and checked
separately: a change to one copy must be caught in that copy.
"""
import os
import subprocess

from vp.extract import Fn, REPO
from vp.driver import Unit, Run, VERIF, sh

LEVEL = "proof"
F = "src/Persistence_matrix/include/gudhi/Fields/"
PC = "src/Persistent_cohomology/include/gudhi/Persistent_cohomology/"
OPS = F + "Zp_field_operators.h"

TD_U = {"Element": "unsigned int", "Characteristic": "unsigned int", "Unsigned_integer_type": "unsigned int"}
IS_SIGNED = r"std::is_signed_v<\w+>"


def H(decls, call, post="", prime=None):
    """harness: nondet inputs named in_*, the call, optional extra assertions, reach marker"""
    if prime is None:
        import re as _re
        m = _re.search(r"\b(characteristic_|characteristic|productOfAllCharacteristics_|Prime) = nondet_uint\(\)", decls)
        prime = m.group(1) if m else ("in_p" if "in_p" in decls else None)
    if prime:
        decls += f"\n#ifdef VP_REPLAYABLE\n  __CPROVER_assume(VP_LISTED_PRIME({prime}));\n#endif"
    return ("int main(void) {\n" + decls + "\n  " + call + "\n" + post +
            "\n  __CPROVER_assert(0, \"VP_REACH\");\n  return 0;\n}\n")


# ------------------------------------------------------------------------------------------------ contract texts
# P is the C expression naming the characteristic in the extracted text of that header.

def c_get_value_u(P):
    return f"""
__CPROVER_requires({P} >= 2)
__CPROVER_ensures(__CPROVER_return_value == RES_U(e, {P}))
__CPROVER_ensures(__CPROVER_return_value < {P})
__CPROVER_assigns()
"""


# residue of a signed integer, one clause per region (DESIGN section 2 item 10).  M = e % (T)p is the truncating
# remainder the language defines for signed operands; the mathematical residue is M, or M + p when M < 0.
def c_get_value_s(P, T, TMAX):
    M = f"(e % ({T}){P})"
    return f"""
__CPROVER_requires({P} >= 2 && {P} <= {TMAX})
__CPROVER_ensures(__CPROVER_return_value < {P})
__CPROVER_ensures(!(e >= 0 && e < ({T}){P}) || __CPROVER_return_value == (unsigned int)e)
__CPROVER_ensures(!(e < 0 && e >= -({T}){P}) || __CPROVER_return_value == (e == -({T}){P} ? 0u : (unsigned int)(e + ({T}){P})))
__CPROVER_ensures(!(e < -({T}){P}) || __CPROVER_return_value == ({M} < 0 ? (unsigned int)({M} + ({T}){P}) : (unsigned int){M}))
__CPROVER_ensures(!(e >= ({T}){P}) || __CPROVER_return_value == (unsigned int){M})
__CPROVER_assigns()
"""


def c_add(P, a, b):
    return f"""
__CPROVER_requires({P} >= 2 && {a} < {P} && {b} < {P})
__CPROVER_ensures(__CPROVER_return_value == ADDMOD({a}, {b}, {P}))
__CPROVER_ensures(__CPROVER_return_value < {P})
__CPROVER_assigns()
"""


def c_sub(P, a, b):
    return f"""
__CPROVER_requires({P} >= 2 && {a} < {P} && {b} < {P})
__CPROVER_ensures(__CPROVER_return_value == SUBMOD({a}, {b}, {P}))
__CPROVER_ensures(__CPROVER_return_value < {P})
__CPROVER_assigns()
"""


def c_mul_range(P, a, b):
    return f"""
__CPROVER_requires({P} >= 2 && {a} < {P} && {b} < {P})
__CPROVER_ensures(__CPROVER_return_value < {P})
__CPROVER_assigns()
"""


# bounded: the exact product reduced, all p <= 31 (non-linear arithmetic: DESIGN section 2 item 4)
def c_mul_exact_b(P, a, b):
    return f"""
__CPROVER_requires({P} >= 2 && {P} <= 31 && {a} < {P} && {b} < {P})
__CPROVER_ensures(__CPROVER_return_value == (unsigned int)(((uint64_t){a} * (uint64_t){b}) % (uint64_t){P}))
__CPROVER_assigns()
"""


# replacement-only contract of _multiply with a ghost record of the call (used by the public wrappers)
def c_mul_ghost(P, a, b):
    return f"""
__CPROVER_requires({P} >= 2 && {a} < {P} && {b} < {P})
__CPROVER_ensures(__CPROVER_return_value < {P})
__CPROVER_ensures(g_mul_a == {a} && g_mul_b == {b} && g_mul_r == __CPROVER_return_value && g_mul_n == __CPROVER_old(g_mul_n) + 1)
__CPROVER_assigns(g_mul_a, g_mul_b, g_mul_r, g_mul_n)
"""


GHOST_MUL = "unsigned int g_mul_a, g_mul_b, g_mul_r, g_mul_n;\n"


def l_mul(P, cnt, acc, b):
    # no __CPROVER_assigns: DFCC infers the loop's write set, so a renamed temporary does not break the proof
    return f"""
__CPROVER_loop_invariant({acc} < {P} && {b} < {P})
__CPROVER_decreases({cnt})
"""


# one iteration of the Russian-peasant loop as a function: the exact step (linear; lemma L1 iterates it)
def c_mul_step(P, cnt, acc, b):
    return f"""
__CPROVER_requires({P} >= 2 && *{acc} < {P} && *{b} < {P})
__CPROVER_ensures(*{cnt} == (__CPROVER_old(*{cnt}) >> 1))
__CPROVER_ensures(*{b} == ADDMOD(__CPROVER_old(*{b}), __CPROVER_old(*{b}), {P}))
__CPROVER_ensures(*{acc} == ((__CPROVER_old(*{cnt}) & 1) ? ADDMOD(__CPROVER_old(*{acc}), __CPROVER_old(*{b}), {P}) : __CPROVER_old(*{acc})))
__CPROVER_assigns(*{cnt}, *{acc}, *{b}, *temp_b)
"""


# ------------------------------------------------------------------------------------------------ header profiles
# residue of a signed integer, magnitude form (small multi-field element classes after fix F11): valid for EVERY 32-bit product,
# also those that do not fit the signed argument type.  A = magnitude of a negative e in the unsigned counterpart U of T.
def c_get_value_mag(P, T):
    U = "unsigned " + T
    A = f"(({U})0 - ({U})e)"
    return f"""
__CPROVER_requires({P} >= 2)
__CPROVER_ensures(__CPROVER_return_value < {P})
__CPROVER_ensures(!(e >= 0 && ({U})e < {P}) || __CPROVER_return_value == (unsigned int)e)
__CPROVER_ensures(!(e >= 0 && ({U})e >= {P}) || __CPROVER_return_value == (unsigned int)(({U})e % {P}))
__CPROVER_ensures(!(e < 0 && {A} < {P}) || __CPROVER_return_value == {P} - (unsigned int){A})
__CPROVER_ensures(!(e < 0 && {A} >= {P}) || __CPROVER_return_value == (({A} % {P}) == 0 ? 0u : {P} - (unsigned int)({A} % {P})))
__CPROVER_assigns()
"""


class Prof:
    """one header's naming of the duplicated Z_p-style leaf functions"""

    def __init__(self, key, path, P, add_sig, sub_sig, mul_sig, a, b, mul_names, gvu_sig=None, gvs_sig=None,
                 globals_="", scopes=(), mul_subs=(), within=None, Pleaf=None):
        self.key, self.path, self.P = key, path, P
        self.Pleaf = Pleaf or P          # name of the characteristic inside _add/_subtract/_multiply
        self.add_sig, self.sub_sig, self.mul_sig = add_sig, sub_sig, mul_sig
        self.a, self.b = a, b            # parameter names of _add/_subtract
        self.mul_names = mul_names       # (param a, param b, loop counter, accumulator, doubled operand)
        self.gvu_sig, self.gvs_sig = gvu_sig, gvs_sig
        self.globals_, self.scopes, self.mul_subs, self.within = globals_, list(scopes), list(mul_subs), within


MFSO = "Multi_field_operators_with_small_characteristics"
SWAP_SUB = (r"std::swap\((\w+), (\w+)\);", r"VP_SWAP_U(\1, \2);")

PROFS = [
    Prof("zp_ops", F + "Zp_field_operators.h", "characteristic_",
         r"static Element _add\(Element e1, Element e2, Characteristic characteristic\)",
         r"static Element _subtract\(Element e1, Element e2, Characteristic characteristic\)",
         r"static Element _multiply\(Element e1, Element e2, Characteristic characteristic\)",
         "e1", "e2", ("e1", "e2", "a", "e1", "e2"),
         gvu_sig=r"Element get_value\(Element e\) const",
         gvs_sig=r"template <typename Signed_integer_type, class = isSignedInteger<Signed_integer_type> >\s*Element get_value\(Signed_integer_type e\) const",
         globals_="unsigned int characteristic_;\n", Pleaf="characteristic"),
    Prof("zp_el", F + "Zp_field.h", "characteristic",
         r"static Element _add\(Element element, Element v\)",
         r"static Element _subtract\(Element element, Element v\)",
         r"static Element _multiply\(Element element, Element v\)",
         "element", "v", ("element", "v", "a", "element", "v"),
         gvs_sig=r"static constexpr Element _get_value\(Integer_type e\)",
         globals_="unsigned int characteristic;\n"),
    Prof("zp_sh", F + "Zp_field_shared.h", "characteristic_",
         r"static Element _add\(Element element, Element v\)",
         r"static Element _subtract\(Element element, Element v\)",
         r"static Element _multiply\(Element element, Element v\)",
         "element", "v", ("element", "v", "a", "element", "v"),
         gvs_sig=r"static constexpr Element _get_value\(Integer_type e\)",
         globals_="unsigned int characteristic_;\n"),
    Prof("mfs_ops", F + "Multi_field_small_operators.h", "productOfAllCharacteristics_",
         MFSO + r"::_add\(Element element, Element v,\s*Characteristic characteristic\)",
         MFSO + r"::_subtract\(Element element, Element v,\s*Characteristic characteristic\)",
         MFSO + r"::_multiply\(Element a, Element b,\s*Characteristic characteristic\)",
         "element", "v", ("a", "b", "a", "res", "b"),
         gvu_sig=r"Element get_value\(Element e\) const",
         globals_="unsigned int productOfAllCharacteristics_;\n", scopes=[MFSO], mul_subs=[SWAP_SUB],
         Pleaf="characteristic"),
    Prof("mfs_el", F + "Multi_field_small.h", "productOfAllCharacteristics_",
         r"static constexpr Element _add\(Element element, Element v\)",
         r"static constexpr Element _subtract\(Element element, Element v\)",
         r"static constexpr Element _multiply\(Element a, Element b\)",
         "element", "v", ("a", "b", "a", "res", "b"),
         gvs_sig=r"static constexpr Element _get_value\(Integer_type e\)",
         globals_="unsigned int productOfAllCharacteristics_;\n", mul_subs=[SWAP_SUB]),
    Prof("mfs_sh", F + "Multi_field_small_shared.h", "productOfAllCharacteristics_",
         r"static Element _add\(Element element, Element v\)",
         r"static Element _subtract\(Element element, Element v\)",
         r"static Element _multiply\(Element a, Element b\)",
         "element", "v", ("a", "b", "a", "res", "b"),
         gvs_sig=r"static constexpr Element _get_value\(Integer_type e\)",
         globals_="unsigned int productOfAllCharacteristics_;\n", mul_subs=[SWAP_SUB]),
]
PROF = {p.key: p for p in PROFS}


def leaf_sig_fix(pr):
    """out-of-class definitions: `inline Class::Element Class::_add(...)` - the scope rule strips `Class::`"""
    return dict(scopes=pr.scopes)


# (the comparison operators are left open: a name must not be derived through a token a change is likely to touch)
MUL_DERIVE = {"cnt": r"while \((\w+) (?:!=|>) 0\)", "dbl": r"if \((\w+) (?:>=|<=|==|!=|>|<) \w+ - \w+\) \w+ -= \w+;\s*\w+ \+= \w+;\s*\}",
              "acc": r"if \(\w+ (?:>=|<=|==|!=|>|<) \w+ - (\w+)\) \1 -= \w+;\s*\1 \+= \w+;\s*\}"}


def fn_add(pr, contract=None):
    return Fn(pr.path, pr.add_sig, "_add", contract or c_add(pr.Pleaf, "@1@", "@2@"),
              canary=(rf"@1@ >= {pr.Pleaf}\)", f"@1@ > {pr.Pleaf})"), **leaf_sig_fix(pr),
              sig_subs=([(r"^.*?_add\(", "Element _add(")] if pr.scopes else []))


def fn_sub(pr, contract=None):
    return Fn(pr.path, pr.sub_sig, "_subtract", contract or c_sub(pr.Pleaf, "@1@", "@2@"),
              canary=(r"@1@ < @2@\)", "@1@ <= @2@)"), **leaf_sig_fix(pr),
              sig_subs=([(r"^.*?_subtract\(", "Element _subtract(")] if pr.scopes else []))


def fn_mul(pr, contract=None, loops=True, canary=True):
    return Fn(pr.path, pr.mul_sig, "_multiply", contract if contract is not None else c_mul_range(pr.Pleaf, "@1@", "@2@"),
              loops=({0: l_mul(pr.Pleaf, "@cnt@", "@acc@", "@dbl@")} if loops else None), subs=pr.mul_subs,
              canary=((rf"@dbl@ >= {pr.Pleaf} - @acc@\)", f"@dbl@ > {pr.Pleaf} - @acc@)") if canary else None),
              derive=MUL_DERIVE, **leaf_sig_fix(pr),
              sig_subs=([(r"^.*?_multiply\(", "Element _multiply(")] if pr.scopes else []))


def fn_mul_step(pr):
    extra = ", unsigned int characteristic" if pr.Pleaf == "characteristic" and pr.key in ("zp_ops", "mfs_ops") else ""
    sig = f"void _multiply_step(unsigned int* @cnt@, unsigned int* @acc@, unsigned int* @dbl@, unsigned int* @tmp@{extra})"
    d = dict(MUL_DERIVE)
    d["tmp"] = r"(\w+) = \w+;\s*if \(\w+ (?:>=|<=|==|!=|>|<) \w+ - \w+\) \1 -= "
    return Fn(pr.path, pr.mul_sig, "_multiply_step", c_mul_step(pr.Pleaf, "@cnt@", "@acc@", "@dbl@").replace("temp_b", "@tmp@"),
              piece={"kind": "loop", "ordinal": 0, "sig": sig, "byref": ["@cnt@", "@acc@", "@dbl@", "@tmp@"]}, derive=d,
              canary=(rf"\(\*@dbl@\) >= {pr.Pleaf} - \(\*@dbl@\)", f"(*@dbl@) > {pr.Pleaf} - (*@dbl@)"), **leaf_sig_fix(pr))


def fn_gvu(pr, name="get_value_u"):
    return Fn(pr.path, pr.gvu_sig, name, c_get_value_u(pr.P),
              canary=(rf"e < {pr.P} \? e", f"e <= {pr.P} ? e"))


def fn_gvs(pr, T, signed=True, name=None):
    """signed: T in (int, long); unsigned: the `else` branch of the if constexpr (element classes)"""
    TMAX = {"int": "2147483647u", "long": "4294967295u"}.get(T)
    tvar = "Signed_integer_type" if pr.key == "zp_ops" else "Integer_type"
    if signed and pr.key in ("mfs_el", "mfs_sh"):
        return Fn(pr.path, pr.gvs_sig, name or "get_value_s", c_get_value_mag(pr.P, T), constexpr=[(IS_SIGNED, True)],
                  subs=[(r"using Unsigned = std::make_unsigned_t<Integer_type>;", f"typedef unsigned {T} Unsigned;")],
                  canary=(r"a == 0 \? 0 :", "a == 1 ? 0 :"))
    if signed:
        return Fn(pr.path, pr.gvs_sig, name or "get_value_s", c_get_value_s(pr.P, T, TMAX),
                  constexpr=[(IS_SIGNED, True)],
                  canary=((rf"e = e % \(\({tvar}\)\({pr.P}\)\)", f"e = e % {pr.P}") if T == "int" else
                          (r"if \(e < 0\) return", "if (e <= 0) return")))
    return Fn(pr.path, pr.gvs_sig, name or "get_value_u", c_get_value_u(pr.P), constexpr=[(IS_SIGNED, False)],
              canary=(rf"e < {pr.P} \? e", f"e <= {pr.P} ? e"))


RUNS_GVS = [Run(only=["*.postcondition.1", "*.postcondition.2", "*.postcondition.3"], backend="sat", timeout=60, label="range+linear"),
            Run(only=["*.postcondition.4"], backend="z3", timeout=90, label="e<-p"),
            Run(only=["*.postcondition.5"], backend="z3", timeout=25, route="R", label="e>=p"),
            Run(exclude=["*.postcondition.*"], backend="sat", timeout=60, label="safety+frame")]
RUNS_GVM = [Run(only=["*.postcondition.1"], backend="sat", timeout=120, label="range"),
            Run(only=["*.postcondition.2", "*.postcondition.3", "*.postcondition.4", "*.postcondition.5"], backend="z3", timeout=120, label="regions"),
            Run(exclude=["*.postcondition.*"], backend="sat", timeout=60, label="safety+frame")]
RUNS_GVU = [Run(only=["*.postcondition.1"], backend="z3", timeout=60, label="eq"),
            Run(exclude=["*.postcondition.1"], backend="sat", timeout=60, label="rest")]


# ------------------------------------------------------------------------------------------------ replay
REPLAY_SRC = os.path.join(VERIF, "replay", "fields.cpp")
REPLAY_BIN = os.path.join(VERIF, "build", "replay_fields")


_built = set()


def replay_bin():
    """rebuilt from /repo's current headers once per check run"""
    if REPLAY_BIN not in _built:
        _built.add(REPLAY_BIN)
        os.makedirs(os.path.dirname(REPLAY_BIN), exist_ok=True)
        inc = ["-I" + REPO + "/src/Persistence_matrix/include", "-I" + REPO + "/src/Persistent_cohomology/include",
               "-I" + REPO + "/src/common/include"]
        rc, o, e, s = sh(["g++", "-std=c++17", "-O1", "-w"] + inc + [REPLAY_SRC, "-o", REPLAY_BIN], 300)
        if rc != 0:
            raise RuntimeError("replay build failed: " + (o + e)[-1500:])
    return REPLAY_BIN


def mk_replay(cls, op, argnames):
    """replay callback: run the real class on CBMC's operands (native C++ compiled from /repo)."""
    def rp(unit, failure):
        vals = failure["inputs"]
        args = []
        for n in argnames:
            v = vals.get(n)
            if v is None:
                return {"reproduced": None, "detail": f"input {n} not in the trace"}
            args.append(str(v).rstrip('uUlL'))
        cmd = [replay_bin(), cls, op] + args
        rc, o, e, s = sh(cmd, 60)
        return {"reproduced": True if rc == 1 else (False if rc == 0 else None), "cmd": " ".join(cmd),
                "detail": (o + e).strip()[-600:], "rc": rc}
    return rp


NATIVE_RESULTS = []
NATIVE_CLASS = {"mfs_ops": "Multi_field_operators_with_small_characteristics",
                "mfs_sh": "Shared_multi_field_element_with_small_characteristics",
                "mfs_el": "Multi_field_element_with_small_characteristics",
                "mf_ops": "Multi_field_operators", "mf_sh": "Shared_multi_field_element", "mf_el": "Multi_field_element",
                "mf_coh": "persistent_cohomology::Multi_field"}


def mk_replay_native(key):
    """small multi-field classes only accept products of consecutive primes as modulus: a refuted obligation is
    replayed by searching the exhaustive-native sweep of the same class (same run) for a failing input"""
    def rp(unit, failure):
        for n in NATIVE_RESULTS:
            if n.get("class") == NATIVE_CLASS[key] and n.get("failures"):
                c = n["failures"][0]
                return {"reproduced": True, "detail": f"{n['unit']}: real class is wrong on {c.get('case')}", "native_case": c}
        return {"reproduced": None, "detail": "the exhaustive-native sweep of this class over the listed prime ranges finds no wrong result"}
    return rp


def native(tier, seed, bdir, only=None):
    """exhaustive-native stand-ins (route N): the seven multi-field classes (three of them GMP-based, one the
    cohomology engine's) on every reduced operand pair of small prime ranges.  Labelled bounded."""
    import concurrent.futures as cf
    import fnmatch
    import json
    thorough = tier == "thorough"
    names = ["small_operators", "small_shared", "small_element", "gmp_operators", "gmp_shared", "gmp_element", "cohomology_multi_field"]
    jobs = [(k, f"native.multifield.{n}") for k, n in enumerate(names)]
    if only:
        jobs = [j for j in jobs if fnmatch.fnmatch(j[1], only)]
    out_pr = [] if (only and not fnmatch.fnmatch("native.is_prime", only)) else primes_native(bdir)
    if not jobs:
        return out_pr
    os.makedirs(bdir, exist_ok=True)
    exe = os.path.join(bdir, "multifield_sweep")
    inc = ["-I" + REPO + "/src/Persistence_matrix/include", "-I" + REPO + "/src/Persistent_cohomology/include", "-I" + REPO + "/src/common/include"]
    rc, o, e, s = sh(["g++", "-std=c++17", "-O1", "-w"] + inc + [os.path.join(VERIF, "native", "multifield_sweep.cpp"), "-o", exe, "-lgmpxx", "-lgmp"], 600)
    if rc != 0:
        return [{"unit": "native.build", "status": "error", "notes": (o + e)[-1500:], "cases": 0, "failures": []}]
    ranges = "[2,3] [2,5] [3,7] [5,7] [7,7]" + (" [2,7] [5,13] [11,17]" if thorough else "")
    out = []
    with cf.ThreadPoolExecutor(max_workers=7) as ex:
        futs = [(uid, ex.submit(sh, [exe, str(k), "1" if thorough else "0"], 3600)) for k, uid in jobs]
        for uid, fut in futs:
            rc, o, e, secs = fut.result()
            rec = {"unit": uid, "route": "B", "kind": "exhaustive-native", "status": "ok", "cases": 0, "failures": [],
                   "seconds": round(secs, 2), "bound": f"prime ranges {ranges}; every reduced operand / operand pair / sub-product",
                   "desc": "add, subtract, multiply, inverse, partial inverse w.r.t. every sub-product, conversion of signed integers: real class vs exact arithmetic"}
            try:
                js = json.loads(o.strip().split("\n")[-1])
            except (ValueError, IndexError):
                rec["status"] = "error"
                rec["notes"] = f"native run failed rc={rc}: {(o + e)[-600:]}"
                out.append(rec)
                continue
            rec["class"] = js["class"]
            rec["cases"] = rec["obligations"] = js["checked"]
            rec["mismatches"] = js["mismatches"]
            for m in js["first"]:
                m["id"] = f"case{len(rec['failures'])}"
                m["input_class"] = None
                rec["failures"].append(m)
            out.append(rec)
    return out + out_pr


def primes_native(bdir, unit="native.is_prime"):
    """every copy of the primality test in /repo vs trial division, all n < 2^16 (exhaustive-native, bounded)"""
    import json
    os.makedirs(bdir, exist_ok=True)
    exe = os.path.join(bdir, "primes_sweep")
    inc = ["-I" + REPO + "/src/Persistence_matrix/include", "-I" + REPO + "/src/Ripser/include", "-I" + REPO + "/src/common/include"]
    rc, o, e, s = sh(["g++", "-std=c++17", "-O1", "-w"] + inc + [os.path.join(VERIF, "native", "primes_sweep.cpp"), "-o", exe, "-lgmpxx", "-lgmp"], 600)
    if rc != 0:
        return [{"unit": unit, "status": "error", "notes": (o + e)[-1500:], "cases": 0, "failures": []}]
    rc, o, e, secs = sh([exe], 600)
    rec = {"unit": unit, "route": "B", "kind": "exhaustive-native", "status": "ok", "cases": 0, "failures": [], "seconds": round(secs, 2),
           "bound": "n < 2^16 (and -70000 <= n < 0 for the signed copies)", "desc": "the six copies of the primality test (small multi-fields, GMP operators, ripser) vs trial division"}
    try:
        js = json.loads(o.strip().split("\n")[-1])
        rec["cases"] = rec["obligations"] = js["checked"]
        for m in js["first"]:
            m["id"] = f"case{len(rec['failures'])}"
            m["input_class"] = None
            rec["failures"].append(m)
    except (ValueError, IndexError):
        rec["status"] = "error"
        rec["notes"] = f"native run failed rc={rc}: {(o + e)[-600:]}"
    return [rec]


def _num(v):
    return int(str(v).rstrip("uUlL"))


def failure_class(unit, f):
    """input class of a refutation, used to match known findings (known_findings.jsonl)"""
    i = f.get("inputs", {})
    try:
        if "multiply_and_add" in unit.uid or "add_and_multiply" in unit.uid:
            e, m, a = _num(i["in_e"]), _num(i["in_m"]), _num(i["in_a"])
            v = (e + a) * m if "add_and_multiply" in unit.uid else e * m + a
            if v >= 2 ** 32 and f["name"].endswith("postcondition.2"):
                return "fused-op-expression-exceeds-32-bits"
    except (KeyError, ValueError):
        pass
    return None


# ------------------------------------------------------------------------------------------------ units
def units(tier):
    U = []
    thorough = tier == "thorough"

    # ---- leaves of the six Z_p-style headers ---------------------------------------------------------------
    for pr in PROFS:
        k = pr.key
        leaf3 = pr.Pleaf == "characteristic" and k in ("zp_ops", "mfs_ops")   # characteristic passed as 3rd argument
        pdecl = "" if leaf3 else f" {pr.P} = nondet_uint();"
        parg = ", in_p" if leaf3 else ""
        pin = ["in_p"] if leaf3 else [pr.P]
        pvar = ", in_p" if leaf3 else ""
        cls = k
        mkr = (lambda c, op, names: mk_replay_native(c)) if k in NATIVE_CLASS else mk_replay
        U.append(Unit(f"{k}._add", "C10", [fn_add(pr)], enforce="_add", typedefs=TD_U, globals_=pr.globals_,
                      inputs=["in_e1", "in_e2"] + pin, replay=mkr(cls, "_add", ["in_e1", "in_e2"] + pin),
                      harness=H(f"  unsigned int in_e1, in_e2{pvar};{pdecl}", f"_add(in_e1, in_e2{parg});"),
                      desc=f"{pr.path.split('/')[-1]} _add: exact sum reduced, every 32-bit characteristic"))
        U.append(Unit(f"{k}._subtract", "C10", [fn_sub(pr)], enforce="_subtract", typedefs=TD_U, globals_=pr.globals_,
                      inputs=["in_e1", "in_e2"] + pin, replay=mkr(cls, "_subtract", ["in_e1", "in_e2"] + pin),
                      harness=H(f"  unsigned int in_e1, in_e2{pvar};{pdecl}", f"_subtract(in_e1, in_e2{parg});"),
                      desc=f"{pr.path.split('/')[-1]} _subtract: exact difference reduced"))
        U.append(Unit(f"{k}._multiply.range", "C10", [fn_mul(pr)], enforce="_multiply", typedefs=TD_U,
                      globals_=pr.globals_, loop_contracts=True, inputs=["in_e1", "in_e2"] + pin,
                      replay=mkr(cls, "_multiply", ["in_e1", "in_e2"] + pin),
                      harness=H(f"  unsigned int in_e1, in_e2{pvar};{pdecl}", f"_multiply(in_e1, in_e2{parg});"),
                      desc="_multiply: loop contract (result and operands stay reduced; terminates) for every 32-bit characteristic"))
        U.append(Unit(f"{k}._multiply.step", "C10", [fn_mul_step(pr)], enforce="_multiply_step", typedefs=TD_U,
                      globals_=pr.globals_, inputs=["in_a", "in_acc", "in_b"] + pin,
                      harness=H(f"  unsigned int in_a, in_acc, in_b, in_t{pvar};{pdecl}",
                                f"_multiply_step(&in_a, &in_acc, &in_b, &in_t{parg});"),
                      runs=[Run(timeout=240)],
                      desc="_multiply loop body as a function: exact Russian-peasant step (acc += b if odd; b doubled; a halved), all mod p"))
        U.append(Unit(f"{k}._multiply.exact_p31", "C10",
                      [fn_mul(pr, contract=c_mul_exact_b(pr.Pleaf, "@1@", "@2@"), loops=False)],
                      enforce="_multiply", typedefs=TD_U, globals_=pr.globals_, unwind=7, route="B",
                      bound="characteristic <= 31 (operands < p, so the loop runs <= 5 times; unwinding assertion on)",
                      inputs=["in_e1", "in_e2"] + pin, replay=mkr(cls, "_multiply", ["in_e1", "in_e2"] + pin),
                      harness=H(f"  unsigned int in_e1, in_e2{pvar};{pdecl}", f"_multiply(in_e1, in_e2{parg});"),
                      desc="_multiply == e1*e2 mod p (64-bit product), every p <= 31"))
        if pr.gvu_sig:
            U.append(Unit(f"{k}.get_value_u", "C10", [fn_gvu(pr)], enforce="get_value_u", typedefs=TD_U,
                          globals_=pr.globals_, inputs=["in_e", pr.P], runs=RUNS_GVU,
                          replay=mkr(cls, "get_value_u", ["in_e", pr.P]),
                          harness=H(f"  unsigned int in_e; {pr.P} = nondet_uint();", "get_value_u(in_e);"),
                          desc="residue of an unsigned integer"))
        if pr.gvs_sig:
            for T in ("int", "long"):
                td = dict(TD_U)
                td["Signed_integer_type" if k == "zp_ops" else "Integer_type"] = T
                U.append(Unit(f"{k}.get_value_{T}", "C10", [fn_gvs(pr, T)], enforce="get_value_s", typedefs=td,
                              globals_=pr.globals_, inputs=["in_e", pr.P], runs=(RUNS_GVM if k in ("mfs_el", "mfs_sh") else RUNS_GVS),
                              replay=mkr(cls, f"get_value_{T}", ["in_e", pr.P]),
                              harness=H(f"  {T} in_e; {pr.P} = nondet_uint();", "get_value_s(in_e);"),
                              desc=f"residue of a signed integer ({T}), negative ones included, one clause per region"))
            if k != "zp_ops":
                td = dict(TD_U)
                td["Integer_type"] = "unsigned int"
                U.append(Unit(f"{k}.get_value_u", "C10", [fn_gvs(pr, "unsigned int", signed=False)],
                              enforce="get_value_u", typedefs=td, globals_=pr.globals_, inputs=["in_e", pr.P],
                              runs=RUNS_GVU, replay=mkr(cls, "get_value_u", ["in_e", pr.P]),
                              harness=H(f"  unsigned int in_e; {pr.P} = nondet_uint();", "get_value_u(in_e);"),
                              desc="residue of an unsigned integer (unsigned branch of _get_value)"))
    # ---- public operations of the two run-time operator classes --------------------------------------------
    for k in ("zp_ops", "mfs_ops"):
        ops_units(PROF[k], U, thorough)
    inverse_units(U, thorough)
    table_units(U, thorough)
    field_zp_units(U, thorough)
    z2_units(U)
    element_operator_units(U)
    small_multifield_units(U, thorough)
    z2_element_units(U)
    gmp_units(U)
    gmp_element_units(U)
    gmp_cohomology_units(U)
    gmp_inverse_units(U)
    small_element_inverse_units(U)
    gmp_element_inverse_units(U)
    get_inverse_width_units(U)
    return U


def z2_element_units(U):
    """Z2_field_element: conversions and operators (arithmetic modulo 2 on the stored bit)"""
    Z2E = F + "Z2_field.h"
    CLS = "Z2_field_element"
    SAME = r"std::is_same_v<\w+, bool>"
    G = "typedef struct { bool element_; } Z2_field_element;\n"
    par = {"int": lambda x: f"(({x} & 1) != 0)", "unsigned int": lambda x: f"(({x} & 1u) != 0)", "bool": lambda x: x}
    gv_sig = r"static constexpr Element _get_value\(Integer_type e\)"
    for T in ("int", "unsigned int", "bool"):
        fn = Fn(Z2E, gv_sig, "_get_value", f"__CPROVER_ensures(__CPROVER_return_value == {par[T]('e')})\n__CPROVER_assigns()\n",
                constexpr=[(SAME, T == "bool")], canary=((r"e % 2", "e / 2") if T != "bool" else None))
        U.append(Unit(f"z2_el._get_value.{T.replace(' ', '_')}", "C10", [fn], enforce="_get_value", typedefs={"Element": "bool", "Integer_type": T}, globals_=G,
                      inputs=["in_e"], harness=H(f"  {T} in_e = nondet_uint();", "_get_value(in_e);"),
                      desc=f"Z2_field_element::_get_value<{T}>: the parity of the integer, negative ones included"))
    ee = [("add_assign", r"\+=", "!="), ("sub_assign", r"-=", "!="), ("mul_assign", r"\*=", "&&")]
    for name, opre, op in ee:
        con = f"__CPROVER_ensures(f1->element_ == (__CPROVER_old(f1->element_) {op} f2.element_))\n__CPROVER_assigns(f1->element_)\n"
        fn = Fn(Z2E, rf"friend void operator{opre}\({CLS}& f1, {CLS} const& f2\)", name, con, sig_subs=[(rf"operator{opre}", name)],
                canary=(r"\(\*f1\)\.element_ = \(([^;]*)\);", r"(*f1).element_ = !(\1);"))
        U.append(Unit(f"z2_el.operator.{name}", "C10", [fn], enforce=name, typedefs={"Element": "bool"}, globals_=G, inputs=["in_a", "in_b"],
                      harness=H(f"  {CLS} in_a, in_b; in_a.element_ = nondet_uint() & 1; in_b.element_ = nondet_uint() & 1; {CLS} x_a = in_a;", f"{name}(&x_a, in_b);"),
                      desc=f"Z2_field_element operator{opre.replace(chr(92), '')} on two elements: arithmetic modulo 2"))
    for T in ("int", "unsigned int"):
        td = {"Element": "bool", "Integer_type": T}
        gv = Fn(Z2E, gv_sig, "_get_value", "", constexpr=[(SAME, False)])
        for name, opre, op in ee:
            con = f"__CPROVER_ensures(f->element_ == (__CPROVER_old(f->element_) {op} {par[T]('v')}))\n__CPROVER_assigns(f->element_)\n"
            fn = Fn(Z2E, rf"friend void operator{opre}\({CLS}& f, const Integer_type& v\)", name, con, sig_subs=[(rf"operator{opre}", name)],
                    canary=(r"_get_value\(v\)", "(v != 0)"))
            U.append(Unit(f"z2_el.operator.{name}_{T.replace(' ', '_')}", "C10", [gv, fn], enforce=name, typedefs=td, globals_=G, inputs=["in_a", "in_v"],
                          harness=H(f"  {CLS} in_a; in_a.element_ = nondet_uint() & 1; {T} in_v = nondet_uint(); {CLS} x_a = in_a;", f"{name}(&x_a, in_v);"),
                          desc=f"Z2_field_element operator{opre.replace(chr(92), '')} with a {T}: the integer contributes its parity"))
        for name, opre, op, vsig in (("int_plus", r"\+", "!=", r"const Integer_type& v, const Z2_field_element& f"), ("int_minus", r"-", "!=", r"const Integer_type v, Z2_field_element const& f"),
                                    ("int_times", r"\*", "&&", r"const Integer_type& v, Z2_field_element const& f")):
            con = f"__CPROVER_ensures((__CPROVER_return_value != 0) == (f.element_ {op} {par[T]('v')}))\n__CPROVER_ensures(__CPROVER_return_value == 0 || __CPROVER_return_value == 1)\n__CPROVER_assigns()\n"
            fn = Fn(Z2E, rf"friend Integer_type operator{opre}\({vsig}\)", name, con, sig_subs=[(rf"operator{opre}(?=\()", name)], canary=(r"_get_value\(v\)", "(v != 0)"))
            U.append(Unit(f"z2_el.operator.{name}_{T.replace(' ', '_')}", "C10", [gv, fn], enforce=name, typedefs=td, globals_=G, inputs=["in_a", "in_v"],
                          harness=H(f"  {CLS} in_a; in_a.element_ = nondet_uint() & 1; {T} in_v = nondet_uint();", f"{name}(in_v, in_a);"),
                          desc=f"{T} {opre.replace(chr(92), '')} Z2_field_element: 0 or 1, the result modulo 2"))
        con = f"__CPROVER_ensures(__CPROVER_return_value == ({par[T]('v')} == f.element_))\n__CPROVER_assigns()\n"
        fn = Fn(Z2E, rf"friend bool operator==\(const Integer_type& v, const {CLS}& f\)", "eq_int", con, sig_subs=[(r"operator==", "eq_int")], canary=(r"==", "!="))
        U.append(Unit(f"z2_el.operator.eq_{T.replace(' ', '_')}", "C10", [gv, fn], enforce="eq_int", typedefs=td, globals_=G, inputs=["in_a", "in_v"],
                      harness=H(f"  {CLS} in_a; in_a.element_ = nondet_uint() & 1; {T} in_v = nondet_uint();", "eq_int(in_v, in_a);"),
                      desc=f"{T} == Z2_field_element: comparison by residue"))


# ------------------------------------------------------------------------------------------------ small multi-field, end to end
def small_multifield_units(U, thorough):
    """Multi_field_operators_with_small_characteristics, real functions inlined, per concrete prime range: the tables
    built by the real set_characteristic, then for EVERY element e < P and EVERY sub-product Q (symbolic subset of the
    primes) get_partial_inverse(e, Q) = (v, T) with T = prod{q | Q : q does not divide e}, v*e == 1 mod each prime of
    T and v == 0 mod every other prime of the range; get_inverse likewise for Q = P."""
    pr = PROF["mfs_ops"]
    path = pr.path
    ranges = [(2, 3), (2, 5)] + ([(7, 7), (3, 7)] if thorough else [])   # [2,7] (P = 210) does not finish in 900 s; the native sweep covers it
    VEC = """
#define PCAP 8
typedef struct { unsigned int a[PCAP]; size_t n; } vp_vec_u8;
vp_vec_u8 primes_, partials_;
unsigned int productOfAllCharacteristics_;
typedef struct { unsigned int first; unsigned int second; } vp_pair_uu;
#define VP_PUSHP(v, x) do { __CPROVER_assert((v).n < PCAP, "R7: push_back within capacity"); (v).a[(v).n++] = (x); } while (0)
"""
    vsubs = [(r"primes_\.clear\(\);", "primes_.n = 0;", 0), (r"primes_\.push_back\(i\);", "VP_PUSHP(primes_, i);", 0), (r"primes_\.empty\(\)", "(primes_.n == 0)", 0),
             (r"partials_\.resize\(primes_\.size\(\)\);", "partials_.n = primes_.n;", 0), (r"primes_\.size\(\)", "primes_.n", 0),
             (r"primes_\[", "primes_.a[", 0), (r"partials_\[", "partials_.a[", 0), (r"std::gcd\(", "vp_gcd_u(", 0)]
    SC = [MFSO]
    f_isp = Fn(path, MFSO + r"::_is_prime\(const int p\)", "_is_prime", "", scopes=SC, sig_subs=[(r"^.*?_is_prime\(", "bool _is_prime(")])
    f_setc = Fn(path, r"void set_characteristic\(int minimum, int maximum\)", "set_characteristic", "", subs=vsubs)
    f_mid = Fn(path, r"static constexpr Element get_multiplicative_identity\(\)", "get_multiplicative_identity", "")
    f_pmid = Fn(path, r"Element get_partial_multiplicative_identity\(const Characteristic& productOfCharacteristics\) const", "get_partial_multiplicative_identity", "", subs=vsubs)
    f_ginv = Fn(path, MFSO + r"::_get_inverse\(Element element,\s*Characteristic mod\)", "_get_inverse", "", scopes=SC, sig_subs=[(r"^.*?_get_inverse\(", "long int _get_inverse(")])
    f_pinv = Fn(path, r"std::pair<Element, Characteristic> get_partial_inverse\(\s*const Element& e, const Characteristic& productOfCharacteristics\) const", "get_partial_inverse", "",
                sig_subs=[(r"std::pair<Element, Characteristic>", "vp_pair_uu")],
                subs=vsubs + [(r"return \{([^;]*)\};", r"return (vp_pair_uu){\1};", 2), (r"auto res =", "Element res =")])
    f_inv = Fn(path, r"Element get_inverse\(const Element& e\) const", "get_inverse", "")
    for lo, hi in ranges:
        primes = [p for p in range(max(lo, 2), hi + 1) if all(p % d for d in range(2, p))]
        P = 1
        for p in primes:
            P *= p
        chk = "\n".join(f"  if (mask >> {k} & 1) {{ Q *= {p}u; if (e % {p}u != 0) T *= {p}u; }}" for k, p in enumerate(primes))
        res = "\n".join(f"  __CPROVER_assert(T % {p}u == 0 ? ((uint64_t)(e % {p}u) * (r.first % {p}u)) % {p}u == 1 : r.first % {p}u == 0, \"partial inverse: inverse of e modulo {p} when {p} divides T, 0 modulo {p} otherwise\");" for p in primes)
        resi = "\n".join(f"  __CPROVER_assert(e % {p}u != 0 ? ((uint64_t)(e % {p}u) * (v % {p}u)) % {p}u == 1 : v % {p}u == 0, \"get_inverse: inverse modulo {p} where e is invertible, 0 otherwise\");" for p in primes)
        body = f"""
  g_thrown = 0; primes_.n = 0; partials_.n = 0;
  set_characteristic({lo}, {hi});
  __CPROVER_assert(g_thrown == 0 && productOfAllCharacteristics_ == {P}u && primes_.n == {len(primes)}, "set_characteristic: the product of the primes of the range");
  unsigned int e = nondet_uint(), mask = nondet_uint();
  __CPROVER_assume(e < {P}u && mask >= 1 && mask < {1 << len(primes)}u);
  unsigned int Q = 1, T = 1;
{chk}
  vp_pair_uu r = get_partial_inverse(e, Q);
  __CPROVER_assert(r.second == T, "partial inverse: T is the product of the primes of Q at which e is invertible");
  __CPROVER_assert(r.first < {P}u, "partial inverse: value reduced");
{res}
  unsigned int v = get_inverse(e);
{resi}
"""
        U.append(Unit(f"mfs_ops.partial_inverse.range_{lo}_{hi}", "C10",
                      [fn_add(pr), fn_mul(pr, contract="", loops=False, canary=False), f_isp, f_ginv, f_mid, f_pmid, f_setc, f_pinv, f_inv],
                      no_enforce=True, typedefs=TD_U, globals_=VEC, unwind=40, route="B", object_bits=10,
                      bound=f"prime range [{lo},{hi}] (P = {P}); every element and every sub-product symbolic", inputs=["e", "mask"],
                      replay=mk_replay_native("mfs_ops"), harness=H("", "", post=body), runs=[Run(backend="kissat", timeout=900)],
                      desc=f"Multi_field_operators_with_small_characteristics on [{lo},{hi}], real functions inlined: get_partial_inverse / get_inverse against the definition, all e < {P}, all sub-products"))


# ------------------------------------------------------------------------------------------------ inverses
PRIME31 = "(p_ == 2 || p_ == 3 || p_ == 5 || p_ == 7 || p_ == 11 || p_ == 13 || p_ == 17 || p_ == 19 || p_ == 23 || p_ == 29 || p_ == 31)"


def inverse_units(U, thorough):
    # Euclid inverses (bounded: modulus <= 31)
    for k, sig, P_, extra in (("zp_el", r"static int _get_inverse\(Element element\)", "characteristic", ""),
                              ("mfs_el", r"static constexpr (?:long )?int _get_inverse\(Element element, const Element mod\)", "mod", ", in_p"),
                              ("mfs_sh", r"static constexpr (?:long )?int _get_inverse\(Element element, const Characteristic mod\)", "mod", ", in_p"),
                              ("mfs_ops", MFSO + r"::_get_inverse\(Element element,\s*Characteristic mod\)", "mod", ", in_p")):
        pr = PROF[k]
        ret = "long int" if k == "mfs_ops" else "int"
        if k == "zp_el":
            con = f"""
__CPROVER_requires({PRIME31.replace('p_', 'characteristic')} && element >= 1 && element < characteristic)
__CPROVER_ensures(__CPROVER_return_value >= 0 && (unsigned)__CPROVER_return_value < characteristic)
__CPROVER_ensures(((unsigned)__CPROVER_return_value * element) % characteristic == 1)
__CPROVER_assigns()
"""
            decl, call = "unsigned int in_e; characteristic = nondet_uint();", "_get_inverse(in_e);"
        else:
            # called by get_partial_inverse with the (not reduced) element and a sub-product mod with gcd(element, mod) == 1
            con = """
__CPROVER_requires(mod >= 2 && mod <= 31 && element >= 1 && element <= 255 && vp_gcd_u(element, mod) == 1)
__CPROVER_ensures(__CPROVER_return_value >= 0 && (unsigned)__CPROVER_return_value < mod)
__CPROVER_ensures(((uint64_t)__CPROVER_return_value * element) % mod == 1)
__CPROVER_assigns()
"""
            decl, call = "unsigned int in_e, in_p;", "_get_inverse(in_e, in_p);"
        fn = Fn(pr.path, sig, "_get_inverse", con, scopes=pr.scopes,
                sig_subs=([(r"^.*?_get_inverse\(", "long int _get_inverse(")] if pr.scopes else []),
                canary=(r"x = temp;", "x = temp + 1;"))
        U.append(Unit(f"{k}._get_inverse.m31", "C10", [fn], enforce="_get_inverse", typedefs=TD_U, globals_=pr.globals_, unwind=14,
                      route="B", bound="modulus <= 31" + ("" if k == "zp_el" else ", element <= 255"), runs=[Run(backend="kissat", timeout=600)],
                      inputs=["in_e", "in_p", "characteristic"], replay=(mk_replay_native(k) if k in NATIVE_CLASS else None),
                      harness=H("  " + decl, call), desc="extended-Euclid inverse: x * r == 1 modulo the modulus whenever gcd(x, modulus) == 1"))
    # table lookup: reads the slot of the residue
    pr = PROF["zp_ops"]
    G = pr.globals_ + "unsigned int inverse_[65536];\ntypedef struct { unsigned int first; unsigned int second; } vp_pair_uu;\n"
    gv = fn_gvu(pr)
    f_gi = Fn(OPS, r"Element get_inverse\(Element e\) const", "get_inverse", """
__CPROVER_requires(characteristic_ >= 2 && characteristic_ <= 65536)
__CPROVER_ensures(__CPROVER_return_value == inverse_[RES_U(e, characteristic_)])
__CPROVER_assigns()
""", calls={"get_value": "get_value_u"}, canary=(r"inverse_\[get_value_u\(e\)\]", "inverse_[get_value_u(e) / 2]"))
    U.append(Unit("zp_ops.get_inverse", "C10", [gv, f_gi], enforce="get_inverse", replace=["get_value_u"], typedefs=TD_U, globals_=G,
                  inputs=["in_e", "characteristic_"], runs=[Run(backend="z3", timeout=240)],
                  harness=H("  unsigned int in_e; characteristic_ = nondet_uint();", "get_inverse(in_e);"),
                  desc="Zp_field_operators::get_inverse: returns the table entry of the residue of e (never reads outside the table)"))
    f_gpi = Fn(OPS, r"std::pair<Element, Characteristic> get_partial_inverse\(Element e,\s*Characteristic productOfCharacteristics\) const", "get_partial_inverse", """
__CPROVER_requires(characteristic_ >= 2 && characteristic_ <= 65536)
__CPROVER_ensures(__CPROVER_return_value.first == inverse_[RES_U(e, characteristic_)])
__CPROVER_ensures(__CPROVER_return_value.second == productOfCharacteristics)
__CPROVER_assigns()
""", sig_subs=[(r"std::pair<Element, Characteristic>", "vp_pair_uu")], subs=[(r"return \{([^;]*)\};", r"return (vp_pair_uu){\1};")],
                canary=(r"productOfCharacteristics\}", "productOfCharacteristics + 1}"))
    f_gi2 = Fn(OPS, r"Element get_inverse\(Element e\) const", "get_inverse", f_gi.contract, calls={"get_value": "get_value_u"})
    U.append(Unit("zp_ops.get_partial_inverse", "C10", [gv, f_gi2, f_gpi], enforce="get_partial_inverse", replace=["get_inverse"], typedefs=TD_U, globals_=G,
                  inputs=["in_e", "in_q", "characteristic_"],
                  runs=[Run(only=["*.postcondition.1"], backend="z3", timeout=240), Run(exclude=["*.postcondition.1"], backend="sat", timeout=240)],
                  harness=H("  unsigned int in_e, in_q; characteristic_ = nondet_uint();", "get_partial_inverse(in_e, in_q);"),
                  desc="Zp_field_operators::get_partial_inverse: (inverse of e, the given product unchanged)"))


# ------------------------------------------------------------------------------------------------ table construction
def table_units(U, thorough):
    """set_characteristic / initialize / Field_Zp::init: primes accepted with a correct inverse table, everything else
    refused - whole function for every c <= 16 (bounded); the refusal of c <= 1 (and > 46337) for every c."""
    ISP16 = "(c_ == 2 || c_ == 3 || c_ == 5 || c_ == 7 || c_ == 11 || c_ == 13)"
    VEC = ("#define INV_CAP 64\nsize_t inverse__n;\n"
           "#define VP_RESIZE(n) do { __CPROVER_assert((n) <= INV_CAP, \"R7: resize within capacity\"); inverse__n = (n); } while (0)\n"
           "#define VP_PUSH_INV(x) do { __CPROVER_assert(inverse__n < INV_CAP, \"R7: push_back within capacity\"); inverse_[inverse__n++] = (x); } while (0)\n"
           "unsigned int g_k;\n")
    cases = [("zp_ops.set_characteristic", OPS, r"void set_characteristic\(Characteristic characteristic\)", "set_characteristic", "characteristic", "characteristic_",
              "unsigned int", [(r"inverse_\.resize\(([^;]*)\);", r"VP_RESIZE(\1);")], "unsigned int characteristic_; unsigned int inverse_[INV_CAP];\n", None),
             ("zp_sh.initialize", F + "Zp_field_shared.h", r"static void initialize\(Characteristic characteristic\)", "initialize", "characteristic", "characteristic_",
              "unsigned int", [(r"inverse_\.resize\(([^;]*)\);", r"VP_RESIZE(\1);")], "unsigned int characteristic_; unsigned int inverse_[INV_CAP];\n", None),
             ("field_zp.init", PC + "Field_Zp.h", r"void init\(int charac\)", "init", "charac", "Prime",
              "int", [(r"inverse_\.clear\(\);", "inverse__n = 0;", 0), (r"inverse_\.reserve\(charac\);", "", 0), (r"inverse_\.push_back\(", "VP_PUSH_INV(", 1)],
              "int Prime; int inverse_[INV_CAP];\n", 46337)]
    for uid, path, sig, name, arg, member, T, subs, G, upper in cases:
        cexp = ISP16.replace("c_", arg)
        td = dict(TD_U)
        if T == "int":
            td = {"Element": "int"}
        con = f"""
__CPROVER_requires({arg} <= 16 && g_thrown == 0)
__CPROVER_ensures((g_thrown == 0) == {cexp})
__CPROVER_ensures(g_thrown != 0 || ({member} == {arg} && inverse_[0] == 0))
__CPROVER_ensures(g_thrown != 0 || !(g_k >= 1 && g_k < (unsigned){arg}) || (inverse_[g_k] >= 1 && (unsigned)inverse_[g_k] < (unsigned){arg} && ((unsigned)inverse_[g_k] * g_k) % (unsigned){arg} == 1))
__CPROVER_assigns({member}, inverse_, inverse__n, g_thrown)
"""
        fn = Fn(path, sig, name, con, subs=subs, canary=(r"\) != 1\)", ") != 0)"))
        U.append(Unit(uid + ".c16", "C10", [fn], enforce=name, typedefs=td, globals_=VEC + G, unwind=18, route="B", bound="characteristic <= 16 (both table loops unrolled, unwinding assertions on)",
                      inputs=["in_c", "g_k"], harness=H(f"  {T} in_c = nondet_uint(); g_k = nondet_uint(); g_thrown = 0;", f"{name}(in_c);"),
                      runs=[Run(timeout=600)], replay=mk_replay(uid.split(".")[0], "init_twice", ["in_c"]),
                      desc="table construction: primes <= 16 accepted with inverse[k] * k == 1 mod c for every 0 < k < c (ghost index), non-primes refused"))
        ref = f"{arg} <= 1" + (f" || {arg} > {upper}" if upper else "")
        con2 = f"""
__CPROVER_requires(({ref}) && g_thrown == 0)
__CPROVER_ensures(g_thrown != 0)
__CPROVER_assigns({member}, inverse_, inverse__n, g_thrown)
"""
        fn2 = Fn(path, sig, name, con2, subs=subs, canary=((rf"{arg} <= 1", f"{arg} < 1") if T != "int" else (r"Prime <= 1", "Prime < 1")))
        U.append(Unit(uid + ".refuses", "C10", [fn2], enforce=name, typedefs=td, globals_=VEC + G, unwind=2, inputs=["in_c"],
                      replay=mk_replay(uid.split(".")[0], "init_twice", ["in_c"]),
                      harness=H(f"  {T} in_c = nondet_uint(); g_thrown = 0;", f"{name}(in_c);"),
                      desc="a characteristic that is not greater than 1" + (" (or above 46337)" if upper else "") + " is refused, for every such value"))


# ------------------------------------------------------------------------------------------------ Field_Zp
def field_zp_units(U, thorough):
    FZ = PC + "Field_Zp.h"
    G = "int Prime; int inverse_[64];\n"
    td = {"Element": "int"}
    DOM = "Prime >= 2 && Prime <= 46337"
    RED = lambda *v: " && ".join(f"{a} >= 0 && {a} < Prime" for a in v)
    f_pte = lambda con, canary=None: Fn(FZ, r"Element plus_times_equal\(const Element& x, const Element& y, const Element& w\)", "plus_times_equal", con, canary=canary)
    c_pte = f"""
__CPROVER_requires({DOM} && {RED('x', 'y', 'w')})
__CPROVER_ensures(__CPROVER_return_value >= 0 && __CPROVER_return_value < Prime)
__CPROVER_ensures(__CPROVER_return_value == (((x + w * y) % Prime) < 0 ? ((x + w * y) % Prime) + Prime : ((x + w * y) % Prime)))
__CPROVER_assigns()
"""
    U.append(Unit("field_zp.plus_times_equal", "C10", [f_pte(c_pte, (r"\(x \+ w \* y\)", "(x + w + y)"))], enforce="plus_times_equal", typedefs=td, globals_=G,
                  inputs=["in_x", "in_y", "in_w", "Prime"], replay=mk_replay("field_zp", "plus_times_equal", ["in_x", "in_y", "in_w", "Prime"]),
                  harness=H("  int in_x = nondet_uint(), in_y = nondet_uint(), in_w = nondet_uint(); Prime = nondet_uint();", "plus_times_equal(in_x, in_y, in_w);"),
                  runs=[Run(only=["*.postcondition.1"], backend="sat", timeout=120, route="R", label="range"),
                        Run(only=["*.postcondition.2"], backend="z3", timeout=120, route="R", label="shape"),
                        Run(only=["*overflow*"], backend="kissat", timeout=120, route="R", label="no-signed-overflow (the 46337 claim)"),
                        Run(exclude=["*.postcondition.*", "*overflow*"], backend="sat", timeout=120, label="rest")],
                  desc="Field_Zp::plus_times_equal on reduced operands, every Prime <= 46337: result reduced; equals the documented expression reduced; x + w*y cannot overflow int (refutation-only where the solver does not finish)"))
    c_tm = f"""
__CPROVER_requires({DOM} && {RED('x', 'y')})
__CPROVER_ensures(__CPROVER_return_value >= 0 && __CPROVER_return_value < Prime)
__CPROVER_assigns()
"""
    U.append(Unit("field_zp.times_minus", "C10", [Fn(FZ, r"Element times_minus\(Element x, Element y\)", "times_minus", c_tm, canary=(r"out \+ Prime", "out - Prime"))],
                  enforce="times_minus", typedefs=td, globals_=G, inputs=["in_x", "in_y", "Prime"], replay=mk_replay("field_zp", "times_minus", ["in_x", "in_y", "Prime"]),
                  harness=H("  int in_x = nondet_uint(), in_y = nondet_uint(); Prime = nondet_uint();", "times_minus(in_x, in_y);"),
                  runs=[Run(only=["*.postcondition.1"], backend="sat", timeout=120, route="R", label="range"),
                        Run(only=["*overflow*"], backend="kissat", timeout=120, route="R", label="no-signed-overflow"),
                        Run(exclude=["*.postcondition.*", "*overflow*"], backend="sat", timeout=120, label="rest")],
                  desc="Field_Zp::times_minus on reduced operands: result reduced; -x*y cannot overflow int"))
    # wrappers: times(y, w) = plus_times_equal(0, y, w); plus_equal(x, y) = plus_times_equal(x, y, 1) - ghost record of the call
    c_ghost = f"""
__CPROVER_requires({DOM} && {RED('x', 'y', 'w')})
__CPROVER_ensures(__CPROVER_return_value >= 0 && __CPROVER_return_value < Prime)
__CPROVER_ensures(g_x == x && g_y == y && g_w == w && g_r == __CPROVER_return_value && g_n == __CPROVER_old(g_n) + 1)
__CPROVER_assigns(g_x, g_y, g_w, g_r, g_n)
"""
    GG = G + "int g_x, g_y, g_w, g_r, g_n;\n"
    for name, sig, post, call, mut in (("times", r"Element times\(const Element& y, const Element& w\)", "g_x == 0 && g_y == y && g_w == w", "times(in_y, in_w);", (r"plus_times_equal\(0,", "plus_times_equal(1,")),
                                       ("plus_equal", r"Element plus_equal\(const Element& x, const Element& y\)", "g_x == x && g_y == y && g_w == 1", "plus_equal(in_y, in_w);", (r"\(Element\)1", "(Element)0"))):
        args = "y, w" if name == "times" else "x, y"
        a1, a2 = args.split(", ")
        con = f"""
__CPROVER_requires({DOM} && {RED(a1, a2)} && g_n == 0)
__CPROVER_ensures(g_n == 1 && {post} && __CPROVER_return_value == g_r)
__CPROVER_assigns(g_x, g_y, g_w, g_r, g_n)
"""
        U.append(Unit(f"field_zp.{name}", "C10", [f_pte(c_ghost), Fn(FZ, sig, name, con, canary=mut)], enforce=name, replace=["plus_times_equal"], typedefs=td,
                      globals_=GG, inputs=["in_y", "in_w", "Prime"],
                      harness=H("  int in_y = nondet_uint(), in_w = nondet_uint(); Prime = nondet_uint(); g_n = 0;", call),
                      desc=f"Field_Zp::{name}: one call of plus_times_equal with the documented arguments, result returned"))
    # independent 64-bit congruence for concrete primes (bounded by the list)
    plist = [2, 3, 7, 46337] if not thorough else [2, 3, 5, 7, 13, 251, 32749, 46337]
    for pv in plist:
        con = f"""
__CPROVER_requires(Prime == {pv} && {RED('x', 'y', 'w')})
__CPROVER_ensures((int64_t)__CPROVER_return_value == MATHMOD64((int64_t)x + (int64_t)w * (int64_t)y, {pv}))
__CPROVER_assigns()
"""
        U.append(Unit(f"field_zp.plus_times_equal.p{pv}", "C10", [f_pte(con)], enforce="plus_times_equal", typedefs=td, globals_=G, route="B",
                      bound=f"Prime = {pv} (boundary list), operands symbolic", inputs=["in_x", "in_y", "in_w", "Prime"],
                      replay=mk_replay("field_zp", "plus_times_equal", ["in_x", "in_y", "in_w", "Prime"]),
                      harness=H(f"  int in_x = nondet_uint(), in_y = nondet_uint(), in_w = nondet_uint(); Prime = {pv};", "plus_times_equal(in_x, in_y, in_w);"),
                      runs=[Run(backend="kissat", timeout=600)],
                      desc=f"x + w*y reduced modulo {pv}, against an independent 64-bit computation (no overflow, exact residue)"))


# ------------------------------------------------------------------------------------------------ Z_2 operators
def z2_units(U):
    Z2 = F + "Z2_field_operators.h"
    SAME = r"std::is_same_v<\w+, bool>"
    B = {"unsigned int": lambda x: f"(({x} & 1u) != 0)", "bool": lambda x: x, "int": lambda x: f"(({x} & 1) != 0)"}
    # get_value for int (negative ones included), unsigned, bool
    for T in ("int", "unsigned int", "bool"):
        fn = Fn(Z2, r"static Element get_value\(Integer_type e\)", "get_value",
                f"__CPROVER_ensures(__CPROVER_return_value == {B[T]('e')})\n__CPROVER_assigns()\n",
                constexpr=[(SAME, T == "bool")], canary=((r"e % 2", "e / 2") if T != "bool" else None))
        U.append(Unit(f"z2_ops.get_value.{T.replace(' ', '_')}", "C10", [fn], enforce="get_value", typedefs={"Element": "bool", "Integer_type": T},
                      inputs=["in_e"], harness=H(f"  {T} in_e = nondet_uint();", "get_value(in_e);"),
                      desc=f"Z2_field_operators::get_value<{T}>: the parity of the integer, negative ones included"))
    ops = [
        ("add", r"static Element add\(Unsigned_integer_type e1, Unsigned_integer_type e2\)", ["e1", "e2"], None, lambda b: f"({b('e1')} != {b('e2')})"),
        ("add_inplace", r"static void add_inplace\(Unsigned_integer_type& e1, Unsigned_integer_type e2\)", ["e1", "e2"], "e1", lambda b: f"({b('e1')} != {b('e2')})"),
        ("subtract", r"static Element subtract\(Unsigned_integer_type e1, Unsigned_integer_type e2\)", ["e1", "e2"], None, lambda b: f"({b('e1')} != {b('e2')})"),
        ("subtract_inplace_front", r"static void subtract_inplace_front\(Unsigned_integer_type& e1, Unsigned_integer_type e2\)", ["e1", "e2"], "e1", lambda b: f"({b('e1')} != {b('e2')})"),
        ("subtract_inplace_back", r"static void subtract_inplace_back\(Unsigned_integer_type e1, Unsigned_integer_type& e2\)", ["e1", "e2"], "e2", lambda b: f"({b('e1')} != {b('e2')})"),
        ("multiply", r"static Element multiply\(Unsigned_integer_type e1, Unsigned_integer_type e2\)", ["e1", "e2"], None, lambda b: f"({b('e1')} && {b('e2')})"),
        ("multiply_inplace", r"static void multiply_inplace\(Unsigned_integer_type& e1, Unsigned_integer_type e2\)", ["e1", "e2"], "e1", lambda b: f"({b('e1')} && {b('e2')})"),
        ("multiply_and_add", r"static Element multiply_and_add\(Unsigned_integer_type e, Unsigned_integer_type m, Unsigned_integer_type a\)", ["e", "m", "a"], None, lambda b: f"(({b('e')} && {b('m')}) != {b('a')})"),
        ("multiply_and_add_inplace_front", r"static void multiply_and_add_inplace_front\(Unsigned_integer_type& e,\s*Unsigned_integer_type m,\s*Unsigned_integer_type a\)", ["e", "m", "a"], "e", lambda b: f"(({b('e')} && {b('m')}) != {b('a')})"),
        ("multiply_and_add_inplace_back", r"static void multiply_and_add_inplace_back\(Unsigned_integer_type e,\s*Unsigned_integer_type m,\s*Unsigned_integer_type& a\)", ["e", "m", "a"], "a", lambda b: f"(({b('e')} && {b('m')}) != {b('a')})"),
        ("add_and_multiply", r"static Element add_and_multiply\(Unsigned_integer_type e, Unsigned_integer_type a, Unsigned_integer_type m\)", ["e", "a", "m"], None, lambda b: f"(({b('e')} != {b('a')}) && {b('m')})"),
        ("add_and_multiply_inplace_front", r"static void add_and_multiply_inplace_front\(Unsigned_integer_type& e, Unsigned_integer_type a, Unsigned_integer_type m\)", ["e", "a", "m"], "e", lambda b: f"(({b('e')} != {b('a')}) && {b('m')})"),
        ("add_and_multiply_inplace_back", r"static void add_and_multiply_inplace_back\(Unsigned_integer_type e, Unsigned_integer_type a, Unsigned_integer_type& m\)", ["e", "a", "m"], "m", lambda b: f"(({b('e')} != {b('a')}) && {b('m')})"),
        ("are_equal", r"static bool are_equal\(Unsigned_integer_type e1, Unsigned_integer_type e2\)", ["e1", "e2"], None, lambda b: f"({b('e1')} == {b('e2')})"),
        ("get_inverse", r"static Element get_inverse\(Unsigned_integer_type e\)", ["e"], None, lambda b: f"{b('e')}"),
    ]
    callee_sigs = {"get_value": r"static Element get_value\(Integer_type e\)", "add": ops[0][1], "multiply": ops[5][1]}
    for T in ("unsigned int", "bool"):
        isb = T == "bool"
        td = {"Element": "bool", "Unsigned_integer_type": T, "Integer_type": T}
        ce = [(SAME, isb)]
        for name, sig, params, ref, spec in ops:
            b0 = B[T]
            def bb(v, ref=ref, b0=b0):
                return b0(f"__CPROVER_old(*{v})") if v == ref else b0(v)
            res = f"(*{ref} != 0)" if ref else "__CPROVER_return_value"
            con = f"__CPROVER_ensures({res} == {spec(bb)})\n" + (f"__CPROVER_ensures(*{ref} == 0 || *{ref} == 1)\n__CPROVER_assigns(*{ref})\n" if ref else "__CPROVER_assigns()\n")
            callees = []
            for cn, cs in callee_sigs.items():
                if cn != name:
                    callees.append(Fn(Z2, cs, cn, "", constexpr=ce))
            fn = Fn(Z2, sig, name, con, constexpr=ce, canary=((rf"\(\*{ref}\) = ([^;]*);", rf"(*{ref}) = !(\1);") if ref else (r"return ([^;]*);", r"return !(\1);")))
            decls = "  " + " ".join(f"{T} in_{v} = nondet_uint(); {T} x_{v} = in_{v};" for v in params)
            args = ", ".join((f"&x_{v}" if v == ref else f"in_{v}") for v in params)
            U.append(Unit(f"z2_ops.{name}.{T.replace(' ', '_')}", "C10", callees + [fn], enforce=name, typedefs=td, inputs=[f"in_{v}" for v in params],
                          harness=H(decls, f"{name}({args});"),
                          desc=f"Z2_field_operators::{name}<{T}>: arithmetic modulo 2 on the parities" + ("; only the designated operand is written" if ref else "")))


# ------------------------------------------------------------------------------------------------ element-class operators
def element_operator_units(U):
    """compound assignment / comparison operators of the four element classes with run-time or template modulus:
    the reduced representatives are forwarded to the leaf (replaced by its contract) and the result is stored"""
    classes = [("zp_el", "Zp_field_element"), ("zp_sh", "Shared_Zp_field_element"),
               ("mfs_el", "Multi_field_element_with_small_characteristics"), ("mfs_sh", "Shared_multi_field_element_with_small_characteristics")]
    for k, cls in classes:
        pr = PROF[k]
        P = pr.P
        G = pr.globals_ + GHOST_MUL + f"typedef struct {{ unsigned int element_; }} {cls};\n"
        A = rf"{cls}& f1,\s*(?:const {cls}&|{cls} const&) f2"
        SC = [cls]
        for opname, opre, leaf, leaf_fn, SPEC in (("add_assign", r"\+=", "_add", fn_add(pr), "ADDMOD"), ("sub_assign", r"-=", "_subtract", fn_sub(pr), "SUBMOD")):
            con = f"""
__CPROVER_requires({P} >= 2 && f1->element_ < {P} && f2.element_ < {P})
__CPROVER_ensures(f1->element_ == {SPEC}(__CPROVER_old(f1->element_), f2.element_, {P}))
__CPROVER_assigns(f1->element_)
"""
            fn = Fn(pr.path, rf"friend void operator{opre}\({A}\)", opname, con, sig_subs=[(rf"operator{opre}", opname)], scopes=SC,
                    canary=(rf"{leaf}\(\(\*f1\)\.element_, f2\.element_\)", f"{leaf}(f2.element_, (*f1).element_)") if leaf == "_subtract" else (rf"f2\.element_\)", "(*f1).element_)"))
            U.append(Unit(f"{k}.operator.{opname}", "C10", [leaf_fn, fn], enforce=opname, replace=[leaf], typedefs=TD_U, globals_=G,
                          inputs=["in_a", "in_b", P], replay=(mk_replay_native(k) if k in NATIVE_CLASS else mk_replay(k, leaf, ["in_a", "in_b", P])),
                          harness=H(f"  {cls} in_a, in_b; in_a.element_ = nondet_uint(); in_b.element_ = nondet_uint(); {cls} x_a = in_a; {P} = nondet_uint();", f"{opname}(&x_a, in_b);"),
                          desc=f"{cls} operator{opre.replace(chr(92), '')} on two elements: exact result reduced, stored in the left operand"))
        mulg = fn_mul(pr, contract=c_mul_ghost(pr.Pleaf, "@1@", "@2@"), loops=False, canary=False)
        con = f"""
__CPROVER_requires({P} >= 2 && f1->element_ < {P} && f2.element_ < {P} && g_mul_n == 0)
__CPROVER_ensures(g_mul_n == 1 && g_mul_a == __CPROVER_old(f1->element_) && g_mul_b == f2.element_ && f1->element_ == g_mul_r)
__CPROVER_assigns(f1->element_, g_mul_a, g_mul_b, g_mul_r, g_mul_n)
"""
        fn = Fn(pr.path, rf"friend void operator\*=\({A}\)", "mul_assign", con, sig_subs=[(r"operator\*=", "mul_assign")], scopes=SC,
                canary=(r"f2\.element_\)", "(*f1).element_)"))
        U.append(Unit(f"{k}.operator.mul_assign", "C10", [mulg, fn], enforce="mul_assign", replace=["_multiply"], typedefs=TD_U, globals_=G,
                      inputs=["in_a", "in_b", P],
                      harness=H(f"  {cls} in_a, in_b; in_a.element_ = nondet_uint(); in_b.element_ = nondet_uint(); {cls} x_a = in_a; {P} = nondet_uint(); g_mul_n = 0;", "mul_assign(&x_a, in_b);"),
                      desc=f"{cls} operator*= on two elements: _multiply is called once on the two representatives and its result is stored"))
        con = f"""
__CPROVER_ensures(__CPROVER_return_value == (f1.element_ == f2.element_))
__CPROVER_assigns()
"""
        fn = Fn(pr.path, rf"friend bool operator==\(const {cls}& f1,\s*const {cls}& f2\)", "eq", con, sig_subs=[(r"operator==", "eq")], scopes=SC, canary=(r"==", "!="))
        U.append(Unit(f"{k}.operator.eq", "C10", [fn], enforce="eq", typedefs=TD_U, globals_=G, inputs=["in_a", "in_b"],
                      harness=H(f"  {cls} in_a, in_b; in_a.element_ = nondet_uint(); in_b.element_ = nondet_uint();", "eq(in_a, in_b);"),
                      desc=f"{cls} operator== on two elements: equality of the reduced representatives"))
        # element (op)= integer: the integer is converted by _get_value (replaced by its contract), binding unsigned int
        td = dict(TD_U)
        td["Integer_type"] = "unsigned int"
        gv = fn_gvs(pr, "unsigned int", signed=False, name="_get_value")
        for opname, opre, leaf, leaf_fn, SPEC in (("add_assign_int", r"\+=", "_add", fn_add(pr), "ADDMOD"), ("sub_assign_int", r"-=", "_subtract", fn_sub(pr), "SUBMOD")):
            con = f"""
__CPROVER_requires({P} >= 2 && f->element_ < {P})
__CPROVER_ensures(f->element_ == {SPEC}(__CPROVER_old(f->element_), RES_U(v, {P}), {P}))
__CPROVER_assigns(f->element_)
"""
            fn = Fn(pr.path, rf"friend void operator{opre}\({cls}& f, const Integer_type& v\)", opname, con, sig_subs=[(rf"operator{opre}", opname)], scopes=SC,
                    canary=(r"_get_value\(v\)", "v"))
            U.append(Unit(f"{k}.operator.{opname}", "C10", [gv, leaf_fn, fn], enforce=opname, replace=["_get_value", leaf], typedefs=td, globals_=G,
                          inputs=["in_a", "in_v", P], runs=[Run(backend="z3", timeout=240)],
                          harness=H(f"  {cls} in_a; in_a.element_ = nondet_uint(); unsigned int in_v = nondet_uint(); {cls} x_a = in_a; {P} = nondet_uint();", f"{opname}(&x_a, in_v);"),
                          desc=f"{cls} operator{opre.replace(chr(92), '')} with an unsigned integer: the integer is reduced first, then the exact result reduced is stored"))


def R_(x, P):
    return f"RES_U({x}, {P})"


def ops_units(pr, U, thorough):
    """add/subtract/multiply/fused/are_equal wrappers: callees replaced by their (separately enforced) contracts."""
    k, P, path = pr.key, pr.P, pr.path
    CALLS = {"get_value": "get_value_u"}
    # by-reference operands: the harness passes the address of a local (no __CPROVER_is_fresh: in enforce mode it
    # would re-point the parameter to a fresh object and the counterexample could not be read back from the inputs)
    fresh = lambda v: ""
    base = f"__CPROVER_requires({P} >= 2)\n"
    old = lambda v: f"__CPROVER_old(*{v})"
    gv = fn_gvu(pr)
    G = pr.globals_ + GHOST_MUL
    mulg = fn_mul(pr, contract=c_mul_ghost(pr.Pleaf, "@1@", "@2@"), loops=False, canary=False)

    def unit(name, sig, contract, callee_fns, replace, decls, call, inputs, canary, runs=None, replay_op=None, desc=""):
        fn = Fn(path, sig, name, contract, calls=CALLS, canary=canary)
        U.append(Unit(f"{k}.{name}", "C10", callee_fns + [fn], enforce=name, replace=replace, typedefs=TD_U,
                      globals_=G, inputs=inputs + [P], runs=runs,
                      replay=(mk_replay_native(k) if k in NATIVE_CLASS else mk_replay(k + ("3" if len(inputs) == 3 else ""), replay_op or name, inputs + [P])),
                      harness=H(f"  {decls} {P} = nondet_uint(); g_mul_n = 0;", call), desc=desc))

    # every obligation of the wrappers on z3: the assumed callee contracts contain `%`; MiniSat handles each
    # obligation alone in < 1 s but not the joint multi-property run (measured: > 120 s), z3 shares the terms (17 s)
    RUNS_EQ = [Run(backend="z3", timeout=240, label="all-z3")]
    # -- add / subtract
    for op, leaf, SPEC, mut in (("add", "_add", "ADDMOD", (r"get_value_u\(e2\)", "e2")),
                                ("subtract", "_subtract", "SUBMOD", (r"get_value_u\(e2\)", "e2"))):
        leaf_fn = fn_add(pr) if leaf == "_add" else fn_sub(pr)
        variants = [(op, f"Element {op}\\(Element e1, Element e2\\) const", None)]
        if op == "add":
            variants.append(("add_inplace", r"void add_inplace\(Element& e1, Element e2\) const", "e1"))
        else:
            variants.append(("subtract_inplace_front", r"void subtract_inplace_front\(Element& e1, Element e2\) const", "e1"))
            variants.append(("subtract_inplace_back", r"void subtract_inplace_back\(Element e1, Element& e2\) const", "e2"))
        for name, sig, ref in variants:
            mut = (r"get_value_u\(e1\)", "e1") if ref == "e2" else mut
            x1 = old("e1") if ref == "e1" else "e1"
            x2 = old("e2") if ref == "e2" else "e2"
            res = f"*{ref}" if ref else "__CPROVER_return_value"
            c = base + (fresh(ref) if ref else "") + \
                f"__CPROVER_ensures({res} == {SPEC}({R_(x1, P)}, {R_(x2, P)}, {P}))\n" + \
                f"__CPROVER_ensures({res} < {P})\n" + \
                (f"__CPROVER_assigns(*{ref})\n" if ref else "__CPROVER_assigns()\n")
            a1 = "&x_e1" if ref == "e1" else "in_e1"
            a2 = "&x_e2" if ref == "e2" else "in_e2"
            unit(name, sig, c, [gv, leaf_fn], ["get_value_u", leaf], "unsigned int in_e1, in_e2; unsigned int x_e1 = in_e1, x_e2 = in_e2;",
                 f"{name}({a1}, {a2});", ["in_e1", "in_e2"], mut, runs=RUNS_EQ, replay_op=op,
                 desc=f"{name}: exact {op} of the residues, reduced; only the designated operand is written")
    # -- multiply: the residues are forwarded to _multiply and its result is returned (ghost call record)
    for name, sig, ref in (("multiply", r"Element multiply\(Element e1, Element e2\) const", None),
                           ("multiply_inplace", r"void multiply_inplace\(Element& e1, Element e2\) const", "e1")):
        x1 = old("e1") if ref else "e1"
        res = f"*{ref}" if ref else "__CPROVER_return_value"
        c = base + (fresh(ref) if ref else "") + \
            f"__CPROVER_ensures(g_mul_n == 1 && g_mul_a == {R_(x1, P)} && g_mul_b == {R_('e2', P)} && {res} == g_mul_r)\n" + \
            f"__CPROVER_ensures({res} < {P})\n" + \
            (f"__CPROVER_assigns(*{ref}, g_mul_a, g_mul_b, g_mul_r, g_mul_n)\n" if ref else "__CPROVER_assigns(g_mul_a, g_mul_b, g_mul_r, g_mul_n)\n")
        a1 = "&x_e1" if ref else "in_e1"
        unit(name, sig, c, [gv, mulg], ["get_value_u", "_multiply"], "unsigned int in_e1, in_e2; unsigned int x_e1 = in_e1;",
             f"{name}({a1}, in_e2);", ["in_e1", "in_e2"], (r"get_value_u\(e2\)", "e2"), runs=RUNS_EQ, replay_op="multiply",
             desc=f"{name}: _multiply is called exactly once, on the two residues, and its result is what is returned/stored")
    # -- fused operations on reduced operands.  clause 1: which expression is reduced (shared with the code);
    #    clause 2: that expression does not wrap in 32 bits, so clause 1 is the exact result (refuted where it wraps: F6)
    PMAX = "65536u"     # primes below 2^16 (property); small multi-fields document P^2 fitting an unsigned int
    for fam, expr32, expr64, sigs in (
        ("multiply_and_add", "({e} * {m} + {a})", "((uint64_t){e} * (uint64_t){m} + (uint64_t){a})",
         [("multiply_and_add", r"Element multiply_and_add\(Element e, Element m, Element a\) const", None, "e, m, a"),
          ("multiply_and_add_inplace_front", r"void multiply_and_add_inplace_front\(Element& e, Element m, Element a\) const", "e", "e, m, a"),
          ("multiply_and_add_inplace_back", r"void multiply_and_add_inplace_back\(Element e, Element m, Element& a\) const", "a", "e, m, a")]),
        ("add_and_multiply", "(({e} + {a}) * {m})", "(((uint64_t){e} + (uint64_t){a}) * (uint64_t){m})",
         [("add_and_multiply", r"Element add_and_multiply\(Element e, Element a, Element m\) const", None, "e, a, m"),
          ("add_and_multiply_inplace_front", r"void add_and_multiply_inplace_front\(Element& e, Element a, Element m\) const", "e", "e, a, m"),
          ("add_and_multiply_inplace_back", r"void add_and_multiply_inplace_back\(Element e, Element a, Element& m\) const", "m", "e, a, m")])):
        for name, sig, ref, order in sigs:
            nm = {v: (old(v) if v == ref else v) for v in ("e", "m", "a")}
            red = " && ".join(f"{('*' + v) if v == ref else v} < {P}" for v in ("e", "m", "a"))
            res = f"*{ref}" if ref else "__CPROVER_return_value"
            c = f"__CPROVER_requires({P} >= 2 && {P} < {PMAX})\n" + (fresh(ref) if ref else "") + \
                f"__CPROVER_requires({red})\n" + \
                f"__CPROVER_ensures({res} == RES_U({expr32.format(**nm)}, {P}))\n" + \
                f"__CPROVER_ensures({expr64.format(**nm)} <= 4294967295ull)\n" + \
                f"__CPROVER_ensures({res} < {P})\n" + \
                (f"__CPROVER_assigns(*{ref})\n" if ref else "__CPROVER_assigns()\n")
            args = ", ".join(("&x_" + v) if v == ref else ("in_" + v) for v in order.split(", "))
            unit(name, sig, c, [gv], ["get_value_u"], "unsigned int in_e, in_m, in_a; unsigned int x_e = in_e, x_m = in_m, x_a = in_a;", f"{name}({args});",
                 ["in_e", "in_m", "in_a"], (r"\+", "-"),
                 runs=[Run(only=["*.postcondition.1"], backend="z3", timeout=120, label="value"),
                       Run(only=["*.postcondition.2"], backend="sat", timeout=120, label="no-wrap"),
                       Run(exclude=["*.postcondition.1", "*.postcondition.2"], backend="sat", timeout=120, label="rest")],
                 replay_op=fam, desc=f"{name}: reduces exactly the documented expression; that expression must not wrap in 32 bits")
    # -- comparison by residue
    c = base + f"__CPROVER_ensures(__CPROVER_return_value == ({R_('e1', P)} == {R_('e2', P)}))\n__CPROVER_assigns()\n"
    unit("are_equal", r"bool are_equal\(Element e1, Element e2\) const", c, [gv], ["get_value_u"],
         "unsigned int in_e1, in_e2;", "are_equal(in_e1, in_e2);", ["in_e1", "in_e2"], (r"==", "!="), runs=RUNS_EQ,
         desc="are_equal: comparison by residue")


def gmp_units(U):
    """Multi_field_operators.h (Element = mpz_class): mpz_class bound to a 64-bit integer (P < 2^31) with operand bounds that keep
    every intermediate value in range (so machine arithmetic equals GMP's), GMP calls as assumed contracts
    (contracts/c10_gmp_glue.h).  get_value_inplace is enforced against the canonical representative; every other
    operation is enforced with get_value_inplace replaced by that contract."""
    path = F + "Multi_field_operators.h"
    P = "productOfAllCharacteristics_"
    G = "typedef mpz_class Element; typedef mpz_class Characteristic;\nCharacteristic productOfAllCharacteristics_;\nlong nondet_long(void);\n"
    GS = [(r"(\(\*\w+\)|\b\w+)\.get_mpz_t\(\)", r"\1", 0), (r"\bmpz_mod\(", "VP_MPZ_MOD(", 0), (r"\bmpz_sub\(", "VP_MPZ_SUB(", 0),
          (r"get_value_inplace\(\(\*(\w+)\)\)", r"get_value_inplace(\1)", 0),
          (r"(\(\*\w+\)|\b\w+) \*= ([^;]+);", r"\1 = vp_mpz_mul(\1, \2);", 0), (r"\b(\w+) \* (\w+)\b", r"vp_mpz_mul(\1, \2)", 0)]
    PRE = f"{P} >= 2 && {P} < BNDP"
    c_gvi = f"""
__CPROVER_requires({PRE} && *e > -VP_LMAX)
__CPROVER_ensures(*e == NORM(__CPROVER_old(*e), {P}))
__CPROVER_assigns(*e)
"""
    def f_gvi(canary=None):
        return Fn(path, r"void get_value_inplace\(Element& e\) const", "get_value_inplace", c_gvi, subs=GS, canary=canary)
    U.append(Unit("mf_ops.get_value_inplace", "C10", [f_gvi((r">= productOfAllCharacteristics_", "> productOfAllCharacteristics_"))], enforce="get_value_inplace",
                  includes=["c10_gmp_glue.h"], globals_=G, inputs=["in_e", P], replay=mk_replay_native("mf_ops"),
                  runs=[Run(backend="sat", timeout=300)],
                  harness=H(f"  long in_e = nondet_long(); long x_e = in_e; {P} = nondet_long();", "get_value_inplace(&x_e);"),
                  desc="Multi_field_operators::get_value_inplace (GMP): the element becomes the canonical representative in [0, P) - unchanged inside [0, P), shifted by P inside [-P, 0), mpz_mod otherwise"))
    # operations: (name, signature regex, written operand or None, exact expression over the operands, operand bound, extra subs, call, canary)
    B61, B31 = "BNDS", "BNDP"
    def rng(vs, b):
        return " && ".join(f"{v} > -({b}) && {v} < ({b})" for v in vs)
    OPS = [
        ("add_inplace", r"void add_inplace\(Element& e1, const Element& e2\) const", "e1", "{e1} + {e2}", B61, ["e1", "e2"], (r"\+=", "-=")),
        ("subtract_inplace_front", r"void subtract_inplace_front\(Element& e1, const Element& e2\) const", "e1", "{e1} - {e2}", B61, ["e1", "e2"], (r"-=", "+=")),
        ("subtract_inplace_back", r"void subtract_inplace_back\(const Element& e1, Element& e2\) const", "e2", "{e1} - {e2}", B61, ["e1", "e2"], (r"VP_MPZ_SUB\(\(\*e2\), e1, \(\*e2\)\)", "VP_MPZ_SUB((*e2), (*e2), e1)")),
        ("multiply_inplace", r"void multiply_inplace\(Element& e1, const Element& e2\) const", "e1", "VP_MUL({e1}, {e2})", B31, ["e1", "e2"], (r"vp_mpz_mul\(\(\*e1\), e2\)", "vp_mpz_mul(e2, e2)")),
        ("multiply_and_add_inplace_front", r"void multiply_and_add_inplace_front\(Element& e, const Element& m, const Element& a\) const", "e", "VP_MUL({e}, {m}) + {a}", B31, ["e", "m", "a"], (r"\+=", "-=")),
        ("multiply_and_add_inplace_back", r"void multiply_and_add_inplace_back\(const Element& e, const Element& m, Element& a\) const", "a", "{a} + VP_MUL({e}, {m})", B31, ["e", "m", "a"], (r"vp_mpz_mul\(e, m\)", "vp_mpz_mul(m, m)")),
        ("add_and_multiply_inplace_front", r"void add_and_multiply_inplace_front\(Element& e, const Element& a, const Element& m\) const", "e", "VP_MUL({e} + {a}, {m})", B31, ["e", "a", "m"], (r"\+=", "-=")),
        ("add_and_multiply_inplace_back", r"void add_and_multiply_inplace_back\(const Element& e, const Element& a, Element& m\) const", "m", "VP_MUL({m}, {e} + {a})", B31, ["e", "a", "m"], (r"e \+ a", "e - a")),
    ]
    for name, sig, ref, expr, bnd, params, canary in OPS:
        cur = {v: (f"*{v}" if v == ref else v) for v in params}
        old = {v: (f"__CPROVER_old(*{v})" if v == ref else v) for v in params}
        con = f"""
__CPROVER_requires({PRE} && {rng([cur[v] for v in params], bnd)})
__CPROVER_ensures(*{ref} == NORM({expr.format(**old)}, {P}))
__CPROVER_assigns(*{ref})
"""
        fn = Fn(path, sig, name, con, subs=GS, canary=canary)
        decl = " ".join(f"long in_{v} = nondet_long(); long x_{v} = in_{v};" for v in params)
        args = ", ".join((f"&x_{v}" if v == ref else f"in_{v}") for v in params)
        U.append(Unit(f"mf_ops.{name}", "C10", [f_gvi(), fn], enforce=name, replace=["get_value_inplace"], includes=["c10_gmp_glue.h"], globals_=G,
                      inputs=[f"in_{v}" for v in params] + [P], replay=mk_replay_native("mf_ops"), runs=[Run(backend="sat", timeout=300)],
                      harness=H(f"  {decl} {P} = nondet_long();", f"{name}({args});"),
                      desc=f"Multi_field_operators::{name} (GMP): the designated operand becomes the canonical representative of the exact integer expression {expr.format(**{v: v for v in params})}; nothing else is written"))
    # are_equal: comparison by residue
    c_gv = f"""
__CPROVER_requires({PRE} && e > -VP_LMAX)
__CPROVER_ensures(__CPROVER_return_value == NORM(e, {P}))
__CPROVER_assigns()
"""
    f_gv = Fn(path, r"Element get_value\(Element e\) const", "get_value", c_gv, subs=GS + [(r"get_value_inplace\(e\)", "get_value_inplace(&e)")],
              canary=(r"return e;", "return e + 1;"))
    U.append(Unit("mf_ops.get_value", "C10", [f_gvi(), f_gv], enforce="get_value", replace=["get_value_inplace"], includes=["c10_gmp_glue.h"], globals_=G,
                  inputs=["in_e", P], replay=mk_replay_native("mf_ops"), runs=[Run(backend="sat", timeout=300)],
                  harness=H(f"  long in_e = nondet_long(); {P} = nondet_long();", "get_value(in_e);"),
                  desc="Multi_field_operators::get_value (GMP): the canonical representative of the argument"))
    f_gv2 = Fn(path, r"Element get_value\(Element e\) const", "get_value", c_gv, subs=GS + [(r"get_value_inplace\(e\)", "get_value_inplace(&e)")])
    f_eq = Fn(path, r"bool are_equal\(const Element& e1, const Element& e2\) const", "are_equal", f"""
__CPROVER_requires({PRE} && {rng(['e1', 'e2'], 'BNDS')})
__CPROVER_ensures(__CPROVER_return_value == (NORM(e1, {P}) == NORM(e2, {P})))
__CPROVER_assigns()
""", subs=GS, canary=(r"==", "!="))
    U.append(Unit("mf_ops.are_equal", "C10", [f_gvi(), f_gv2, f_eq], enforce="are_equal", replace=["get_value"], includes=["c10_gmp_glue.h"], globals_=G,
                  inputs=["in_e1", "in_e2", P], replay=mk_replay_native("mf_ops"), runs=[Run(backend="sat", timeout=300)],
                  harness=H(f"  long in_e1 = nondet_long(), in_e2 = nondet_long(); {P} = nondet_long();", "are_equal(in_e1, in_e2);"),
                  desc="Multi_field_operators::are_equal (GMP): comparison of the canonical representatives"))

def gmp_element_units(U):
    """Multi_field.h / Multi_field_shared.h (GMP element classes): the friend operators, same binding and assumed GMP
    contracts as gmp_units.  R(v) = v inside [0, P), mpz_mod(v, P) elsewhere is the residue of an arbitrary integer."""
    P = "productOfAllCharacteristics_"
    GS = [(r"(\(\*\w+\)(?:\.\w+)?|\b\w+(?:\.\w+)?)\.get_mpz_t\(\)", r"\1", 0), (r"\bmpz_mod\(", "VP_MPZ_MOD(", 0), (r"\bmpz_sub\(", "VP_MPZ_SUB(", 0),
          (r"(\(\*\w+\)\.\w+|\b\w+(?:\.\w+)?) \*= ([^;]+);", r"\1 = vp_mpz_mul(\1, \2);", 0), (r"Element (\w+)\((\w+)\);", r"Element \1 = \2;", 0)]
    PRE = f"{P} >= 2 && {P} < BNDP"
    RV = f"((v >= 0 && v < {P}) ? v : __CPROVER_uninterpreted_mpz_mod(v, {P}))"
    for key, hdr, cls in (("mf_el", "Multi_field.h", "Multi_field_element"), ("mf_sh", "Multi_field_shared.h", "Shared_multi_field_element")):
        path = F + hdr
        G = f"typedef mpz_class Element; typedef mpz_class Characteristic;\ntypedef struct {{ Element element_; }} {cls};\nCharacteristic {P};\nlong nondet_long(void);\n"
        inv = lambda x: f"{x}.element_ >= 0 && {x}.element_ < {P}"   # noqa: E731
        OPS = [
            ("iadd_ff", rf"friend void operator\+=\({cls}& f1, {cls} const& f2\)", "operator\\+=", "f1", f"NORM(__CPROVER_old((*f1).element_) + f2.element_, {P})", f"{inv('(*f1)')} && {inv('f2')}", ["f1:E", "f2:E"], (r"\+=", "-=")),
            ("iadd_fv", rf"friend void operator\+=\({cls}& f, (?:const Element& v|Element const v)\)", "operator\\+=", "f", f"NORM(__CPROVER_old((*f).element_) + v, {P})", f"{inv('(*f)')} && v > -BNDS && v < BNDS", ["f:E", "v:I"], (r"\+=", "-=")),
            ("add_vf", rf"friend Element operator\+\(Element v, {cls} const& f\)", "operator\\+", None, f"NORM(v + f.element_, {P})", f"{inv('f')} && v > -BNDS && v < BNDS", ["v:I", "f:E"], (r"\+=", "-=")),
            ("isub_ff", rf"friend void operator-=\({cls}& f1, {cls} const& f2\)", "operator-=", "f1", f"NORM(__CPROVER_old((*f1).element_) - f2.element_, {P})", f"{inv('(*f1)')} && {inv('f2')}", ["f1:E", "f2:E"], (r"-=", "+=")),
            ("isub_fv", rf"friend void operator-=\({cls}& f, (?:const Element& v|Element const v)\)", "operator-=", "f", f"NORM(__CPROVER_old((*f).element_) - v, {P})", f"{inv('(*f)')} && v > -BNDS && v < BNDS", ["f:E", "v:I"], (r"-=", "+=")),
            ("sub_vf", rf"friend Element operator-\(Element v, {cls} const& f\)", "operator-", None, f"NORM({RV} - f.element_, {P})", f"{inv('f')} && v > -BNDS && v < BNDS", ["v:I", "f:E"], (r"v -= f\.element_;", "v += f.element_;")),
            ("imul_ff", rf"friend void operator\*=\({cls}& f1, {cls} const& f2\)", "operator\\*=", "f1", f"NORM(VP_MUL(__CPROVER_old((*f1).element_), f2.element_), {P})", f"{inv('(*f1)')} && {inv('f2')}", ["f1:E", "f2:E"], (r"vp_mpz_mul\(\(\*f1\)\.element_, f2\.element_\)", "vp_mpz_mul(f2.element_, f2.element_)")),
            ("imul_fv", rf"friend void operator\*=\({cls}& f, (?:const Element& v|Element const v)\)", "operator\\*=", "f", f"NORM(VP_MUL(__CPROVER_old((*f).element_), v), {P})", f"{inv('(*f)')} && v > -BNDP && v < BNDP", ["f:E", "v:I"], (r"vp_mpz_mul\(\(\*f\)\.element_, v\)", "vp_mpz_mul(v, v)")),
            ("mul_vf", rf"friend Element operator\*\(Element v, {cls} const& f\)", "operator\\*", None, f"NORM(VP_MUL(v, f.element_), {P})", f"{inv('f')} && v > -BNDP && v < BNDP", ["v:I", "f:E"], (r"vp_mpz_mul\(v, f\.element_\)", "vp_mpz_mul(v, v)")),
            ("eq_vf", rf"friend bool operator==\(const Element& v, const {cls}& f\)", "operator==", None, f"({RV} == f.element_)", f"{inv('f')} && v > -BNDS && v < BNDS", ["v:I", "f:E"], (r"return e == f\.element_;", "return e != f.element_;")),
            ("eq_fv", rf"friend bool operator==\(const {cls}& f, const Element& v\)", "operator==", None, f"({RV} == f.element_)", f"{inv('f')} && v > -BNDS && v < BNDS", ["f:E", "v:I"], (r"return e == f\.element_;", "return e != f.element_;")),
        ]
        for name, sig, opname, ref, spec, pre, params, canary in OPS:
            res = f"(*{ref}).element_" if ref else "__CPROVER_return_value"
            con = f"""
__CPROVER_requires({PRE} && {pre})
__CPROVER_ensures({res} == {spec})
__CPROVER_assigns({'(*' + ref + ').element_' if ref else ''})
"""
            fn = Fn(path, sig, f"{key}_{name}", con, sig_subs=[(opname, f"{key}_{name}")], subs=GS, canary=canary)
            decls, args, inputs = [], [], []
            for prm in params:
                nm, ty = prm.split(":")
                if ty == "E":
                    decls.append(f"{cls} in_{nm}; in_{nm}.element_ = nondet_long(); {cls} x_{nm} = in_{nm};")
                    args.append(f"&x_{nm}" if nm == ref else f"in_{nm}")
                    inputs.append(f"in_{nm}")
                else:
                    decls.append(f"long in_{nm} = nondet_long();")
                    args.append(f"in_{nm}")
                    inputs.append(f"in_{nm}")
            U.append(Unit(f"{key}.{name}", "C10", [fn], enforce=f"{key}_{name}", includes=["c10_gmp_glue.h"], globals_=G,
                          inputs=inputs + [P], replay=mk_replay_native(key), runs=[Run(backend="sat", timeout=300)],
                          harness=H("  " + " ".join(decls) + f" {P} = nondet_long();", f"{key}_{name}({', '.join(args)});"),
                          desc=f"{cls} (GMP), {opname.replace(chr(92), '')} [{name}]: on a reduced element and an arbitrary integer the result is the canonical representative of the exact expression (comparison: by residue)"))

def gmp_cohomology_units(U):
    """Persistent_cohomology/Multi_field.h (the multi-field coefficient class of the cohomology engine, Element = mpz_class)."""
    path = "src/Persistent_cohomology/include/gudhi/Persistent_cohomology/Multi_field.h"
    P = "prod_characteristics_"
    NPR = 3
    G = (f"typedef mpz_class Element;\n#define NPR {NPR}\nElement {P}; Element mult_id_all; Element add_id_all; int primes_[NPR]; unsigned primes_n; Element Uvect_[NPR];\n"
         "Element g_mi; Element g_mi_arg; unsigned g_mi_calls;\nlong nondet_long(void); int nondet_int(void); unsigned nondet_uint(void);\n"
         "Element multiplicative_identity_all(void); Element additive_identity(void); Element multiplicative_identity(Element Q);\n")
    GS = [(r"(\(\*\w+\)|\b\w+)\.get_mpz_t\(\)", r"\1", 0), (r"\bmpz_gcd\(", "VP_MPZ_GCD(", 0), (r"\bmpz_invert\(", "VP_MPZ_INVERT(", 0),
          (r"\((\w+) % (\w+\[\w+\])\)", r"(vp_mpz_tdiv_r(\1, \2))", 0),
          (r"\(((?:[^()%]|\([^()]*\))*)\) % (\w+(?:\[\w+\])?)", r"vp_mpz_tdiv_r(\1, \2)", 0),
          (r"\b(\w+) / (\w+)\b", r"vp_mpz_tdiv_q(\1, \2)", 0),
          (r"(-?\b\w+) \* (\w+\([^()]*\)|\w+)", r"vp_mpz_mul(\1, \2)", 0),
          (r"primes_\.size\(\)", "primes_n", 0), (r"\(Element\)1\b", "1", 0),
          (r"std::pair<Element, Element>\(([^;]*)\);", r"(vp_pair){\1};", 0), (r"return \{ ([^;]*) \};", r"return (vp_pair){ \1 };", 0),
          (r"multiplicative_identity\(\)", "multiplicative_identity_all()", 0)]
    PRE = f"{P} >= 2 && {P} < BNDP"
    red = lambda v: f"{v} >= 0 && {v} < {P}"   # noqa: E731
    # plus_times_equal: x + w * y, reduced into [0, P)
    c_pte = f"""
__CPROVER_requires({PRE} && {red('x')} && {red('y')} && {red('w')} && VP_MUL(w, y) > -BNDP * (BNDP / 2) && VP_MUL(w, y) < BNDP * (BNDP / 2))
__CPROVER_ensures(__CPROVER_return_value == (TDIVR(x + VP_MUL(w, y), {P}) < 0 ? TDIVR(x + VP_MUL(w, y), {P}) + {P} : TDIVR(x + VP_MUL(w, y), {P})))
__CPROVER_ensures(__CPROVER_return_value >= 0 && __CPROVER_return_value < {P})
__CPROVER_assigns()
"""
    def f_pte(canary=None):
        return Fn(path, r"Element plus_times_equal\(const Element& x, const Element& y, const Element& w\)", "plus_times_equal", c_pte, subs=GS, canary=canary)
    U.append(Unit("mf_coh.plus_times_equal", "C10", [f_pte((r"if \(result < 0\)", "if (result > 0)"))], enforce="plus_times_equal", includes=["c10_gmp_glue.h"], globals_=G,
                  inputs=["in_x", "in_y", "in_w", P], replay=mk_replay_native("mf_coh"), runs=[Run(backend="sat", timeout=300)],
                  harness=H(f"  long in_x = nondet_long(), in_y = nondet_long(), in_w = nondet_long(); {P} = nondet_long();", "plus_times_equal(in_x, in_y, in_w);"),
                  desc="persistent_cohomology::Multi_field::plus_times_equal (GMP): x + w*y reduced with the truncating operator% and lifted into [0, P)"))
    for nm, sig, spec, call in (("times", r"Element times\(const Element& y, const Element& w\)", "0 + VP_MUL(w, y)", "times(in_y, in_w);"),
                                ("plus_equal", r"Element plus_equal\(const Element& x, const Element& y\)", "x + VP_MUL(1, y)", "plus_equal(in_x, in_y);")):
        prm = ["y", "w"] if nm == "times" else ["x", "y"]
        mb = "VP_MUL(w, y) > -BNDP * (BNDP / 2) && VP_MUL(w, y) < BNDP * (BNDP / 2)" if nm == "times" else "VP_MUL(1, y) > -BNDP * (BNDP / 2) && VP_MUL(1, y) < BNDP * (BNDP / 2)"
        con = f"""
__CPROVER_requires({PRE} && {' && '.join(red(v) for v in prm)} && {mb})
__CPROVER_ensures(__CPROVER_return_value == (TDIVR({spec}, {P}) < 0 ? TDIVR({spec}, {P}) + {P} : TDIVR({spec}, {P})))
__CPROVER_ensures(__CPROVER_return_value >= 0 && __CPROVER_return_value < {P})
__CPROVER_assigns()
"""
        fn = Fn(path, sig, nm, con, subs=GS, canary=(r"plus_times_equal\((\w+), (\w+), (\w+)\)", r"plus_times_equal(\1, \2, \2)"))
        U.append(Unit(f"mf_coh.{nm}", "C10", [f_pte(), fn], enforce=nm, replace=["plus_times_equal"], includes=["c10_gmp_glue.h"], globals_=G,
                      inputs=["in_x", "in_y", "in_w", P], replay=mk_replay_native("mf_coh"), runs=[Run(backend="sat", timeout=300)],
                      harness=H(f"  long in_x = nondet_long(), in_y = nondet_long(), in_w = nondet_long(); {P} = nondet_long();", call),
                      desc=f"persistent_cohomology::Multi_field::{nm} (GMP): plus_times_equal on the right operands"))
    # times_minus: the result is a reduced element (its value -x*y mod P is swept natively)
    f_tm = Fn(path, r"Element times_minus\(const Element& x, const Element& y\)", "times_minus", f"""
__CPROVER_requires({PRE} && {red('x')} && {red('y')})
__CPROVER_ensures(__CPROVER_return_value >= 0 && __CPROVER_return_value < {P})
__CPROVER_assigns()
""", subs=GS, canary=(r"if \((\w+) < 0\) \1 \+= prod_characteristics_;", r"if (\1 <= 0) \1 += prod_characteristics_;"))
    U.append(Unit("mf_coh.times_minus", "C10", [f_tm], enforce="times_minus", includes=["c10_gmp_glue.h"], globals_=G,
                  inputs=["in_x", "in_y", P], replay=mk_replay_native("mf_coh"), runs=[Run(backend="sat", timeout=300)],
                  harness=H(f"  long in_x = nondet_long(), in_y = nondet_long(); {P} = nondet_long();", "times_minus(in_x, in_y);"),
                  desc="persistent_cohomology::Multi_field::times_minus (GMP): the result is a reduced element of [0, P) - in particular 0, not P, when x*y is a multiple of P"))
    # multiplicative_identity(Q): sum of the idempotents of the primes dividing Q, reduced modulo the WHOLE product
    Gmi = G + f"""
static Element x_mi(Element Q) {{ Element s = 0; for (unsigned k = 0; k < NPR; k++) if (k < primes_n && x_tdiv_r(Q, primes_[k]) == 0) s = x_tdiv_r(s + Uvect_[k], {P}); return s; }}
static bool uv_ok(void) {{ bool ok = primes_n <= NPR; for (unsigned k = 0; k < NPR; k++) ok = ok && primes_[k] >= 2 && Uvect_[k] >= 0 && Uvect_[k] < {P}; return ok; }}
"""
    f_mia = Fn(path, r"const Element& multiplicative_identity\(\) const", "multiplicative_identity_all", "", sig_subs=[(r"const Element&", "Element")])
    f_mi = Fn(path, r"Element multiplicative_identity\(Element Q\)", "multiplicative_identity", f"""
__CPROVER_requires({PRE} && uv_ok() && Q >= 1 && Q <= {P})
__CPROVER_ensures(__CPROVER_return_value == (Q == {P} ? mult_id_all : x_mi(Q)))
__CPROVER_assigns()
""", subs=GS, canary=(r"Uvect_\[idx\]", "Uvect_[0]"))
    U.append(Unit("mf_coh.multiplicative_identity", "C10", [f_mia, f_mi], enforce="multiplicative_identity", includes=["c10_gmp_glue.h"], globals_=Gmi, unwind=NPR + 2, route="B",
                  bound=f"ranges with at most {NPR} primes; primes, idempotents and Q symbolic", inputs=["in_q", P, "primes_n"], replay=mk_replay_native("mf_coh"),
                  runs=[Run(backend="sat", timeout=300)],
                  harness=H(f"  long in_q = nondet_long(); {P} = nondet_long(); primes_n = nondet_uint();\n  for (int k = 0; k < NPR; k++) {{ primes_[k] = nondet_int(); Uvect_[k] = nondet_long(); }}", "multiplicative_identity(in_q);"),
                  desc="persistent_cohomology::Multi_field::multiplicative_identity(Q) (GMP): the sum of the idempotents U_p over the primes p dividing Q, each partial sum reduced modulo the product of ALL the primes of the range"))
    # inverse(x, QS)
    Ginv = G + "typedef struct { Element first; Element second; } vp_pair;\n"
    stub_mi = Fn(path, r"Element multiplicative_identity\(Element Q\)", "multiplicative_identity", """
__CPROVER_ensures(__CPROVER_return_value == g_mi && g_mi_arg == Q && g_mi_calls == __CPROVER_old(g_mi_calls) + 1)
__CPROVER_assigns(g_mi_arg, g_mi_calls)
""", subs=GS)
    f_mia2 = Fn(path, r"const Element& multiplicative_identity\(\) const", "multiplicative_identity_all", "", sig_subs=[(r"const Element&", "Element")])
    f_ai = Fn(path, r"const Element& additive_identity\(\) const", "additive_identity", "", sig_subs=[(r"const Element&", "Element")])
    GCD, INV = "__CPROVER_uninterpreted_mpz_gcd(x, QS)", "__CPROVER_uninterpreted_mpz_invert"
    f_inv = Fn(path, r"std::pair<Element, Element> inverse\(Element x, Element QS\)", "inverse", f"""
__CPROVER_requires({PRE} && {red('x')} && QS >= 1 && QS <= {P} && g_mi_calls == 0 && g_mi >= 0 && g_mi < {P})
__CPROVER_ensures({GCD} != QS || (__CPROVER_return_value.first == add_id_all && __CPROVER_return_value.second == mult_id_all && g_mi_calls == 0))
__CPROVER_ensures({GCD} == QS || (__CPROVER_return_value.second == TDIVQ(QS, {GCD}) && g_mi_calls == 1 && g_mi_arg == TDIVQ(QS, {GCD})))
__CPROVER_ensures({GCD} == QS || __CPROVER_return_value.first == TDIVR(VP_MUL({INV}(x, TDIVQ(QS, {GCD})), g_mi), {P}))
__CPROVER_assigns(g_mi_arg, g_mi_calls)
""", sig_subs=[(r"std::pair<Element, Element>", "vp_pair")], subs=GS, canary=(r"QR == QS", "QR != QS"))
    U.append(Unit("mf_coh.inverse", "C10", [f_ai, f_mia2, stub_mi, f_inv], enforce="inverse", replace=["multiplicative_identity"], includes=["c10_gmp_glue.h"], globals_=Ginv,
                  inputs=["in_x", "in_qs", P], replay=mk_replay_native("mf_coh"), runs=[Run(backend="sat", timeout=300)],
                  harness=H(f"  long in_x = nondet_long(), in_qs = nondet_long(); {P} = nondet_long(); g_mi_calls = 0;", "inverse(in_x, in_qs);"),
                  desc="persistent_cohomology::Multi_field::inverse(x, QS) (GMP): with g = gcd(x, QS): (0, 1) when g == QS; otherwise T = QS / g is returned as the invertibility sub-product and the value is invert(x, T) times the partial identity OF T, reduced modulo the whole product"))

def gmp_inverse_units(U):
    """Multi_field_operators (GMP): get_partial_multiplicative_identity, get_partial_inverse, get_inverse."""
    path = F + "Multi_field_operators.h"
    P = "productOfAllCharacteristics_"
    NPR = 3
    G = (f"typedef mpz_class Element; typedef mpz_class Characteristic;\n#define NPR {NPR}\nCharacteristic {P}; Element multiplicativeID_; unsigned primes_[NPR]; unsigned primes_n; Element partials_[NPR];\n"
         "typedef struct { Element first; Characteristic second; } vp_pair;\n"
         "Element g_pmi; Characteristic g_pmi_arg; unsigned g_pmi_calls; vp_pair g_pinv; Element g_pinv_e; Characteristic g_pinv_q; unsigned g_pinv_calls;\n"
         "long nondet_long(void); unsigned nondet_uint(void);\n"
         "Element get_partial_multiplicative_identity(Characteristic productOfCharacteristics); void get_value_inplace(Element* e); vp_pair get_partial_inverse(Element e, Characteristic productOfCharacteristics);\n")
    GS = [(r"(\(\*\w+\)|\b\w+(?:\.\w+)?)\.get_mpz_t\(\)", r"\1", 0), (r"\bmpz_mod\(", "VP_MPZ_MOD(", 0), (r"\bmpz_gcd\(", "VP_MPZ_GCD(", 0), (r"\bmpz_invert\(", "VP_MPZ_INVERT(", 0),
          (r"\((\w+) % (\w+\[\w+\])\)", r"(vp_mpz_tdiv_r(\1, \2))", 0), (r"\b(\w+) / (\w+)\b", r"vp_mpz_tdiv_q(\1, \2)", 0),
          (r"(\b\w+(?:\.\w+)?) \*= ([^;]+);", r"\1 = vp_mpz_mul(\1, \2);", 0), (r"Element (\w+)\((\w+)\);", r"Element \1 = \2;", 0),
          (r"primes_\.size\(\)", "primes_n", 0), (r"get_multiplicative_identity\(\)", "multiplicativeID_", 0),
          (r"std::pair<Element, Characteristic> (\w+)\(([^;]*)\);", r"vp_pair \1 = {\2};", 0), (r"return \{([^;]*)\};", r"return (vp_pair){\1};", 0),
          (r"get_value_inplace\((\w+(?:\.\w+)?)\);", r"get_value_inplace(&\1);", 0),
          (r"get_partial_inverse\((\w+), (\w+)\)\.first", r"get_partial_inverse(\1, \2).first", 0)]
    PRE = f"{P} >= 2 && {P} < BNDP"
    stub_gvi = Fn(path, r"void get_value_inplace\(Element& e\) const", "get_value_inplace", f"""
__CPROVER_requires({PRE} && *e > -VP_LMAX)
__CPROVER_ensures(*e == NORM(__CPROVER_old(*e), {P}))
__CPROVER_assigns(*e)
""", subs=GS)
    Gmi = G + f"""
static Element x_sum(Characteristic Q) {{ Element s = 0; for (unsigned k = 0; k < NPR; k++) if (k < primes_n && x_tdiv_r(Q, primes_[k]) == 0) s = s + partials_[k]; return s; }}
static bool tab_ok(void) {{ bool ok = primes_n <= NPR; for (unsigned k = 0; k < NPR; k++) ok = ok && primes_[k] >= 2 && partials_[k] >= 0 && partials_[k] < {P}; return ok; }}
"""
    f_pmi = Fn(path, r"Element get_partial_multiplicative_identity\(const Characteristic& productOfCharacteristics\) const", "get_partial_multiplicative_identity", f"""
__CPROVER_requires({PRE} && tab_ok() && productOfCharacteristics >= 0 && productOfCharacteristics <= {P})
__CPROVER_ensures(__CPROVER_return_value == (productOfCharacteristics == 0 ? multiplicativeID_ : NORM(x_sum(productOfCharacteristics), {P})))
__CPROVER_assigns()
""", subs=GS, canary=(r"partials_\[idx\]", "partials_[0]"))
    U.append(Unit("mf_ops.get_partial_multiplicative_identity", "C10", [stub_gvi, f_pmi], enforce="get_partial_multiplicative_identity", replace=["get_value_inplace"],
                  includes=["c10_gmp_glue.h"], globals_=Gmi, unwind=NPR + 2, route="B", bound=f"ranges with at most {NPR} primes; primes, idempotents and Q symbolic",
                  inputs=["in_q", P, "primes_n"], replay=mk_replay_native("mf_ops"), runs=[Run(backend="sat", timeout=300)],
                  harness=H(f"  long in_q = nondet_long(); {P} = nondet_long(); primes_n = nondet_uint();\n  for (int k = 0; k < NPR; k++) {{ primes_[k] = nondet_uint(); partials_[k] = nondet_long(); }}", "get_partial_multiplicative_identity(in_q);"),
                  desc="Multi_field_operators::get_partial_multiplicative_identity (GMP): the canonical representative of the sum of the idempotents of the primes dividing Q (the multiplicative identity itself for Q == 0)"))
    stub_gvi2 = Fn(path, r"void get_value_inplace\(Element& e\) const", "get_value_inplace", stub_gvi.contract, subs=GS)
    stub_pmi = Fn(path, r"Element get_partial_multiplicative_identity\(const Characteristic& productOfCharacteristics\) const", "get_partial_multiplicative_identity", f"""
__CPROVER_ensures(__CPROVER_return_value == g_pmi && g_pmi_arg == productOfCharacteristics && g_pmi_calls == __CPROVER_old(g_pmi_calls) + 1)
__CPROVER_assigns(g_pmi_arg, g_pmi_calls)
""", subs=GS)
    GCD, INV = "__CPROVER_uninterpreted_mpz_gcd(e, productOfCharacteristics)", "__CPROVER_uninterpreted_mpz_invert"
    QT = f"TDIVQ(productOfCharacteristics, {GCD})"
    f_pinv = Fn(path, r"std::pair<Element, Characteristic> get_partial_inverse\(\s*const Element& e, const Characteristic& productOfCharacteristics\) const", "get_partial_inverse", f"""
__CPROVER_requires({PRE} && e >= 0 && e < {P} && productOfCharacteristics >= 1 && productOfCharacteristics <= {P} && g_pmi_calls == 0 && g_pmi >= 0 && g_pmi < {P})
__CPROVER_requires(VP_MUL(g_pmi, {INV}(e, {QT})) > -VP_LMAX)
__CPROVER_ensures({GCD} != productOfCharacteristics || (__CPROVER_return_value.first == 0 && __CPROVER_return_value.second == multiplicativeID_ && g_pmi_calls == 0))
__CPROVER_ensures({GCD} == productOfCharacteristics || (__CPROVER_return_value.second == {QT} && g_pmi_calls == 1 && g_pmi_arg == {QT}))
__CPROVER_ensures({GCD} == productOfCharacteristics || __CPROVER_return_value.first == NORM(VP_MUL(g_pmi, {INV}(e, {QT})), {P}))
__CPROVER_assigns(g_pmi_arg, g_pmi_calls)
""", sig_subs=[(r"std::pair<Element, Characteristic>", "vp_pair")], subs=GS, canary=(r"QR == productOfCharacteristics", "QR != productOfCharacteristics"))
    U.append(Unit("mf_ops.get_partial_inverse", "C10", [stub_gvi2, stub_pmi, f_pinv], enforce="get_partial_inverse", replace=["get_value_inplace", "get_partial_multiplicative_identity"],
                  includes=["c10_gmp_glue.h"], globals_=G, inputs=["in_e", "in_q", P], replay=mk_replay_native("mf_ops"), runs=[Run(backend="sat", timeout=300)],
                  harness=H(f"  long in_e = nondet_long(), in_q = nondet_long(); {P} = nondet_long(); g_pmi_calls = 0;", "get_partial_inverse(in_e, in_q);"),
                  desc="Multi_field_operators::get_partial_inverse(e, Q) (GMP): with g = gcd(e, Q): (0, 1) when g == Q; otherwise T = Q / g is returned as the invertibility sub-product and the value is the canonical representative of invert(e, T) times the partial identity OF T"))
    stub_pinv = Fn(path, r"std::pair<Element, Characteristic> get_partial_inverse\(\s*const Element& e, const Characteristic& productOfCharacteristics\) const", "get_partial_inverse", """
__CPROVER_ensures(__CPROVER_return_value.first == g_pinv.first && __CPROVER_return_value.second == g_pinv.second && g_pinv_e == e && g_pinv_q == productOfCharacteristics && g_pinv_calls == __CPROVER_old(g_pinv_calls) + 1)
__CPROVER_assigns(g_pinv_e, g_pinv_q, g_pinv_calls)
""", sig_subs=[(r"std::pair<Element, Characteristic>", "vp_pair")], subs=GS)
    f_inv = Fn(path, r"Element get_inverse\(const Element& e\) const", "get_inverse", f"""
__CPROVER_requires(g_pinv_calls == 0)
__CPROVER_ensures(__CPROVER_return_value == g_pinv.first && g_pinv_calls == 1 && g_pinv_e == e && g_pinv_q == {P})
__CPROVER_assigns(g_pinv_e, g_pinv_q, g_pinv_calls)
""", subs=GS, canary=(r"\.first", ".second"))
    U.append(Unit("mf_ops.get_inverse", "C10", [stub_pinv, f_inv], enforce="get_inverse", replace=["get_partial_inverse"], includes=["c10_gmp_glue.h"], globals_=G,
                  inputs=["in_e", P], replay=mk_replay_native("mf_ops"), runs=[Run(backend="sat", timeout=300)],
                  harness=H(f"  long in_e = nondet_long(); {P} = nondet_long(); g_pinv_calls = 0;", "get_inverse(in_e);"),
                  desc="Multi_field_operators::get_inverse (GMP): the value of the partial inverse with respect to the product of ALL characteristics"))

def small_element_inverse_units(U):
    """get_partial_inverse of the two small-characteristic ELEMENT classes (the operator class is checked end to end per
    prime range elsewhere): which gcd is taken, which sub-product is returned, which identity and which inverse are
    combined.  std::gcd, integer division, _get_inverse, get_partial_multiplicative_identity and the element's
    operator*= are ghost / uninterpreted (their own units or the native sweep cover them)."""
    for key, hdr, cls in (("mfs_sh", "Multi_field_small_shared.h", "Shared_multi_field_element_with_small_characteristics"),
                          ("mfs_el", "Multi_field_small.h", "Multi_field_element_with_small_characteristics")):
        path = F + hdr
        G = ("typedef unsigned int Element; typedef unsigned int Characteristic;\nElement element_; Characteristic multiplicativeID_; Characteristic productOfAllCharacteristics_;\n"
             "typedef struct { Element first; Characteristic second; } vp_pair;\n"
             "unsigned __CPROVER_uninterpreted_std_gcd(unsigned a, unsigned b); unsigned __CPROVER_uninterpreted_udiv(unsigned a, unsigned b);\n"
             "static unsigned vp_std_gcd(unsigned a, unsigned b) { unsigned r = __CPROVER_uninterpreted_std_gcd(a, b); __CPROVER_assume(b == 0 || (r >= 1 && r <= b)); return r; }   /* std::gcd(a, b) divides b */\n"
             "static unsigned vp_udiv(unsigned a, unsigned b) { __CPROVER_assert(b != 0, \"division by a non-zero gcd\"); return __CPROVER_uninterpreted_udiv(a, b); }\n"
             "Element g_inv; Element g_inv_e; Characteristic g_inv_m; unsigned g_inv_calls; Element g_pmi; Characteristic g_pmi_arg; unsigned g_pmi_calls; Element g_mul; Element g_mul_a, g_mul_b; unsigned g_mul_calls;\n"
             "static Element inv_stub(Element e, Characteristic m) { g_inv_calls++; g_inv_e = e; g_inv_m = m; return g_inv; }\n"
             "static Element pmi_stub(Characteristic q) { g_pmi_calls++; g_pmi_arg = q; return g_pmi; }\n"
             "static Element el_mul_stub(Element a, Element b) { g_mul_calls++; g_mul_a = a; g_mul_b = b; return g_mul; }\n"
             "unsigned nondet_uint(void);\n")
        GCD = "__CPROVER_uninterpreted_std_gcd(element_, productOfCharacteristics)"
        QT = f"__CPROVER_uninterpreted_udiv(productOfCharacteristics, {GCD})"
        con = f"""
__CPROVER_requires(productOfCharacteristics >= 1 && g_inv_calls == 0 && g_pmi_calls == 0 && g_mul_calls == 0)
__CPROVER_ensures({GCD} != productOfCharacteristics || (__CPROVER_return_value.first == 0 && __CPROVER_return_value.second == multiplicativeID_ && g_inv_calls == 0 && g_pmi_calls == 0 && g_mul_calls == 0))
__CPROVER_ensures({GCD} == productOfCharacteristics || (__CPROVER_return_value.second == {QT} && g_inv_calls == 1 && g_inv_e == element_ && g_inv_m == {QT} && g_pmi_calls == 1 && g_pmi_arg == {QT}))
__CPROVER_ensures({GCD} == productOfCharacteristics || (g_mul_calls == 1 && g_mul_a == g_pmi && g_mul_b == g_inv && __CPROVER_return_value.first == g_mul))
__CPROVER_assigns(g_inv_calls, g_inv_e, g_inv_m, g_pmi_calls, g_pmi_arg, g_mul_calls, g_mul_a, g_mul_b)
"""
        fn = Fn(path, rf"std::pair<{cls},Characteristic> get_partial_inverse\(\s*Characteristic productOfCharacteristics\) const", "get_partial_inverse", con,
                sig_subs=[(rf"std::pair<{cls},Characteristic>", "vp_pair")],
                subs=[(r"std::gcd\(", "vp_std_gcd("), (r"\b(\w+) / (\w+)\b", r"vp_udiv(\1, \2)"),
                      (rf"return \{{{cls}\(\), (\w+)\}};", r"return (vp_pair){0, \1};"),
                      (r"_get_inverse\(", "inv_stub("), (r"auto (\w+) = get_partial_multiplicative_identity\(([^;]*)\);", r"Element \1 = pmi_stub(\2);"),
                      (r"(\w+) \*= (\w+);", r"\1 = el_mul_stub(\1, \2);"), (r"return \{(\w+), (\w+)\};", r"return (vp_pair){\1, \2};")],
                canary=(r"inv_stub\(element_, QT\)", "inv_stub(element_, productOfCharacteristics)"))
        U.append(Unit(f"{key}.get_partial_inverse", "C10", [fn], enforce="get_partial_inverse", globals_=G, inputs=["in_q", "element_"], replay=mk_replay_native(key),
                      harness=H("  unsigned in_q = nondet_uint(); element_ = nondet_uint(); g_inv_calls = 0; g_pmi_calls = 0; g_mul_calls = 0;", "get_partial_inverse(in_q);"),
                      desc=f"{cls}::get_partial_inverse(Q): with g = gcd(element, Q) - the gcd with the ARGUMENT, not with the whole product: (0, 1) when g == Q; otherwise T = Q / g is returned, and the value is the partial identity of T times the inverse of the element modulo T"))

def gmp_element_inverse_units(U):
    """get_partial_inverse of the two GMP element classes, in the same ghost / uninterpreted style."""
    for key, hdr, cls, sel in (
            ("mf_el", "Multi_field.h", "Multi_field_element", r"Multi_field_element<minimum, maximum>::get_partial_inverse\(const Characteristic& productOfCharacteristics\) const"),
            ("mf_sh", "Multi_field_shared.h", "Shared_multi_field_element", r"Shared_multi_field_element::get_partial_inverse\(const Characteristic& productOfCharacteristics\) const")):
        path = F + hdr
        G = ("typedef mpz_class Element; typedef mpz_class Characteristic;\nElement element_; Characteristic multiplicativeID_;\n"
             "typedef struct { Element first; Characteristic second; } vp_pair;\n"
             "Element g_pmi; Characteristic g_pmi_arg; unsigned g_pmi_calls; Element g_mul; Element g_mul_a, g_mul_b; unsigned g_mul_calls;\n"
             "static Element pmi_stub(Characteristic q) { g_pmi_calls++; g_pmi_arg = q; return g_pmi; }\n"
             "static Element el_mul_stub(Element a, Element b) { g_mul_calls++; g_mul_a = a; g_mul_b = b; return g_mul; }\n"
             "long nondet_long(void);\n")
        GCD = "__CPROVER_uninterpreted_mpz_gcd(element_, productOfCharacteristics)"
        QT = f"TDIVQ(productOfCharacteristics, {GCD})"
        con = f"""
__CPROVER_requires(productOfCharacteristics >= 1 && g_pmi_calls == 0 && g_mul_calls == 0)
__CPROVER_ensures({GCD} != productOfCharacteristics || (__CPROVER_return_value.first == 0 && __CPROVER_return_value.second == multiplicativeID_ && g_pmi_calls == 0 && g_mul_calls == 0))
__CPROVER_ensures({GCD} == productOfCharacteristics || (__CPROVER_return_value.second == {QT} && g_pmi_calls == 1 && g_pmi_arg == {QT}))
__CPROVER_ensures({GCD} == productOfCharacteristics || (g_mul_calls == 1 && g_mul_a == g_pmi && g_mul_b == __CPROVER_uninterpreted_mpz_invert(element_, {QT}) && __CPROVER_return_value.first == g_mul))
__CPROVER_assigns(g_pmi_calls, g_pmi_arg, g_mul_calls, g_mul_a, g_mul_b)
"""
        fn = Fn(path, sel, "get_partial_inverse", con,
                sig_subs=[(r"^.*?get_partial_inverse\(", "vp_pair get_partial_inverse(")], scopes=[cls],
                subs=[(r"(\b\w+)\.get_mpz_t\(\)", r"\1"), (r"\bmpz_gcd\(", "VP_MPZ_GCD("), (r"\bmpz_invert\(", "VP_MPZ_INVERT("),
                      (r"\b(\w+) / (\w+)\b", r"vp_mpz_tdiv_q(\1, \2)"),
                      (rf"return \{{{cls}\(\), (\w+)\}};", r"return (vp_pair){0, \1};"),
                      (r"auto (\w+) = get_partial_multiplicative_identity\(([^;]*)\);", r"Element \1 = pmi_stub(\2);"),
                      (r"(\w+) \*= (\w+);", r"\1 = el_mul_stub(\1, \2);"), (r"return \{(\w+), (\w+)\};", r"return (vp_pair){\1, \2};")],
                canary=(r"pmi_stub\(QT\)", "pmi_stub(productOfCharacteristics)"))
        U.append(Unit(f"{key}.get_partial_inverse", "C10", [fn], enforce="get_partial_inverse", includes=["c10_gmp_glue.h"], globals_=G, inputs=["in_q", "element_"],
                      replay=mk_replay_native(key), runs=[Run(backend="sat", timeout=300)],
                      harness=H("  long in_q = nondet_long(); element_ = nondet_long(); g_pmi_calls = 0; g_mul_calls = 0;", "get_partial_inverse(in_q);"),
                      desc=f"{cls}::get_partial_inverse(Q) (GMP): with g = gcd(element, Q): (0, 1) when g == Q; otherwise T = Q / g is returned and the value is the partial identity of T times invert(element, T)"))

def get_inverse_width_units(U):
    """_get_inverse of the three small multi-field headers: the extended-Euclid loop runs on working copies of its operands;
    for every 32-bit modulus (products in [2^31, 2^32) are in the accepted domain) the copies must hold the operands' values."""
    for key, hdr, within, sel in (
            ("mfs_ops", "Multi_field_small_operators.h", None, MFSO + r"::_get_inverse\(Element element,\s*Characteristic mod\)"),
            ("mfs_el", "Multi_field_small.h", None, r"static constexpr (?:long )?int _get_inverse\(Element element, const Element mod\)"),
            ("mfs_sh", "Multi_field_small_shared.h", None, r"static constexpr (?:long )?int _get_inverse\(Element element, const Characteristic mod\)")):
        G = "typedef unsigned int Element; typedef unsigned int Characteristic;\nlong g_M, g_A, g_x, g_y; unsigned nondet_uint(void);\n"
        fn = Fn(F + hdr, sel, "ginv_prologue", """
__CPROVER_ensures(g_M == (long)mod && g_A == (long)element && g_x == 1 && g_y == 0)
__CPROVER_assigns(g_M, g_A, g_x, g_y)
""", piece={"kind": "slice", "first": r"\w[\w ]* M = mod;", "last": r"x = 1;", "sig": "void ginv_prologue(Element element, Characteristic mod)",
            "epilogue": "g_M = (long)M; g_A = (long)A; g_x = (long)x; g_y = (long)y;"},
                canary=(r"A = element;", "A = element + 1;"))
        U.append(Unit(f"{key}._get_inverse.operand_width", "C10", [fn], enforce="ginv_prologue", globals_=G, inputs=["in_e", "in_m"], replay=mk_replay_native(key),
                      harness=H("  unsigned in_e = nondet_uint(), in_m = nondet_uint();", "ginv_prologue(in_e, in_m);"),
                      desc=f"{hdr} _get_inverse, set-up of the extended Euclid loop: the working copies M and A hold the values of the modulus and of the element for EVERY 32-bit modulus - prime ranges whose product lies in [2^31, 2^32) are accepted, and an `int` copy would be negative there"))

TRUSTED = [
    "vp/prelude.h: spec functions RES_U/ADDMOD/SUBMOD/MATHMOD64 and the R11 stand-ins (VP_SWAP_U, vp_gcd_u)",
    "template bindings: Unsigned_integer_type = unsigned int; Integer_type in {int, long, unsigned int}; other instantiations are not verified",
    "extraction rules R1-R13 of DESIGN.md section 3 (vp/extract.py): the verified text is the text of /repo rewritten by them on every run",
    "CBMC 6.11.0 (goto-cc, goto-instrument --dfcc, MiniSat), z3 4.8.12",
    "GMP dependency (contracts/c10_gmp_glue.h, assumed contracts): mpz_class is bound to a 64-bit integer with operand bounds that keep every value in range; mpz_mod, operator%, operator/, operator* on mpz_class, mpz_gcd and mpz_invert are UNINTERPRETED functions with their documented ranges assumed (mpz_mod(a,m) in [0,m), identity on [0,m), a+m on [-m,0); |a % m| < m with the sign of a; gcd(a,b) in [1,b]; |a*b| < 2^62 for |a|,|b| < 2^31) - the contracts on the GMP classes therefore fix WHICH integer expression is formed and reduced and that results are canonical, not the arithmetic of GMP itself",
    "of the GMP classes, under contract: every public operation of Multi_field_operators except set_characteristic / get_partial_inverse / get_partial_multiplicative_identity; the mixed and in-place friend operators and comparisons of Multi_field_element / Shared_multi_field_element; plus_times_equal, times, plus_equal, times_minus, multiplicative_identity(Q), inverse of persistent_cohomology::Multi_field.  NOT under contract: prime-range initialisation (mpz_nextprime, mpz_powm_ui), constructors, by-value wrappers, get_partial_inverse of the persistence_fields classes (bounded native stand-in only)",
]
ASSUMPTIONS = [
    "unsigned wrap-around is defined behaviour (no --unsigned-overflow-check): the field code relies on it",
    "x86-64 LP64 data model (int 32, long 64), two's complement",
    "L1: iterating the verified exact step of _multiply from (a,0,b) until a == 0 yields a*b mod p (checked by CBMC end-to-end only for p <= 31)",
    "L2: Z_p is a field for prime p; the smallest non-unit of a composite c divides c (termination of the table loops / refusal of composites; checked end-to-end for c <= 16)",
    "const-reference parameters are extracted as by-value copies (no aliasing between reference parameters)",
    "GMP (assumed contracts on a dependency, contracts/c10_gmp_glue.h): mpz_mod / operator% / operator/ / operator* / mpz_gcd / mpz_invert are uninterpreted functions whose documented ranges are assumed; mpz_class arithmetic is machine arithmetic on 64 bits under operand bounds whose sufficiency is discharged by the overflow checks (|operands of sums| < 2^60, |operands of products| < 2^31, P < 2^31) - arbitrary-precision values beyond these bounds are not covered",
]


def selftest():
    try:
        replay_bin()
        return "native replay program builds against /repo's headers"
    except Exception as ex:
        return "FAIL " + str(ex)[:500]
