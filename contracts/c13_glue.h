/* c13_glue.h - glue and SPECIFICATION for the cubical-complex contracts (trusted; listed in the evidence).
 *
 * The grid shape is a compile-time constant of each unit (-DD=.. -DS0=.. -DP0=..): index arithmetic over
 * multipliers[i] = prod(2*sizes[j]+1) is non-linear in the sizes and out of the solvers' reach for symbolic shapes
 * (DESIGN section 2 item 4), while with a concrete shape every obligation is checked for EVERY cell at once.
 *
 * std::vector members / results become fixed-capacity arrays with a length (rule R7): `x.a[i]`, `x.n`.
 */
#ifndef C13_GLUE_H
#define C13_GLUE_H
#include "prelude.h"
#include <math.h>
#include <float.h>

#ifndef D
#error "shape not given"
#endif
#define DMAX 4
#define VCAP 8
typedef struct { size_t a[VCAP]; size_t n; } vp_vec_sz;
typedef struct { unsigned a[DMAX]; size_t n; } vp_vec_u;
typedef struct { bool a[DMAX]; size_t n; } vp_vec_b;
typedef struct { double* a; size_t n; } vp_vec_d;
#define VP_PUSH(v, x) do { __CPROVER_assert((v).n < sizeof((v).a) / sizeof((v).a[0]), "R7: push_back within the fixed capacity"); (v).a[(v).n] = (x); (v).n++; } while (0)
#define VP_REVERSE(v) do { for (size_t vp_i = 0; vp_i < (v).n / 2; vp_i++) { unsigned vp_t = (v).a[vp_i]; (v).a[vp_i] = (v).a[(v).n - 1 - vp_i]; (v).a[(v).n - 1 - vp_i] = vp_t; } } while (0)

/* members (R4) */
vp_vec_u sizes, multipliers;
vp_vec_b directions_in_which_periodic_b_cond_are_to_be_imposed;
vp_vec_d data;
double g_fill;                                       /* the value every cell starts with */
static void vp_data_init(size_t n, double v) { data.n = n; g_fill = v; }   /* std::vector<T>(n, v) */

/* ---- the shape of this unit, and the specification of the geometry written from it ------------------------ */
#ifndef S1
#define S1 1
#endif
#ifndef S2
#define S2 1
#endif
#ifndef S3
#define S3 1
#endif
#ifndef P0
#define P0 0
#endif
#ifndef P1
#define P1 0
#endif
#ifndef P2
#define P2 0
#endif
#ifndef P3
#define P3 0
#endif
static const unsigned X_S[4] = {S0, S1, S2, S3};
static const bool X_P[4] = {P0, P1, P2, P3};
/* number of cell layers along direction i: 2s+1 (vertices at both ends), 2s when the direction is periodic */
#define X_L(i) (2u * X_S[i] + (X_P[i] ? 0u : 1u))
#define X_M0 1u
#define X_M1 (X_L(0))
#define X_M2 (X_L(0) * X_L(1))
#define X_M3 (X_L(0) * X_L(1) * X_L(2))
#define X_SIZE ((size_t)(D == 1 ? X_L(0) : D == 2 ? X_L(0) * X_L(1) : D == 3 ? X_L(0) * X_L(1) * X_L(2) : X_L(0) * X_L(1) * X_L(2) * X_L(3)))
static unsigned x_mult(unsigned i) { return i == 0 ? X_M0 : i == 1 ? X_M1 : i == 2 ? X_M2 : X_M3; }
/* coordinate of a cell along direction i: odd = the cell has non-zero length in that direction */
static unsigned x_coord(size_t cell, unsigned i) { return (unsigned)((cell / x_mult(i)) % X_L(i)); }
static unsigned x_dim(size_t cell) { unsigned d = 0; for (unsigned i = 0; i < DMAX; i++) if (i < D && x_coord(cell, i) % 2 == 1) d++; return d; }
/* the two faces of `cell` in direction i (requires an odd coordinate there) */
static size_t x_face_lo(size_t cell, unsigned i) { return cell - x_mult(i); }
static size_t x_face_hi(size_t cell, unsigned i) {
  return (X_P[i] && x_coord(cell, i) == X_L(i) - 1) ? cell - (size_t)(X_L(i) - 1) * x_mult(i) : cell + x_mult(i);
}
static bool x_is_face(size_t f, size_t c) {     /* geometric incidence: f is a codimension-1 face of c */
  bool r = false;
  for (unsigned i = 0; i < DMAX; i++) if (i < D && x_coord(c, i) % 2 == 1 && (f == x_face_lo(c, i) || f == x_face_hi(c, i))) r = true;
  return r;
}
/* the members hold this shape (established by the real set_up_containers in the harness).  A macro, so that the
 * harness (instrumented code) and the contract clauses do not share a function: DFCC adds a write-set parameter to
 * every function reachable from instrumented code, and a call from a contract clause would then lack it. */
#ifdef PERIODIC
#define VP_PER_OK(i) (directions_in_which_periodic_b_cond_are_to_be_imposed.a[i] == X_P[i])
#define VP_PER_N (directions_in_which_periodic_b_cond_are_to_be_imposed.n == D)
#else
#define VP_PER_OK(i) true
#define VP_PER_N true
#endif
#define SHAPE_OK_EXPR (sizes.n == D && multipliers.n == D && data.n == X_SIZE && VP_PER_N && \
  sizes.a[0] == S0 && multipliers.a[0] == X_M0 && VP_PER_OK(0) && \
  (D < 2 || (sizes.a[1] == S1 && multipliers.a[1] == X_M1 && VP_PER_OK(1))) && \
  (D < 3 || (sizes.a[2] == S2 && multipliers.a[2] == X_M2 && VP_PER_OK(2))) && \
  (D < 4 || (sizes.a[3] == S3 && multipliers.a[3] == X_M3 && VP_PER_OK(3))))
static bool shape_ok(void) { return SHAPE_OK_EXPR; }

/* ---- contract predicates --------------------------------------------------------------------------------- */
static bool P_counter(size_t cell, vp_vec_u c) {     /* mixed-radix digits of the cell */
  bool ok = c.n == D; size_t pos = 0;
  for (unsigned i = 0; i < DMAX; i++) if (i < D) { ok = ok && c.a[i] == x_coord(cell, i) && c.a[i] < X_L(i); pos += (size_t)c.a[i] * x_mult(i); }
  return ok && pos == cell;
}
static bool P_boundary(size_t cell, vp_vec_sz b) {
  /* 2*dim entries; the j-th direction (from the top) in which the cell has length contributes entries 2j, 2j+1 =
   * its two faces there (either order: the orientation is pinned by the boundary-of-boundary lemma); all in range */
  unsigned dim = x_dim(cell);
  bool ok = b.n == 2u * dim; unsigned j = 0;
  for (unsigned k = 0; k < DMAX; k++) { unsigned i = DMAX - 1 - k;
    if (i < D && x_coord(cell, i) % 2 == 1) {
      size_t lo = x_face_lo(cell, i), hi = x_face_hi(cell, i);
      if (2 * j + 1 < VCAP) ok = ok && ((b.a[2 * j] == lo && b.a[2 * j + 1] == hi) || (b.a[2 * j] == hi && b.a[2 * j + 1] == lo));
      ok = ok && lo < X_SIZE && hi < X_SIZE && x_dim(lo) + 1 == dim && x_dim(hi) + 1 == dim;
      j++;
    } }
  return ok;
}
static bool vec_has(vp_vec_sz v, size_t x) { bool r = false; for (unsigned k = 0; k < VCAP; k++) if (k < v.n && v.a[k] == x) r = true; return r; }
static unsigned vec_count(vp_vec_sz v, size_t x) { unsigned r = 0; for (unsigned k = 0; k < VCAP; k++) if (k < v.n && v.a[k] == x) r++; return r; }
static bool P_coboundary(size_t cell, vp_vec_sz cb, size_t probe) {
  /* every listed coface is in range, one dimension up and geometrically incident; and (ghost probe) an arbitrary
   * cell is listed exactly when `cell` is one of its faces - listed once, or twice when both of its faces are `cell`
   * (periodic direction of length 1 only) */
  bool ok = cb.n <= 2u * D;
  for (unsigned k = 0; k < VCAP; k++) if (k < cb.n) ok = ok && cb.a[k] < X_SIZE && x_dim(cb.a[k]) == x_dim(cell) + 1 && x_is_face(cell, cb.a[k]);
  if (probe < X_SIZE) ok = ok && (vec_has(cb, probe) == x_is_face(cell, probe));
  return ok;
}
#endif
