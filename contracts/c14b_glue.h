/* c14b_glue.h - glue for the union-find part of Persistence_on_rectangle (ds_find_set_, primal, dual).  Trusted.
 * Members are real (small) arrays here; the output functor `out` and T::out() become ghost logging macros. */
#ifndef C14B_GLUE_H
#define C14B_GLUE_H
#include "prelude.h"
typedef size_t Index;
typedef int Filtration_value;
#ifdef OUTPUT_INDEX
typedef struct { Filtration_value first; Index second; } T;
#define T_LESS(a, b) ((a).first < (b).first || (!((b).first < (a).first) && (a).second < (b).second))   /* std::tie(first, second) < ... */
#define T_OUT(a) ((long)(a).second)
#else
typedef struct { Filtration_value first; } T;
#define T_LESS(a, b) ((a).first < (b).first)
#define T_OUT(a) ((long)(a).first)
#endif
struct Edge { T f; Index v1, v2; };
#ifndef NV
#define NV 8
#endif
Index ds_parent_v_[NV]; Index ds_parent_s_[NV]; T data_v_[NV];
const Filtration_value* input_p; Filtration_value g_input[NV];
Index dy;
#define ds_parent_vertex(n) (ds_parent_v_[(n)])
#define ds_parent_square(n) (ds_parent_s_[(n)])
#define data_vertex(n) (data_v_[(n)])
#define input(n) (g_input[(n)])
/* the output functor: one ghost record per call */
long g_out_b, g_out_d; unsigned g_out_n;
#define out(b, d) do { g_out_b = (long)(b); g_out_d = (long)(d); g_out_n++; } while (0)
#define VP_SWAP_I(a, b) do { Index vp_t_ = (a); (a) = (b); (b) = vp_t_; } while (0)

/* ---- specification of the forest -------------------------------------------------------------------------- */
/* well formed: every parent in range and following parents reaches a root (a node that is its own parent) within
 * NV steps - witnessed by a ghost depth function that strictly decreases towards the root */
unsigned g_depth[NV];
static bool forest_ok(const Index* p, Index n) {
  bool ok = n >= 1 && n <= NV;
  for (Index i = 0; i < NV; i++) if (i < n) ok = ok && p[i] < n && g_depth[i] < NV && (p[i] == i ? g_depth[i] == 0 : g_depth[p[i]] + 1 == g_depth[i]);
  return ok;
}
static Index root_of(const Index* p, Index v) { for (int s = 0; s < NV; s++) v = p[v]; return v; }   /* NV steps reach the root of a well-formed forest */
#endif
