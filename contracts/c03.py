"""C03 - filtration order and filtration-value maintenance: contract sidecar (comparator / value kernels only).

The order clauses of C03 reduce to contracts on the comparators: if the comparator is a strict total order on the
simplices that orders by value first and puts a proper face before its coface on ties, then ANY correct sort -
sequential, parallel, any thread count - yields the same non-decreasing, faces-first sequence (lemma L4).  The sort
routines and the enumeration feeding them are trusted.  Value maintenance: the per-face step of
make_filtration_non_decreasing (intersect_lifetimes / unify_lifetimes) and the scalar kernel of the extended
filtration (encode / decode).  Whole-tree operations are NOT decided by this family (see MANIFEST note).
"""
import os

from vp.extract import Fn, REPO
from vp.driver import Unit, Run, VERIF, sh
from contracts import c13

LEVEL = "proof"
ST = "src/Simplex_tree/include/gudhi/Simplex_tree.h"
FU = "src/Simplex_tree/include/gudhi/Simplex_tree/filtration_value_utils.h"

LMAX = 5
GLUE = f"""
#include <math.h>
#define LMAX {LMAX}
#define NS 3
typedef int Vertex_handle;
typedef int Simplex_handle;                      /* binding: a handle is an index into the ghost tables below */
typedef struct {{ const Vertex_handle* b; const Vertex_handle* e; }} vp_range;
/* ghost: the vertex word of each simplex, labels strictly decreasing (what Simplex_vertex_iterator yields), and
 * its filtration value */
Vertex_handle g_word[NS][LMAX]; size_t g_len[NS]; double g_filt[NS];
/* assumed contract of simplex_vertex_range / Simplex_vertex_iterator (the tree-walking iterator is not
 * extractable, rule R13): the vertices of sh in decreasing order */
static vp_range simplex_vertex_range(Simplex_handle sh) {{ vp_range r; r.b = g_word[sh]; r.e = g_word[sh] + g_len[sh]; return r; }}
static bool words_ok(void) {{ bool ok = true; for (int s = 0; s < NS; s++) {{ ok = ok && g_len[s] >= 1 && g_len[s] <= LMAX; for (size_t i = 1; i < LMAX; i++) if (i < g_len[s]) ok = ok && g_word[s][i] < g_word[s][i - 1]; }} return ok; }}
static bool same_word(int a, int b) {{ bool r = g_len[a] == g_len[b]; for (size_t i = 0; i < LMAX; i++) if (i < g_len[a] && i < g_len[b] && g_word[a][i] != g_word[b][i]) r = false; return r; }}
static bool is_subset(int a, int b) {{ bool r = true; for (size_t i = 0; i < LMAX; i++) if (i < g_len[a]) {{ bool f = false; for (size_t j = 0; j < LMAX; j++) if (j < g_len[b] && g_word[b][j] == g_word[a][i]) f = true; r = r && f; }} return r; }}
static bool proper_face(int a, int b) {{ return is_subset(a, b) && g_len[a] < g_len[b]; }}
size_t nondet_size(void); int nondet_int(void); double nondet_double(void); float nondet_float(void);
"""

RLO_SUBS = [(r"Simplex_vertex_range (\w+) =", r"vp_range \1 ="), (r"Simplex_vertex_iterator (\w+) = (\w+)\.begin\(\);", r"const Vertex_handle* \1 = \2.b;"),
            (r"(\w+)\.end\(\)", r"\1.e")]
C_RLO = """
__CPROVER_requires(0 <= sh1 && sh1 < NS && 0 <= sh2 && sh2 < NS && words_ok())
__CPROVER_ensures(!same_word(sh1, sh2) || !__CPROVER_return_value)
__CPROVER_ensures(!proper_face(sh1, sh2) || __CPROVER_return_value)
__CPROVER_ensures(!proper_face(sh2, sh1) || !__CPROVER_return_value)
__CPROVER_assigns()
"""
# replacement contract inside the value comparator: an abstract relation (ghost table), whose strict-total-order
# properties are what the lemma unit rlo.strict_total_order proves
C_RLO_TABLE = """
__CPROVER_requires(0 <= sh1 && sh1 < NS && 0 <= sh2 && sh2 < NS)
__CPROVER_ensures(__CPROVER_return_value == g_rlo[sh1][sh2])
__CPROVER_assigns()
"""
C_BEFORE = """
__CPROVER_requires(0 <= sh1 && sh1 < NS && 0 <= sh2 && sh2 < NS && !isnan(g_filt[sh1]) && !isnan(g_filt[sh2]))
__CPROVER_ensures(!__CPROVER_return_value || g_filt[sh1] <= g_filt[sh2])
__CPROVER_ensures(!(g_filt[sh1] < g_filt[sh2]) || __CPROVER_return_value)
__CPROVER_ensures(!(g_filt[sh1] == g_filt[sh2]) || __CPROVER_return_value == g_rlo[sh1][sh2])
__CPROVER_assigns()
"""


def fn_rlo(contract, canary=None):
    return Fn(ST, r"bool reverse_lexicographic_order\(Simplex_handle sh1, Simplex_handle sh2\) const", "reverse_lexicographic_order",
              contract, subs=RLO_SUBS, canary=canary)


def fn_before(contract, canary=None):
    return Fn(ST, r"bool operator\(\)\(const Simplex_handle sh1, const Simplex_handle sh2\) const", "is_before", contract,
              within=r"struct is_before_in_totally_ordered_filtration \{", sig_subs=[(r"operator\(\)", "is_before")],
              subs=[(r"(sh\d)->second\.filtration\(\)", r"g_filt[\1]"), (r"st_->", "")], canary=canary)


FILL = ("  for (int s = 0; s < NS; s++) { g_len[s] = nondet_size(); g_filt[s] = nondet_double(); for (int i = 0; i < LMAX; i++) g_word[s][i] = nondet_int(); }\n"
        "  for (int a = 0; a < NS; a++) for (int b = 0; b < NS; b++) g_rlo[a][b] = nondet_int() != 0;\n")


def H(body):
    return "int main(void) {\n" + FILL + body + "\n  __CPROVER_assert(0, \"VP_REACH\");\n  return 0;\n}\n"


def lifetimes_units():
    U = []
    NAN_T = [(r"std::numeric_limits<Arithmetic_filtration_value>::has_quiet_NaN", True)]
    NAN_F = [(r"std::numeric_limits<Arithmetic_filtration_value>::has_quiet_NaN", False)]
    ISNAN = [(r"std::isnan", "isnan", 0)]
    c_int = """
__CPROVER_ensures(*f1 == (__CPROVER_old(*f1) < f2 ? f2 : __CPROVER_old(*f1)))
__CPROVER_ensures(__CPROVER_return_value == (*f1 != __CPROVER_old(*f1)))
__CPROVER_assigns(*f1)
"""
    c_dbl = """
__CPROVER_ensures(!(!isnan(__CPROVER_old(*f1)) && !isnan(f2)) || (*f1 == (__CPROVER_old(*f1) < f2 ? f2 : __CPROVER_old(*f1)) && !isnan(*f1)))
__CPROVER_ensures(!(!isnan(__CPROVER_old(*f1)) && !isnan(f2)) || __CPROVER_return_value == (__CPROVER_old(*f1) < f2))
__CPROVER_ensures(!isnan(__CPROVER_old(*f1)) || (__CPROVER_return_value == !isnan(f2) && (isnan(f2) ? isnan(*f1) : *f1 == f2)))
__CPROVER_ensures(!(!isnan(__CPROVER_old(*f1)) && isnan(f2)) || (!__CPROVER_return_value && *f1 == __CPROVER_old(*f1)))
__CPROVER_assigns(*f1)
"""
    c_unify = """
__CPROVER_requires(VP_NONAN(*f1) && VP_NONAN(f2))
__CPROVER_ensures(*f1 == (f2 < __CPROVER_old(*f1) ? f2 : __CPROVER_old(*f1)))
__CPROVER_ensures(__CPROVER_return_value == (f2 < __CPROVER_old(*f1)))
__CPROVER_assigns(*f1)
"""
    sig_i = r"bool intersect_lifetimes\(Arithmetic_filtration_value& f1, const Arithmetic_filtration_value& f2\)"
    sig_u = r"bool unify_lifetimes\(Arithmetic_filtration_value& f1, const Arithmetic_filtration_value& f2\)"
    G = "#include <math.h>\ndouble nondet_double(void); int nondet_int(void);\n"
    for T, con, ce, nd in (("double", c_dbl, NAN_T, "nondet_double()"), ("int", c_int, NAN_F, "nondet_int()")):
        U.append(Unit(f"value.intersect_lifetimes.{T}", "C03",
                      [Fn(FU, sig_i, "intersect_lifetimes", con, constexpr=ce, subs=ISNAN, canary=(r"!\(\(\*f1\) < f2\)" if T == "double" else r"\(\*f1\) < f2", "!(f2 < (*f1))" if T == "double" else "(*f1) <= f2"))],
                      enforce="intersect_lifetimes", typedefs={"Arithmetic_filtration_value": T}, globals_=G, inputs=["in_f1", "in_f2"],
                      replay=mk_replay_lifetimes("intersect", T),
                      harness=f"int main(void) {{\n  {T} in_f1 = {nd}, in_f2 = {nd}; {T} x = in_f1;\n  intersect_lifetimes(&x, in_f2);\n  __CPROVER_assert(0, \"VP_REACH\");\n  return 0;\n}}\n",
                      desc=f"intersect_lifetimes<{T}>: f1 becomes the maximum (NaN lowest), returns true exactly when f1 changed - the per-face step of make_filtration_non_decreasing"))
        defs = "#define VP_NONAN(x) (!isnan(x))\n" if T == "double" else "#define VP_NONAN(x) 1\n"
        U.append(Unit(f"value.unify_lifetimes.{T}", "C03",
                      [Fn(FU, sig_u, "unify_lifetimes", c_unify, canary=(r"f2 < \(\*f1\)", "f2 <= (*f1)"))],
                      enforce="unify_lifetimes", typedefs={"Arithmetic_filtration_value": T}, globals_=G + defs, inputs=["in_f1", "in_f2"],
                      replay=mk_replay_lifetimes("unify", T),
                      harness=f"int main(void) {{\n  {T} in_f1 = {nd}, in_f2 = {nd}; {T} x = in_f1;\n  unify_lifetimes(&x, in_f2);\n  __CPROVER_assert(0, \"VP_REACH\");\n  return 0;\n}}\n",
                      desc=f"unify_lifetimes<{T}>: f1 becomes the minimum, returns true exactly when f1 changed"))
    return U


def extended_units(tier):
    """scalar kernel of extend_filtration (two statement slices) and decode_extended_filtration"""
    U = []
    # the scan over the vertices that finds the range of the vertex function (loop body as a function)
    Gs = "#include <math.h>\ntypedef double Filtration_value; typedef int Vertex_handle;\ndouble nondet_double(void); int nondet_int(void);\n"
    f_scan = Fn(ST, r"Extended_filtration_data extend_filtration\(\)", "ef_scan_step", """
__CPROVER_requires(!isnan(fval) && !isnan(*minval) && !isnan(*maxval))
__CPROVER_ensures(*minval == (fval < __CPROVER_old(*minval) ? fval : __CPROVER_old(*minval)))
__CPROVER_ensures(*maxval == (__CPROVER_old(*maxval) < fval ? fval : __CPROVER_old(*maxval)))
__CPROVER_ensures(*maxvert == (__CPROVER_old(*maxvert) < label ? label : __CPROVER_old(*maxvert)))
__CPROVER_assigns(*minval, *maxval, *maxvert)
""", piece={"kind": "loop", "ordinal": 0, "sig": "void ef_scan_step(Filtration_value* minval, Filtration_value* maxval, Vertex_handle* maxvert, Filtration_value fval, Vertex_handle label)",
            "byref": ["minval", "maxval", "maxvert"]},
                subs=[(r"const Filtration_value& f = this->filtration\(sh\);", "Filtration_value f = fval;"), (r"sh->first", "label", 0),
                      (r"std::min\(", "VP_MIN(", 0), (r"std::max\(", "VP_MAX(", 0)],
                canary=(r"\(\*maxval\) = ", "(*minval) = "))
    U.append(Unit("extended.scan_step", "C03", [f_scan], enforce="ef_scan_step", globals_=Gs, inputs=["in_min", "in_max", "in_f"], runs=[Run(backend="kissat", timeout=120)],
                  harness="int main(void) {\n  double in_min = nondet_double(), in_max = nondet_double(), in_f = nondet_double(); int in_mv = nondet_int(), in_l = nondet_int();\n"
                          "  double x_min = in_min, x_max = in_max; int x_mv = in_mv;\n  ef_scan_step(&x_min, &x_max, &x_mv, in_f, in_l);\n  __CPROVER_assert(0, \"VP_REACH\");\n  return 0;\n}\n",
                  desc="extend_filtration, scan over the vertices (loop body): the running minimum / maximum of the vertex values and the largest vertex label are updated exactly"))
    for T, fl, tiers in (("_Float16", "half", ("quick", "thorough")), ("float", "float", ("quick", "thorough")), ("double", "double", ("thorough",))):
        if tier not in tiers:
            continue
        nd = f"nondet_{fl}()"
        half = T == "_Float16"
        G = f"#include <math.h>\n#include <float.h>\ntypedef {T} Filtration_value;\n{T} nondet_{fl}(void);\n{T} g_up, g_down;\n" \
            "typedef struct { Filtration_value first; int second; } vp_pair_fe;\nenum { UP, DOWN, EXTRA };\n"
        f_scale = Fn(ST, r"Extended_filtration_data extend_filtration\(\)", "ef_scale", "",
                     piece={"kind": "slice", "first": r"Filtration_value scale =", "last": r"if \([^;]*\)\s*scale = [^;]*;",
                            "sig": "Filtration_value ef_scale(Filtration_value minval, Filtration_value maxval)", "epilogue": "return scale;"})
        f_vals = Fn(ST, r"Extended_filtration_data extend_filtration\(\)", "ef_values", "",
                    piece={"kind": "slice", "first": r"Filtration_value scaled_v =", "last": r"this->insert_simplex\(vr, [^;]*\);",
                           "sig": "void ef_values(Filtration_value v, Filtration_value minval, Filtration_value scale)"},
                    subs=[(r"this->assign_filtration\(sh, ([^;]*)\);", r"g_up = \1;"), (r"this->insert_simplex\(vr, ([^;]*)\);", r"g_down = \1;")])
        f_dec = Fn(ST, r"std::pair<Filtration_value, Extended_simplex_type> decode_extended_filtration\(", "decode_extended_filtration", "",
                   sig_subs=[(r"std::pair<Filtration_value, Extended_simplex_type>", "vp_pair_fe"), (r"const Extended_filtration_data& efd", "Filtration_value efd_minval, Filtration_value efd_maxval")],
                   subs=[(r"std::pair<Filtration_value, Extended_simplex_type> p;", "vp_pair_fe p;"), (r"const Filtration_value& (\w+) = efd\.(\w+);", r"Filtration_value \1 = efd_\2;", 2),
                         (r"Extended_simplex_type::", "", 3), (r"std::numeric_limits<Filtration_value>::quiet_NaN\(\)", "NAN")])
        MINN = {"float": "FLT_MIN", "double": "DBL_MIN", "_Float16": "((_Float16)6.103515625e-05)"}[T]
        body = f"""
  {T} in_min = {nd}, in_max = {nd}, in_v = {nd};
  __CPROVER_assume(!isnan(in_min) && !isnan(in_max) && !isnan(in_v) && !isinf(in_min) && !isinf(in_max) && in_min <= in_v && in_v <= in_max);
#ifdef NORMAL_SPREAD
  /* the vertex-value spread and its reciprocal are normal numbers (or the spread is 0) */
  __CPROVER_assume(in_max == in_min || (in_max - in_min >= {MINN} && 1 / (in_max - in_min) >= {MINN}));
#endif
  {T} scale = ef_scale(in_min, in_max);
  ef_values(in_v, in_min, scale);
  __CPROVER_assert(g_up >= -2 && g_up <= -1, "K4.range.up: ascending value of an original vertex lies in [-2,-1]");
  __CPROVER_assert(g_down >= 1 && g_down <= 2, "K4.range.down: descending value of the coned vertex lies in [1,2]");
  vp_pair_fe du = decode_extended_filtration(g_up, in_min, in_max), dd = decode_extended_filtration(g_down, in_min, in_max), dx = decode_extended_filtration(-3, in_min, in_max);
  __CPROVER_assert(du.second == UP, "K4.decode.up: an ascending value decodes as UP");
  __CPROVER_assert(dd.second == DOWN, "K4.decode.down: a descending value decodes as DOWN");
  __CPROVER_assert(dx.second == EXTRA, "K4.decode.extra: the cone point (-3) decodes as EXTRA");
"""
        mono = f"""
  {T} in_min = {nd}, in_max = {nd}, in_v = {nd}, in_w = {nd};
  __CPROVER_assume(!isnan(in_min) && !isnan(in_max) && !isnan(in_v) && !isnan(in_w) && !isinf(in_min) && !isinf(in_max) && in_min <= in_v && in_v <= in_w && in_w <= in_max);
  __CPROVER_assume(in_max == in_min || (in_max - in_min >= {MINN} && 1 / (in_max - in_min) >= {MINN}));
  {T} scale = ef_scale(in_min, in_max);
  ef_values(in_v, in_min, scale); {T} up_v = g_up, down_v = g_down;
  ef_values(in_w, in_min, scale);
  __CPROVER_assert(up_v <= g_up, "K4.monotone.up: the ascending encoding never decreases with the vertex value");
  __CPROVER_assert(down_v >= g_down, "K4.monotone.down: the descending encoding never increases with the vertex value");
"""
        hmain = lambda b: "int main(void) {\n" + b + "\n  __CPROVER_assert(0, \"VP_REACH\");\n  return 0;\n}\n"
        inputs = ["in_min", "in_max", "in_v", "in_w"]
        nm = fl
        ut = "thorough" if T == "double" else "quick"
        if half:
            # IEEE binary16 binding: every triple of the format is covered (complete for the format, a bounded stand-in for
            # float/double, where one division + one multiplication is past every back end: > 600 s on MiniSat, kissat, z3)
            U.append(Unit(f"extended.{nm}.normal_spread", "C03", [f_scale, f_vals, f_dec], no_enforce=True, globals_=G, defines=["NORMAL_SPREAD"],
                          harness=hmain(body), inputs=inputs, replay=None, runs=[Run(backend="kissat", timeout=600)], tier="quick",
                          route="B", bound="Filtration_value bound to IEEE binary16 (every minval <= v <= maxval of the format); float/double only refutation-only",
                          desc="extend_filtration scalar kernel + decode_extended_filtration: encode lands in [-2,-1] / [1,2] and decodes as UP / DOWN / EXTRA whenever the spread and its reciprocal are normal numbers"))
            U.append(Unit(f"extended.{nm}.monotone", "C03", [f_scale, f_vals], no_enforce=True, globals_=G,
                          harness=hmain(mono), inputs=inputs, replay=None, runs=[Run(backend="kissat", timeout=600, route="R")], tier="thorough",
                          route="B", bound="IEEE binary16", desc="encode is monotone in the vertex value (binary16)"))
            continue
        to = 600 if T == "double" else (60 if tier == "quick" else 600)
        U.append(Unit(f"extended.{nm}.normal_spread", "C03", [f_scale, f_vals, f_dec], no_enforce=True, globals_=G, defines=["NORMAL_SPREAD"],
                      harness=hmain(body), inputs=inputs, replay=mk_replay_extended(T), runs=[Run(backend="kissat", timeout=to, route="R")], tier=ut,
                      desc=f"same statement in {T}: refutation-only (no back end finishes the proof; a counterexample would still be found and replayed)"))
        U.append(Unit(f"extended.{nm}.any_spread", "C03", [f_scale, f_vals, f_dec], no_enforce=True, globals_=G,
                      harness=hmain(body), inputs=inputs, replay=mk_replay_extended(T), runs=[Run(timeout=to, route="R")], tier=ut,
                      desc=f"same without the restriction on the spread ({T}): refuted today for subnormal spreads, spreads above 1/MIN and spreads that overflow (known finding F3)"))
    return U


NL_SUBS = [(r"std::numeric_limits<Filtration_value>::has_infinity", "VP_NL_HAS_INFINITY"),
           (r"std::numeric_limits<Filtration_value>::infinity\(\)", "VP_NL_INFINITY"),
           (r"std::numeric_limits<Filtration_value>::max\(\)", "VP_NL_MAX")]


def prune_units():
    """entry logic of prune_above_filtration: the recursive pruning may be skipped only when no value of the type can
    exceed the threshold ("pruning at a value keeps exactly the sublevel complex").  rec_prune_above_filtration and
    clear_filtration work on the tree (not extractable, R13) and are ghost stubs that record the call."""
    from vp.extract import grab_expr
    U = []
    for T, nl, top, nd in (("int", "#define VP_NL_HAS_INFINITY 0\n#define VP_NL_INFINITY 0\n#define VP_NL_MAX INT_MAX\n", "INT_MAX", "nondet_int()"),
                           ("double", "#define VP_NL_HAS_INFINITY 1\n#define VP_NL_INFINITY INFINITY\n#define VP_NL_MAX DBL_MAX\n", "INFINITY", "nondet_double()")):
        inf_expr = grab_expr(ST, r"inline static const Filtration_value inf_ = ([^;]*);", NL_SUBS)
        G = (f"#include <math.h>\n#include <float.h>\ntypedef {T} Filtration_value;\n{nl}"
             f"/* static data member Filtration_simplex_base_real::inf_, initialiser extracted from /repo */\n#define inf_ ({inf_expr})\n"
             "int nondet_int(void); double nondet_double(void);\n"
             "/* ghost stubs (R13): the tree-walking callees only record that they were called */\n"
             "int g_rec_calls; Filtration_value g_rec_arg; bool g_rec_result; int g_clear_calls;\n"
             "static void* root(void) { return (void*)0; }\n"
             "static bool rec_prune_above_filtration(void* sib, Filtration_value f) { g_rec_calls++; g_rec_arg = f; return g_rec_result; }\n"
             "static void clear_filtration(void) { g_clear_calls++; }\n")
        f_inf = Fn(ST, r"static const Filtration_value& get_infinity\(\)", "get_infinity", "", sig_subs=[(r"Filtration_value&", "Filtration_value")])
        con = f"""
__CPROVER_requires(g_rec_calls == 0 && g_clear_calls == 0 && VP_NONAN(filtration))
__CPROVER_ensures(g_rec_calls == 1 || (g_rec_calls == 0 && filtration == {top} && !__CPROVER_return_value))
__CPROVER_ensures(g_rec_calls == 0 || (g_rec_arg == filtration && __CPROVER_return_value == g_rec_result && g_clear_calls == (g_rec_result ? 1 : 0)))
__CPROVER_assigns(g_rec_calls, g_rec_arg, g_clear_calls)
"""
        f_pr = Fn(ST, r"bool prune_above_filtration\(const Filtration_value& filtration\)", "prune_above_filtration", con,
                  scopes=["Filtration_simplex_base_real"], subs=NL_SUBS and [(rx, rep, 0) for rx, rep in NL_SUBS],
                  canary=(r"return false;", "return true;"))
        nonan = "#define VP_NONAN(x) (!isnan(x))\n" if T == "double" else "#define VP_NONAN(x) 1\n"
        U.append(Unit(f"value.prune_above_filtration.entry.{T}", "C03", [f_inf, f_pr], enforce="prune_above_filtration", globals_=G + nonan,
                      inputs=["in_f", "g_rec_result"], replay=mk_replay_prune(T),
                      harness=f"int main(void) {{\n  {T} in_f = {nd}; g_rec_result = nondet_int() != 0; g_rec_calls = 0; g_clear_calls = 0;\n  prune_above_filtration(in_f);\n  __CPROVER_assert(0, \"VP_REACH\");\n  return 0;\n}}\n",
                      desc=f"prune_above_filtration (Filtration_value = {T}): the recursive pruning is skipped only for the largest value of the type; otherwise it runs on the given threshold, its result is returned and the cache is dropped exactly when something was removed"))
    return U


def ignorer_units():
    """initialize_filtration(bool): which simplices the filtration range leaves out.  With ignore_infinite_values the
    lambda ignores exactly the simplices whose value is the type's infinity (max() for integral types); by default it
    ignores nothing ("lists every (non-ignored) simplex")."""
    from vp.extract import grab_expr
    U = []
    for T, nl, top, nd in (("int", "#define VP_NL_HAS_INFINITY 0\n#define VP_NL_INFINITY 0\n#define VP_NL_MAX INT_MAX\n", "INT_MAX", "nondet_int()"),
                           ("double", "#define VP_NL_HAS_INFINITY 1\n#define VP_NL_INFINITY INFINITY\n#define VP_NL_MAX DBL_MAX\n", "INFINITY", "nondet_double()")):
        inf_expr = grab_expr(ST, r"inline static const Filtration_value inf_ = ([^;]*);", NL_SUBS)
        G = (f"#include <math.h>\n#include <float.h>\ntypedef {T} Filtration_value;\n{nl}#define inf_ ({inf_expr})\n"
             "int nondet_int(void); double nondet_double(void);\n")
        f_inf = Fn(ST, r"static const Filtration_value& get_infinity\(\)", "get_infinity", "", sig_subs=[(r"Filtration_value&", "Filtration_value")])
        nonan = "!isnan(fv)" if T == "double" else "1"
        f_ign = Fn(ST, r"void initialize_filtration\(bool ignore_infinite_values = false\) const", "ignorer_infinite", f"""
__CPROVER_requires({nonan})
__CPROVER_ensures(__CPROVER_return_value == (fv == {top}))
__CPROVER_assigns()
""", piece={"kind": "slice", "first": r"return filtration\(sh\) ==", "last": r";", "sig": "bool ignorer_infinite(Filtration_value fv)"},
                   scopes=["Filtration_simplex_base_real"], subs=[(r"filtration\(sh\)", "fv")] + [(rx, rep, 0) for rx, rep in NL_SUBS], canary=(r"==", "!="))
        U.append(Unit(f"order.ignorer.infinite_values.{T}", "C03", [f_inf, f_ign], enforce="ignorer_infinite", globals_=G, inputs=["in_f"],
                      replay=mk_replay_ignorer(T),
                      harness=f"int main(void) {{\n  {T} in_f = {nd};\n  ignorer_infinite(in_f);\n  __CPROVER_assert(0, \"VP_REACH\");\n  return 0;\n}}\n",
                      desc=f"initialize_filtration(true), Filtration_value = {T}: a simplex is left out of the filtration range exactly when its value is the type's infinity"))
    f_none = Fn(ST, r"void initialize_filtration\(bool ignore_infinite_values = false\) const", "ignorer_default", """
__CPROVER_ensures(!__CPROVER_return_value)
__CPROVER_assigns()
""", piece={"kind": "slice", "first": r"return false;", "last": r"return false;", "sig": "bool ignorer_default(int sh)"}, canary=(r"false", "true"))
    U.append(Unit("order.ignorer.default", "C03", [f_none], enforce="ignorer_default", globals_="int nondet_int(void);\n", inputs=["in_sh"],
                  harness="int main(void) {\n  int in_sh = nondet_int();\n  ignorer_default(in_sh);\n  __CPROVER_assert(0, \"VP_REACH\");\n  return 0;\n}\n",
                  desc="initialize_filtration(): by default no simplex is left out of the filtration range"))
    return U


def cache_units():
    """Simplex_tree::initialize_filtration(Comparator, Ignorer): the cache is rebuilt from scratch whatever it held -
    every non-ignored simplex of complex_simplex_range exactly once, then sorted as a whole.  The vector, the range
    and the sort are abstract (ghost arrays / trusted std algorithms); the loop is unwound (at most NSX simplices)."""
    NSX = 6
    G = (f"#define NSX {NSX}\ntypedef size_t Simplex_handle;\nsize_t g_nsimplex; bool g_ign[NSX]; Simplex_handle fv[2 * NSX]; size_t fv_n; unsigned g_sort_calls; size_t g_sort_n; size_t g_probe;\n"
         "static void vec_clear(void) { fv_n = 0; }\n"
         "static void vec_push(Simplex_handle sh) { __CPROVER_assert(fv_n < 2 * NSX, \"cache never grows beyond old content + one entry per simplex\"); fv[fv_n] = sh; fv_n++; }\n"
         "static bool ignore_simplex(Simplex_handle sh) { __CPROVER_assert(sh < NSX, \"handle of the range\"); return g_ign[sh]; }\n"
         "bool g_sort_cmp_ok;\n#define VP_STR(x) #x\n"
         "static bool vp_streq(const char* a, const char* b) { for (unsigned k = 0; k < 24; k++) { if (a[k] != b[k]) return false; if (a[k] == 0) return true; } return false; }\n"
         "static void vp_sort_whole_s(const char* cmp) { g_sort_calls++; g_sort_n = fv_n; g_sort_cmp_ok = vp_streq(cmp, \"is_before_in_filtration\"); }   /* std::stable_sort / tbb::parallel_sort(begin, end, <comparator expression>): permutes, trusted; the comparator expression must be the caller's */\n"
         "static unsigned x_count(Simplex_handle h) { unsigned c = 0; for (size_t k = 0; k < 2 * NSX; k++) if (k < fv_n && fv[k] == h) c++; return c; }\n"
         "static size_t x_kept(void) { size_t c = 0; for (size_t k = 0; k < NSX; k++) if (k < g_nsimplex && !g_ign[k]) c++; return c; }\n"
         "size_t nondet_size(void);\n")
    con = """
__CPROVER_requires(g_nsimplex <= NSX && fv_n <= NSX && g_probe < g_nsimplex && g_sort_calls == 0)
__CPROVER_ensures(x_count(g_probe) == (g_ign[g_probe] ? 0 : 1))
__CPROVER_ensures(fv_n == x_kept())
__CPROVER_ensures(g_sort_calls == 1 && g_sort_n == fv_n)
__CPROVER_ensures(g_sort_cmp_ok)
__CPROVER_assigns(fv, fv_n, g_sort_calls, g_sort_n, g_sort_cmp_ok)
"""
    subs = [(r"filtration_vect_\.clear\(\);", "vec_clear();", 0), (r"filtration_vect_\.reserve\([^;]*\);", "", 0),
            (r"for \(Simplex_handle (\w+) : complex_simplex_range\(\)\) \{", r"for (size_t vp_k = 0; vp_k < g_nsimplex; vp_k++) { Simplex_handle \1 = vp_k;"),
            (r"filtration_vect_\.push_back\(", "vec_push("),
            (r"(?:std::stable_sort|std::sort|tbb::parallel_sort)\(filtration_vect_\.begin\(\), filtration_vect_\.end\(\), ([^;]*)\);", r'vp_sort_whole_s("\1");')]
    U = []
    for tbb in (False, True):
        fn = Fn(ST, r"void initialize_filtration\(Comparator&& is_before_in_filtration, Ignorer&& ignore_simplex\) const", "initialize_filtration", con,
                sig_subs=[(r"\(Comparator&& is_before_in_filtration, Ignorer&& ignore_simplex\)", "(void)")], subs=subs,
                pp_defines=(("GUDHI_USE_TBB",) if tbb else ()), canary=(r"if \(ignore_simplex\((\w+)\)\) continue;", r"if (!ignore_simplex(\1)) continue;"))
        U.append(Unit("order.cache.initialize_filtration" + (".tbb" if tbb else ""), "C03", [fn], enforce="initialize_filtration", globals_=G, unwind=26,
                      route="B", bound=f"at most {NSX} simplices in the complex, at most {NSX} stale entries in the cache; which simplices are ignored is symbolic",
                      inputs=["g_nsimplex", "fv_n", "g_probe", "g_ign"], replay=replay_by_native_search,
                      harness="int main(void) {\n  g_nsimplex = nondet_size(); fv_n = nondet_size(); g_probe = nondet_size(); g_sort_calls = 0;\n  initialize_filtration();\n  __CPROVER_assert(0, \"VP_REACH\");\n  return 0;\n}\n",
                      desc="Simplex_tree::initialize_filtration(Comparator, Ignorer)" + (" (GUDHI_USE_TBB branch)" if tbb else "") + ": whatever the cache held before, afterwards it lists every non-ignored simplex of the complex exactly once and no ignored one, and was sorted as a whole exactly once, with the CALLER'S comparator, in the sequential and in the TBB branch alike ('It always recomputes the cache, even if one already exists')"))
    return U

def mfnd_units():
    """Simplex_tree::make_filtration_non_decreasing: (a) the per-simplex visitor (the lambda handed to for_each_simplex):
    a simplex of positive dimension takes the maximum of its own value and the values of its boundary simplices, and
    `modified` records whether anything changed; (b) the wrapper: the cache is dropped exactly when something changed and
    that flag is returned.  The boundary range is a ghost array; intersect_lifetimes is replaced by its contract."""
    U = []
    NB = 4
    sig_i = r"bool intersect_lifetimes\(Arithmetic_filtration_value& f1, const Arithmetic_filtration_value& f2\)"
    c_il = """
__CPROVER_requires(!isnan(*f1) && !isnan(f2))
__CPROVER_ensures(*f1 == (__CPROVER_old(*f1) < f2 ? f2 : __CPROVER_old(*f1)))
__CPROVER_ensures(__CPROVER_return_value == (__CPROVER_old(*f1) < f2))
__CPROVER_assigns(*f1)
"""
    f_il = Fn(FU, sig_i, "intersect_lifetimes", c_il, constexpr=[(r"std::numeric_limits<Arithmetic_filtration_value>::has_quiet_NaN", True)], subs=[(r"std::isnan", "isnan", 0)])
    G = (f"#include <math.h>\n#define NB {NB}\ntypedef double Filtration_value; typedef double Arithmetic_filtration_value; typedef size_t Simplex_handle;\n"
         "double g_filt[NB + 1]; size_t g_nb; bool modified;\n"
         "static double x_max(void) { double m = g_filt0; for (size_t k = 0; k < NB; k++) if (k < g_nb && m < g_filt[k + 1]) m = g_filt[k + 1]; return m; }\n"
         "static bool vals_ok(void) { bool ok = g_nb <= NB && !isnan(g_filt[0]); for (size_t k = 0; k < NB; k++) ok = ok && !isnan(g_filt[k + 1]); return ok; }\n"
         "double nondet_double(void); size_t nondet_size(void); int nondet_int(void); bool nondet_bool(void);\n").replace("double g_filt[NB + 1];", "double g_filt[NB + 1]; double g_filt0;")
    con = """
__CPROVER_requires(vals_ok() && sh == 0 && g_filt0 == g_filt[0])
__CPROVER_ensures(dim == 0 ? (g_filt[0] == g_filt0 && modified == __CPROVER_old(modified)) : (g_filt[0] == x_max() && modified == (__CPROVER_old(modified) || g_filt[0] != g_filt0)))
__CPROVER_assigns(g_filt[0], modified)
"""
    f_vis = Fn(ST, r"bool make_filtration_non_decreasing\(\)", "mfnd_visit", con,
               piece={"kind": "lambda", "name": "fun", "sig": "void mfnd_visit(Simplex_handle sh, int dim)"},
               subs=[(r"Filtration_value& (\w+) = _to_node_it\(sh\)->second\.filtration\(\);", r"Filtration_value* vp_cur = &g_filt[sh];\n#define \1 (*vp_cur)"),
                     (r"for \(Simplex_handle (\w+) : boundary_simplex_range\(sh\)\) \{", r"for (size_t vp_b = 0; vp_b < g_nb; vp_b++) { Simplex_handle \1 = vp_b + 1;"),
                     (r"(\w+)->second\.filtration\(\)", r"g_filt[\1]"),
                     (r"intersect_lifetimes\((\w+), ", r"intersect_lifetimes(&(\1), ")],
               canary=(r"if \(dim == 0\) return;", "if (dim <= 1) return;"))
    U.append(Unit("value.make_filtration_non_decreasing.visit", "C03", [f_il, f_vis], enforce="mfnd_visit", replace=["intersect_lifetimes"], globals_=G, unwind=NB + 2,
                  route="B", bound=f"simplices with at most {NB} boundary simplices (dimension <= {NB - 1}); values symbolic, non-NaN", inputs=["in_dim", "g_nb", "g_filt"],
                  replay=replay_by_native_search,
                  harness="int main(void) {\n  int in_dim = nondet_int(); g_nb = nondet_size(); modified = nondet_bool();\n  for (int k = 0; k <= NB; k++) g_filt[k] = nondet_double();\n  g_filt0 = g_filt[0];\n  mfnd_visit(0, in_dim);\n  __CPROVER_assert(0, \"VP_REACH\");\n  return 0;\n}\n",
                  desc="make_filtration_non_decreasing, visitor of one simplex: a vertex is left alone; any other simplex ends at the maximum of its value and its boundary simplices' values, and the modified flag is raised exactly when its value changed (never lowered)"))
    G2 = "unsigned g_fes_calls, g_clear_calls; bool g_fes_result; bool nondet_bool(void);\nstatic void for_each_simplex_stub(bool* m) { g_fes_calls++; *m = *m || g_fes_result; }\nstatic void clear_filtration(void) { g_clear_calls++; }\n"
    f_w = Fn(ST, r"bool make_filtration_non_decreasing\(\)", "make_filtration_non_decreasing", """
__CPROVER_requires(g_fes_calls == 0 && g_clear_calls == 0)
__CPROVER_ensures(__CPROVER_return_value == g_fes_result && g_fes_calls == 1)
__CPROVER_ensures(g_clear_calls == (g_fes_result ? 1 : 0))
__CPROVER_assigns(g_fes_calls, g_clear_calls)
""", subs=[(r"for_each_simplex\((\w+)\);", r"for_each_simplex_stub(&modified);")], canary=(r"return modified;", "return !modified;"))
    U.append(Unit("value.make_filtration_non_decreasing.cache", "C03", [f_w], enforce="make_filtration_non_decreasing", globals_=G2, inputs=["g_fes_result"],
                  replay=replay_by_native_search,
                  harness="int main(void) {\n  g_fes_result = nondet_bool(); g_fes_calls = 0; g_clear_calls = 0;\n  make_filtration_non_decreasing();\n  __CPROVER_assert(0, \"VP_REACH\");\n  return 0;\n}\n",
                  desc="make_filtration_non_decreasing, wrapper: every simplex is visited once (for_each_simplex), the filtration cache is dropped exactly when a value changed, and that is what is returned"))
    return U

def reset_units():
    """Simplex_tree::reset_filtration: every value of dimension >= min_dim is rewritten by the recursive worker (abstract)
    and the filtration cache is dropped afterwards."""
    G = ("typedef double Filtration_value;\nunsigned g_rec_calls, g_clear_calls; double g_rec_v; int g_rec_d; bool g_clear_before_rec; int root_;\n"
         "static void rec_reset_stub(int* sib, Filtration_value v, int d) { g_rec_calls++; g_rec_v = v; g_rec_d = d; }\n"
         "static void clear_filtration(void) { g_clear_calls++; if (g_rec_calls == 0) g_clear_before_rec = true; }\ndouble nondet_double(void); int nondet_int(void);\n")
    fn = Fn(ST, r"void reset_filtration\(const Filtration_value& filt_value, int min_dim = 0\)", "reset_filtration", """
__CPROVER_requires(g_rec_calls == 0 && g_clear_calls == 0 && !g_clear_before_rec && filt_value == filt_value)
__CPROVER_ensures(g_rec_calls == 1 && g_rec_v == filt_value && g_rec_d == min_dim)
__CPROVER_ensures(g_clear_calls >= 1 && !g_clear_before_rec)
__CPROVER_assigns(g_rec_calls, g_rec_v, g_rec_d, g_clear_calls, g_clear_before_rec)
""", sig_subs=[(r"int min_dim = 0", "int min_dim")], subs=[(r"rec_reset_filtration\(&root_, ", "rec_reset_stub(&root_, ")], canary=(r"min_dim\);", "min_dim + 1);"))
    return [Unit("value.reset_filtration.cache", "C03", [fn], enforce="reset_filtration", globals_=G, inputs=["in_v", "in_d"], replay=replay_by_native_search,
                 harness="int main(void) {\n  double in_v = nondet_double(); int in_d = nondet_int(); g_rec_calls = 0; g_clear_calls = 0; g_clear_before_rec = 0;\n  reset_filtration(in_v, in_d);\n  __CPROVER_assert(0, \"VP_REACH\");\n  return 0;\n}\n",
                 desc="reset_filtration: the recursive worker runs once from the root with the given value and minimal dimension, and the filtration cache is dropped after the values changed")] + [reset_step_unit()]

def reset_step_unit():
    """rec_reset_filtration, loop body: the simplex is rewritten exactly when the remaining depth is <= 0, and its children are
    visited exactly when it has some, one level deeper with the same value (the previous unit had the worker as an abstract stub)."""
    G = ("#include <limits.h>\ntypedef double Filtration_value;\nunsigned g_assign_calls, g_rec_calls; double g_assign_v, g_rec_v; int g_rec_d;\ndouble nondet_double(void); int nondet_int(void);\n")
    fn = Fn(ST, r"void rec_reset_filtration\(Siblings \* sib, const Filtration_value& filt_value, int min_depth\)", "reset_step", """
__CPROVER_requires(g_assign_calls == 0 && g_rec_calls == 0 && filt_value == filt_value && min_depth > INT_MIN)
__CPROVER_ensures(min_depth <= 0 ? (g_assign_calls == 1 && g_assign_v == filt_value) : g_assign_calls == 0)
__CPROVER_ensures(hc != 0 ? (g_rec_calls == 1 && g_rec_v == filt_value && g_rec_d == min_depth - 1) : g_rec_calls == 0)
__CPROVER_assigns(g_assign_calls, g_rec_calls, g_assign_v, g_rec_v, g_rec_d)
""", piece={"kind": "loop", "ordinal": 0, "sig": "void reset_step(int hc, Filtration_value filt_value, int min_depth)"},
            subs=[(r"sh->second\.assign_filtration\((\w+)\);", r"g_assign_calls++; g_assign_v = \1;"), (r"has_children\(sh\)", "hc"),
                  (r"rec_reset_filtration\(sh->second\.children\(\), (\w+), ([^;]*)\);", r"g_rec_calls++; g_rec_v = \1; g_rec_d = \2;")],
            canary=(r"min_depth <= 0", "min_depth < 0"))
    return Unit("value.reset_filtration.step", "C03", [fn], enforce="reset_step", globals_=G, inputs=["in_hc", "in_v", "in_d"], replay=replay_by_native_search,
                harness="int main(void) {\n  int in_hc = nondet_int(), in_d = nondet_int(); double in_v = nondet_double(); g_assign_calls = 0; g_rec_calls = 0;\n  reset_step(in_hc, in_v, in_d);\n  __CPROVER_assert(0, \"VP_REACH\");\n  return 0;\n}\n",
                desc="rec_reset_filtration, one simplex (loop body): rewritten with the given value exactly when the remaining depth is <= 0 (dimension >= min_dim); its children are visited exactly when it has some, with depth - 1 and the same value")

def expansion_units():
    """Simplex_tree::expansion(max_dim): nothing happens for max_dim <= 1; otherwise the filtration cache is dropped BEFORE the
    first insertion and every vertex that has children gets its siblings expanded up to max_dim - 1 (the recursive worker
    and the root dictionary are abstract)."""
    NR = 4
    G = (f"#define NR {NR}\ntypedef size_t Dictionary_it;\nint dimension_; size_t g_nroot; bool g_hc[NR]; unsigned g_clear_calls; unsigned g_exp_calls; unsigned g_exp_mask; int g_exp_k; bool g_exp_before_clear, g_exp_bad_k;\n"
         "static void clear_filtration(void) { g_clear_calls++; }\n"
         "static bool has_children_stub(size_t r) { __CPROVER_assert(r < NR, \"root member\"); return g_hc[r]; }\n"
         "static void sib_exp_stub(size_t r, int k) { if (g_clear_calls == 0) g_exp_before_clear = true; if (g_exp_calls > 0 && k != g_exp_k) g_exp_bad_k = true; g_exp_calls++; g_exp_mask |= 1u << r; g_exp_k = k; dimension_ = nondet_int(); __CPROVER_assume(dimension_ >= -1 && dimension_ <= 100); }\n"
         "static unsigned x_mask(void) { unsigned m = 0; for (size_t r = 0; r < NR; r++) if (r < g_nroot && g_hc[r]) m |= 1u << r; return m; }\n"
         "int nondet_int(void); size_t nondet_size(void);\n").replace("static void clear_filtration", "int nondet_int(void);\nstatic void clear_filtration", 1)
    fn = Fn(ST, r"void expansion\(int max_dim\)", "expansion", """
__CPROVER_requires(g_nroot <= NR && g_clear_calls == 0 && g_exp_calls == 0 && g_exp_mask == 0 && !g_exp_before_clear && !g_exp_bad_k && max_dim <= 100)
__CPROVER_ensures(max_dim > 1 || (g_clear_calls == 0 && g_exp_calls == 0 && dimension_ == __CPROVER_old(dimension_)))
__CPROVER_ensures(max_dim <= 1 || (g_clear_calls >= 1 && !g_exp_before_clear))
__CPROVER_ensures(max_dim <= 1 || (g_exp_mask == x_mask() && !g_exp_bad_k && (g_exp_calls == 0 || g_exp_k == max_dim - 1)))
__CPROVER_assigns(dimension_, g_clear_calls, g_exp_calls, g_exp_mask, g_exp_k, g_exp_before_clear, g_exp_bad_k)
""", subs=[(r"for \(Dictionary_it (\w+) = root_\.members_\.begin\(\);\s*\1 != root_\.members_\.end\(\); \+\+\1\)", r"for (Dictionary_it \1 = 0; \1 < g_nroot; ++\1)"),
           (r"has_children\((\w+)\)", r"has_children_stub(\1)"), (r"siblings_expansion\((\w+)->second\.children\(\), ([^;]*)\);", r"sib_exp_stub(\1, \2);")],
            canary=(r"max_dim - 1\)", "max_dim)"))
    return [Unit("order.cache.expansion", "C03", [fn], enforce="expansion", globals_=G, unwind=NR + 2, route="B", bound=f"at most {NR} vertices in the root dictionary; which of them have children is symbolic",
                 inputs=["in_k", "g_nroot", "g_hc"], replay=replay_by_native_search,
                 harness="int main(void) {\n  int in_k = nondet_int(); g_nroot = nondet_size(); dimension_ = nondet_int(); g_clear_calls = 0; g_exp_calls = 0; g_exp_mask = 0; g_exp_before_clear = 0; g_exp_bad_k = 0;\n  expansion(in_k);\n  __CPROVER_assert(0, \"VP_REACH\");\n  return 0;\n}\n",
                 desc="expansion(max_dim): a no-op for max_dim <= 1; otherwise the filtration cache is dropped before the first simplex is inserted, and exactly the vertices with children have their siblings expanded, all with max_dim - 1")]

def extended_prologue_units():
    """extend_filtration, everything before the scan over the vertices: the filtration cache is dropped before the tree is
    touched, and the running minimum / maximum / largest vertex start at the identities of min / max."""
    G = ("#include <math.h>\n#include <limits.h>\ntypedef double Filtration_value; typedef int Vertex_handle;\nunsigned g_clear_calls; double g_minval, g_maxval; int g_maxvert;\n"
         "static void clear_filtration(void) { g_clear_calls++; }\n#define get_infinity() INFINITY\n")
    fn = Fn(ST, r"Extended_filtration_data extend_filtration\(\)", "extend_prologue", """
__CPROVER_requires(g_clear_calls == 0)
__CPROVER_ensures(g_clear_calls == 1)
__CPROVER_ensures(isinf(g_minval) && g_minval > 0 && isinf(g_maxval) && g_maxval < 0 && g_maxvert == INT_MIN)
__CPROVER_assigns(g_clear_calls, g_minval, g_maxval, g_maxvert)
""", piece={"kind": "slice", "first": r"(?<=\{)", "last": r"(?=for \(auto \w+ = root_\.members\(\)\.begin\(\))", "sig": "void extend_prologue(void)",
            "epilogue": "g_minval = minval; g_maxval = maxval; g_maxvert = maxvert;"},
            scopes=["Filtration_simplex_base_real"], subs=[(r"std::numeric_limits<Vertex_handle>::min\(\)", "INT_MIN")],
            canary=(r"Filtration_value maxval = -get_infinity\(\);", "Filtration_value maxval = get_infinity();"))
    return [Unit("extended.prologue", "C03", [fn], enforce="extend_prologue", globals_=G, inputs=[], replay=replay_by_native_search,
                 harness="int main(void) {\n  g_clear_calls = 0;\n  extend_prologue();\n  __CPROVER_assert(0, \"VP_REACH\");\n  return 0;\n}\n",
                 desc="extend_filtration, before the scan: the filtration cache is dropped first (the tree is about to be rewritten), and the running minimum, maximum and largest vertex start at +infinity, -infinity and the smallest vertex handle")]

def extended_rest_units():
    """extend_filtration, the three remaining stretches: the cone point, the per-simplex case split, the epilogue."""
    U = []
    ef = r"Extended_filtration_data extend_filtration\(\)"
    # (a) between the scan and the loop over the simplices
    Ga = ("#include <limits.h>\ntypedef double Filtration_value; typedef int Vertex_handle; int nondet_int(void);\n"
          "unsigned g_copy_calls, g_raw_calls; int g_cone_vertex, g_cone_after_copy, g_maxvert_out; double g_cone_value;\n")
    fa = Fn(ST, ef, "ef_cone_point", """
__CPROVER_requires(g_copy_calls == 0 && g_raw_calls == 0 && maxvert < INT_MAX)
__CPROVER_ensures(g_copy_calls == 1 && g_raw_calls == 1 && g_cone_after_copy == 1)
__CPROVER_ensures(g_cone_vertex == maxvert + 1 && g_maxvert_out == maxvert + 1 && g_cone_value == -3)
__CPROVER_assigns(g_copy_calls, g_raw_calls, g_cone_vertex, g_cone_after_copy, g_cone_value, g_maxvert_out)
""", piece={"kind": "slice", "first": r"GUDHI_CHECK\(maxvert <", "last": r"(?=Filtration_value scale =)", "sig": "void ef_cone_point(Vertex_handle maxvert)",
            "epilogue": "g_maxvert_out = maxvert;"},
            subs=[(r"std::numeric_limits<Vertex_handle>::max\(\)", "INT_MAX"), (r"Simplex_tree st_copy = \*this;", "g_copy_calls++;"),
                  (r"this->insert_simplex_raw\(\{(\w+)\}, ([^;]*)\);", r"g_raw_calls++; g_cone_vertex = \1; g_cone_value = \2; g_cone_after_copy = (g_copy_calls == 1);")],
            canary=(r"maxvert\+\+;", ";"))
    U.append(Unit("extended.cone_point", "C03", [fa], enforce="ef_cone_point", globals_=Ga, inputs=["in_mv"], replay=replay_by_native_search,
                  harness="int main(void) {\n  int in_mv = nondet_int(); g_copy_calls = 0; g_raw_calls = 0;\n  ef_cone_point(in_mv);\n  __CPROVER_assert(0, \"VP_REACH\");\n  return 0;\n}\n",
                  desc="extend_filtration, between the scan and the loop over the simplices: for every largest vertex below the maximal handle (the documented precondition; the GUDHI_CHECK is then unreachable and the increment cannot overflow) the copy of the complex is taken before the cone point is inserted, and the cone point is the vertex maxvert + 1 with value -3"))
    # (b) the case split inside the loop over the simplices
    Gb = ("#include <math.h>\ntypedef double Filtration_value; double nondet_double(void); int nondet_int(void);\n"
          "unsigned g_assign_calls, g_insert_calls; double g_up, g_down;\n"
          "/* equal as values, or both not-a-number (infinite inputs can make v - minval or the product a NaN) */\n#define VP_SAMEV(a, b) ((isnan(a) && isnan(b)) || (a) == (b))\n")
    fb = Fn(ST, ef, "ef_simplex_case", """
__CPROVER_requires(g_assign_calls == 0 && g_insert_calls == 0 && !isnan(v) && !isnan(minval) && !isnan(scale))
__CPROVER_ensures(g_assign_calls == 1 && g_insert_calls == 1)
__CPROVER_ensures(dim == 0 ==> VP_SAMEV(g_down, -g_up))
__CPROVER_ensures(dim != 0 ==> (g_up == -3 && g_down == -3))
__CPROVER_assigns(g_assign_calls, g_insert_calls, g_up, g_down)
""", piece={"kind": "slice", "first": r"if \(this->dimension\(sh\) == 0\) \{", "last": r"this->insert_simplex\(vr, -3\);\s*\}",
            "sig": "void ef_simplex_case(int dim, Filtration_value vin, Filtration_value minval, Filtration_value scale)"},
            subs=[(r"this->dimension\(sh\)", "dim"), (r"const Filtration_value& v = this->filtration\(sh\);", "Filtration_value v = vin;"),
                  (r"this->assign_filtration\(sh, ([^;]*)\);", r"g_assign_calls++; g_up = \1;", 2), (r"this->insert_simplex\(vr, ([^;]*)\);", r"g_insert_calls++; g_down = \1;", 2)],
            canary=(r"g_down = 2 - scaled_v;", "g_down = 2 + scaled_v;"))
    fb.contract = fb.contract.replace("!isnan(v)", "!isnan(vin)").replace("(v - minval)", "(vin - minval)")
    U.append(Unit("extended.simplex_case", "C03", [fb], enforce="ef_simplex_case", globals_=Gb, inputs=["in_dim", "in_v", "in_min", "in_scale"], replay=replay_by_native_search,
                  runs=[Run(backend="kissat", timeout=120)],
                  harness="int main(void) {\n  int in_dim = nondet_int(); double in_v = nondet_double(), in_min = nondet_double(), in_scale = nondet_double(); g_assign_calls = 0; g_insert_calls = 0;\n  ef_simplex_case(in_dim, in_v, in_min, in_scale);\n  __CPROVER_assert(0, \"VP_REACH\");\n  return 0;\n}\n",
                  desc="extend_filtration, one simplex of the copy: a vertex and its cone get opposite values (the descending value is exactly the negation of the ascending one, for every double; the formula itself is carried by the extended.<type>.* units - stating it here as well puts two copies of a double multiplication in one query, which no back end finishes); every other simplex and its cone get -3; exactly one assignment and one insertion per simplex"))
    # (c) the epilogue
    Gc = ("typedef double Filtration_value; double nondet_double(void);\nunsigned g_mfnd_calls; double g_ret_min, g_ret_max; int g_ret_after_mfnd;\n"
          "typedef struct { double minval, maxval; } Extended_filtration_data;\n")
    fc = Fn(ST, ef, "ef_epilogue", """
__CPROVER_requires(g_mfnd_calls == 0)
__CPROVER_ensures(g_mfnd_calls == 1 && g_ret_after_mfnd == 1)
__CPROVER_ensures(__CPROVER_return_value.minval == minval && __CPROVER_return_value.maxval == maxval)
__CPROVER_assigns(g_mfnd_calls, g_ret_after_mfnd)
""", piece={"kind": "slice", "first": r"this->make_filtration_non_decreasing\(\);", "last": r"return Extended_filtration_data\([^;]*\);",
            "sig": "Extended_filtration_data ef_epilogue(Filtration_value minval, Filtration_value maxval)"},
            subs=[(r"this->make_filtration_non_decreasing\(\);", "g_mfnd_calls++;"),
                  (r"return Extended_filtration_data\((\w+), (\w+)\);", r"{ Extended_filtration_data r; r.minval = \1; r.maxval = \2; g_ret_after_mfnd = (g_mfnd_calls == 1); return r; }")],
            canary=(r"r\.minval = minval;", "r.minval = maxval;"))
    U.append(Unit("extended.epilogue", "C03", [fc], enforce="ef_epilogue", globals_=Gc, inputs=["in_min", "in_max"], replay=replay_by_native_search,
                  harness="int main(void) {\n  double in_min = nondet_double(), in_max = nondet_double(); __CPROVER_assume(in_min == in_min && in_max == in_max); g_mfnd_calls = 0;\n  ef_epilogue(in_min, in_max);\n  __CPROVER_assert(0, \"VP_REACH\");\n  return 0;\n}\n",
                  desc="extend_filtration, epilogue: make_filtration_non_decreasing runs exactly once after the values are assigned, and the returned data is (minimum, maximum) of the vertex values in this order"))
    return U

NATIVE_RESULTS = []


def replay_by_native_search(unit, failure):
    """A refuted obligation over ghost tables has no input-level counterexample of its own; the failing input is
    searched for by the bounded native stand-in of the same run (the Simplex_tree sweep)."""
    for n in NATIVE_RESULTS:
        if n["unit"] == "native.simplex_tree" and n.get("failures"):
            c = n["failures"][0]
            return {"reproduced": True, "detail": f"native.simplex_tree on the real classes: {c.get('case')}", "native_case": c}
    return {"reproduced": None, "detail": "no swept input shows a difference on the real classes"}


def units(tier):
    U = []
    G = GLUE + "bool g_rlo[NS][NS];\n"
    # K1 reverse_lexicographic_order
    U.append(Unit("order.reverse_lexicographic_order", "C03", [fn_rlo(C_RLO, canary=(r"return \*it1 < \*it2;", "return *it1 > *it2;"))],
                  enforce="reverse_lexicographic_order", globals_=G, unwind=LMAX + 2, route="B", bound=f"simplices with at most {LMAX} vertices (dimension <= {LMAX - 1}); labels symbolic",
                  inputs=["in_a", "in_b", "g_word", "g_len"],
                  harness=H("  Simplex_handle in_a = nondet_int(), in_b = nondet_int();\n  reverse_lexicographic_order(in_a, in_b);"),
                  desc="reverse_lexicographic_order: irreflexive; a proper face is always before its coface (and never after)"))
    lem = """  __CPROVER_assume(words_ok());
  bool ab = reverse_lexicographic_order(0, 1), ba = reverse_lexicographic_order(1, 0), bc = reverse_lexicographic_order(1, 2), ac = reverse_lexicographic_order(0, 2);
  __CPROVER_assert(!(ab && ba), "asymmetric");
  __CPROVER_assert(same_word(0, 1) || ab || ba, "total on distinct simplices");
  __CPROVER_assert(!(ab && bc) || ac, "transitive");"""
    U.append(Unit("order.reverse_lexicographic_order.strict_total_order", "C03", [fn_rlo("")], no_enforce=True, globals_=G,
                  unwind=LMAX + 2, route="B", bound=f"simplices with at most {LMAX} vertices", harness=H(lem), inputs=["g_word", "g_len"],
                  desc="lemma: reverse_lexicographic_order is a strict total order on distinct simplices"))
    # K2 value-first comparator
    U.append(Unit("order.is_before_in_totally_ordered_filtration", "C03",
                  [fn_rlo(C_RLO_TABLE), fn_before(C_BEFORE, canary=(r"g_filt\[sh1\] < g_filt\[sh2\];", "g_filt[sh1] > g_filt[sh2];"))],
                  enforce="is_before", replace=["reverse_lexicographic_order"], globals_=G, unwind=LMAX + 2, inputs=["in_a", "in_b", "g_filt"],
                  harness=H("  Simplex_handle in_a = nondet_int(), in_b = nondet_int();\n  is_before(in_a, in_b);"),
                  desc="is_before_in_totally_ordered_filtration: value first (the sequence never decreases), ties resolved by reverse_lexicographic_order (faces first); all non-NaN doubles"))
    lem2 = """  __CPROVER_assume(!isnan(g_filt[0]) && !isnan(g_filt[1]) && !isnan(g_filt[2]));
  /* reverse_lexicographic_order is a strict total order on distinct simplices (proved for <= 5 vertices by the lemma unit above) */
  for (int a = 0; a < NS; a++) for (int b = 0; b < NS; b++) { __CPROVER_assume(a == b ? !g_rlo[a][b] : (g_rlo[a][b] != g_rlo[b][a]));
    for (int c = 0; c < NS; c++) __CPROVER_assume(!(g_rlo[a][b] && g_rlo[b][c]) || g_rlo[a][c]); }
  bool ab = is_before(0, 1), ba = is_before(1, 0), bc = is_before(1, 2), ac = is_before(0, 2), aa = is_before(0, 0);
  __CPROVER_assert(!aa, "irreflexive");
  __CPROVER_assert(ab != ba, "total and asymmetric on distinct simplices");
  __CPROVER_assert(!(ab && bc) || ac, "transitive");"""
    U.append(Unit("order.is_before_in_totally_ordered_filtration.strict_total_order", "C03", [fn_rlo(C_RLO_TABLE), fn_before("")],
                  no_enforce=True, replace=["reverse_lexicographic_order"], globals_=G, unwind=LMAX + 2, harness=H(lem2), inputs=["g_filt"],
                  desc="lemma: the filtration comparator is a strict total order given that reverse_lexicographic_order is one - any correct sort yields one sequence, whatever the schedule"))
    U += lifetimes_units()
    U += prune_units()
    U += ignorer_units()
    U += cache_units()
    U += mfnd_units()
    U += reset_units()
    U += expansion_units()
    U += extended_prologue_units()
    U += extended_rest_units()
    U += extended_units(tier)
    # K6: the cubical comparator (shared with C13)
    for u in c13.comparator_units():
        u.uid = "cubical." + u.uid
        u.prop = "C03"
        U.append(u)
    return U


# ------------------------------------------------------------------------------------------------ replay
_built = set()


def _bin(name):
    src = os.path.join(VERIF, "replay", name + ".cpp")
    out = os.path.join(VERIF, "build", "replay_" + name)
    if out not in _built:
        os.makedirs(os.path.dirname(out), exist_ok=True)
        inc = ["-I" + REPO + "/src/Simplex_tree/include", "-I" + REPO + "/src/common/include"]
        rc, o, e, s = sh(["g++", "-std=c++17", "-O1", "-w"] + inc + [src, "-o", out, "-ltbb"], 600)
        if rc != 0:
            raise RuntimeError("replay build failed: " + (o + e)[-1500:])
        _built.add(out)
    return out


def _val(v):
    s = str(v)
    return s[5:] if s.startswith("bits:") else s.rstrip("ulUL")


def mk_replay_lifetimes(which, T):
    def rp(unit, failure):
        i = failure["inputs"]
        if "in_f1" not in i or "in_f2" not in i:
            return {"reproduced": None, "detail": "inputs not in the trace"}
        cmd = [_bin("simplex_values"), which, T, _val(i["in_f1"]), _val(i["in_f2"])]
        rc, o, e, s = sh(cmd, 60)
        return {"reproduced": True if rc == 1 else (False if rc == 0 else None), "cmd": " ".join(cmd), "detail": (o + e).strip()[-500:], "rc": rc}
    return rp


def mk_replay_extended(T):
    def rp(unit, failure):
        i = failure["inputs"]
        if not all(k in i for k in ("in_min", "in_max", "in_v")):
            return {"reproduced": None, "detail": "inputs not in the trace"}
        cmd = [_bin("simplex_values"), "extended", T, _val(i["in_min"]), _val(i["in_max"]), _val(i["in_v"])]
        rc, o, e, s = sh(cmd, 60)
        return {"reproduced": True if rc == 1 else (False if rc == 0 else None), "cmd": " ".join(cmd), "detail": (o + e).strip()[-500:], "rc": rc}
    return rp


def mk_replay_prune(T):
    def rp(unit, failure):
        i = failure["inputs"]
        if "in_f" not in i:
            return {"reproduced": None, "detail": "threshold not in the trace"}
        cmd = [_bin("simplex_values"), "prune", T, _val(i["in_f"]), "0"]
        rc, o, e, s = sh(cmd, 60)
        return {"reproduced": True if rc == 1 else (False if rc == 0 else None), "cmd": " ".join(cmd), "detail": (o + e).strip()[-500:], "rc": rc}
    return rp


def mk_replay_ignorer(T):
    def rp(unit, failure):
        i = failure["inputs"]
        if "in_f" not in i:
            return {"reproduced": None, "detail": "value not in the trace"}
        cmd = [_bin("simplex_values"), "ignore", T, _val(i["in_f"]), "0"]
        rc, o, e, s = sh(cmd, 60)
        return {"reproduced": True if rc == 1 else (False if rc == 0 else None), "cmd": " ".join(cmd), "detail": (o + e).strip()[-500:], "rc": rc}
    return rp


def _f(bits):
    import struct
    b = bits[5:] if str(bits).startswith("bits:") else None
    if b is None:
        return None
    if len(b) == 32:
        return struct.unpack(">f", int(b, 2).to_bytes(4, "big"))[0]
    return struct.unpack(">d", int(b, 2).to_bytes(8, "big"))[0]


def failure_class(unit, f):
    """input classes of the known finding F3 (extend_filtration): exotic spreads"""
    if not unit.uid.startswith("extended."):
        return None
    i = f.get("inputs", {})
    lo, hi = _f(i.get("in_min", "")), _f(i.get("in_max", ""))
    if lo is None or hi is None:
        return None
    import struct
    isf = ".float." in unit.uid
    if isf:
        def f32(x):
            try:
                return struct.unpack("f", struct.pack("f", x))[0]
            except OverflowError:
                return float("inf") if x > 0 else float("-inf")
        spread = f32(hi - lo)
        mn = 1.1754943508222875e-38
        rec = f32(1 / spread) if spread != 0 else float("inf")
    else:
        spread = hi - lo
        mn = 2.2250738585072014e-308
        rec = 1 / spread if spread != 0 else float("inf")
    if spread == float("inf"):
        return "spread-overflows-to-infinity"
    if spread != 0 and spread < mn:
        return "spread-subnormal"
    if spread != 0 and rec < mn:
        return "reciprocal-of-spread-subnormal"
    return None


def native(tier, seed, bdir, only=None):
    """bounded native stand-in for the whole-tree clauses of C03 (filtration range as a function of the filtered complex,
    make_filtration_non_decreasing, prune_above_filtration, cache invalidation on copy-assignment, insertion-history
    independence): the Simplex_tree operations are not extractable, so NO contract covers them; this sweep over every
    complex on 4 vertices is the labelled bounded substitute and is never counted as proved."""
    import fnmatch
    import json
    uid = "native.simplex_tree"
    if only and not fnmatch.fnmatch(uid, only):
        return []
    os.makedirs(bdir, exist_ok=True)
    exe = os.path.join(bdir, "simplex_tree_sweep")
    rc, o, e, s = sh(["g++", "-std=c++17", "-O2", "-w", "-I" + REPO + "/src/Simplex_tree/include", "-I" + REPO + "/src/common/include",
                      os.path.join(VERIF, "native", "simplex_tree_sweep.cpp"), "-o", exe, "-ltbb"], 900)
    if rc != 0:
        return [{"unit": uid, "status": "error", "notes": (o + e)[-1500:], "cases": 0, "failures": []}]
    samples = 40 if tier == "thorough" else 6
    rc, o, e, secs = sh([exe, str(seed), str(samples)], 3600)
    rec = {"unit": uid, "route": "B", "kind": "native (all 114 complexes on 4 vertices; values sampled from VERIF_SEED)", "status": "ok", "cases": 0, "failures": [],
           "seconds": round(secs, 2), "bound": f"every simplicial complex on the vertices 0..3; {samples} value assignments from {{0,1,2,3}} per complex and option set; option sets default, full_featured, int-valued, int-valued with stable handles",
           "desc": "filtration_simplex_range (each simplex once, non-decreasing, faces first, canonical, history- and option-independent), insert_simplex_and_subfaces (minimum rule), make_filtration_non_decreasing, prune_above_filtration at every threshold, copy-assignment over a filled cache, explicit re-initialisation over an existing cache, move construction / assignment (the moved-from tree lists what it holds), extend_filtration over an existing cache (2n+1 simplices, valid range)"}
    try:
        js = json.loads(o.strip().split("\n")[-1])
        rec["cases"] = rec["obligations"] = js["checked"]
        for m in js["first"]:
            m["id"] = f"case{len(rec['failures'])}"
            m["input_class"] = None
            rec["failures"].append(m)
    except (ValueError, IndexError):
        rec["status"] = "error"
        rec["notes"] = f"native run failed rc={rc}: {(o + e)[-600:]}"
    return [rec]


def selftest():
    try:
        _bin("simplex_values")
        c13.replay_bin(os.path.join(VERIF, "replay", "cubical_cmp.cpp"), os.path.join(VERIF, "build", "replay_cubical_cmp"))
        return "native replay programs build against /repo's headers"
    except Exception as ex:
        return "FAIL " + str(ex)[:500]


TRUSTED = [
    "assumed contract of simplex_vertex_range / Simplex_vertex_iterator (R13): yields the vertices of a simplex in strictly decreasing order - hand-written stub in the unit's glue",
    "bindings: Simplex_handle = index into ghost tables, Vertex_handle = int, Filtration_value = double (float in the quick tier of the extended-filtration kernel), int for the no-NaN branch",
    "std::stable_sort / std::sort / tbb::parallel_sort are assumed correct (L4: a correct sort w.r.t. a strict total order produces one sequence); the enumeration that feeds them is not under contract",
    "vp/prelude.h; extraction rules (vp/extract.py); CBMC 6.11.0 + MiniSat; IEEE-754 round-to-nearest",
]
ASSUMPTIONS = [
    "NOT decided by contracts: make_filtration_non_decreasing and prune_above_filtration as whole-tree operations, the 'lists every simplex exactly once' clause, insertion-history independence, cache invalidation - the Simplex_tree container is not extractable; they are covered only by the bounded native stand-in native.simplex_tree (all complexes on 4 vertices), never counted as proved; TBB schedule independence rests on uniqueness of sorting a strict total order",
    "the clause 'decoding returns the original vertex value' is only approximate by the library's own documentation and is not turned into a contract",
    "known finding F3: extend_filtration with a subnormal vertex-value spread or a spread above 1/MIN (recorded, not repaired)",
]
