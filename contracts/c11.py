"""C11 - Ripser: contract sidecar for the encoding / arithmetic interface.

"The answer does not depend on the matrix layout or on which internal simplex encoding the dispatcher picks" is a
parametricity statement: the reduction uses the encoding only through operator()(v,k) / get_max_vertex /
num_extra_bits and the matrix only through operator()(i,j) / size().  If every implementation satisfies one
interface contract the generic algorithm cannot tell them apart.  Those contracts and the arithmetic leaves are in
reach; the reduction itself (apparent pairs, clearing, heaps, hash maps) is not - the headline clause "equals the
Rips barcode" is NOT decided here.
"""
import os

from vp.extract import Fn, REPO
from vp.driver import Unit, Run, VERIF, sh

LEVEL = "proof"
RP = "src/Ripser/include/gudhi/ripser.h"
U128 = "src/common/include/gudhi/uint128.h"


def H(decls, call, post=""):
    return "int main(void) {\n" + decls + "\n  " + call + "\n" + post + "\n  __CPROVER_assert(0, \"VP_REACH\");\n  return 0;\n}\n"


ND = "int nondet_int(void); unsigned nondet_uint(void); unsigned long nondet_ulong(void); unsigned char nondet_uchar(void); float nondet_float(void);\n"


def fn_log2up(T, contract=None, canary=True):
    c = contract or """
__CPROVER_requires(n >= 1)
__CPROVER_ensures(__CPROVER_return_value >= 0 && __CPROVER_return_value <= 32)
__CPROVER_ensures((uint64_t)__CPROVER_old(n) <= ((uint64_t)1 << __CPROVER_return_value))
__CPROVER_ensures(__CPROVER_return_value == 0 || ((uint64_t)1 << (__CPROVER_return_value - 1)) < (uint64_t)__CPROVER_old(n))
__CPROVER_assigns()
"""
    return Fn(RP, r"constexpr int log2up\(vertex_t n\)", "log2up", c, canary=(r"--n;", "") if canary else None)


def bitfield_units(U):
    for sname, ST, DIG in (("u64", "uint64_t", 64), ("u128", "unsigned __int128", 128)):
        TD = {"vertex_t": "int", "dimension_t": "int8_t", "simplex_t": ST}
        G = ND + f"#define VP_DIGITS {DIG}\nint bits_per_vertex; int extra_bits;\n"
        SUBS = [(r"static_assert\([^;]*\);", "", 0), (r"std::numeric_limits<simplex_t>::digits", "VP_DIGITS", 0)]
        c_log_spec = """
__CPROVER_requires(n >= 1)
__CPROVER_ensures(__CPROVER_return_value >= 0 && __CPROVER_return_value <= 31)
__CPROVER_ensures((uint64_t)__CPROVER_old(n) <= ((uint64_t)1 << __CPROVER_return_value))
__CPROVER_ensures(__CPROVER_return_value == 0 || ((uint64_t)1 << (__CPROVER_return_value - 1)) < (uint64_t)__CPROVER_old(n))
__CPROVER_assigns()
"""
        f_ctor = Fn(RP, r"Bitfield_encoding\(vertex_t n, dimension_t k\) : bits_per_vertex\(log2up\(n\)\)", "bitfield_ctor", f"""
__CPROVER_requires(n >= 1 && k >= 1)
__CPROVER_ensures(((uint64_t)n <= ((uint64_t)1 << bits_per_vertex)) && (bits_per_vertex == 0 || ((uint64_t)1 << (bits_per_vertex - 1)) < (uint64_t)n))
__CPROVER_ensures((g_thrown != 0) == (bits_per_vertex * k > VP_DIGITS))
__CPROVER_ensures(g_thrown != 0 || extra_bits == VP_DIGITS - bits_per_vertex * k)
__CPROVER_assigns(bits_per_vertex, extra_bits, g_thrown)
""", subs=SUBS, canary=(r"extra_bits < 0", "extra_bits < -1"))
        U.append(Unit(f"bitfield.{sname}.ctor", "C11", [fn_log2up("int", c_log_spec, canary=False), f_ctor], enforce="bitfield_ctor",
                      replace=["log2up"], typedefs=TD, globals_=G, inputs=["in_n", "in_k"],
                      harness=H("  int in_n = nondet_int(); int8_t in_k = (int8_t)nondet_int(); g_thrown = 0;", "bitfield_ctor(in_n, in_k);"),
                      desc=f"Bitfield_encoding<{ST}> constructor: bits_per_vertex = ceil(log2 n); refuses exactly when k tuples do not fit the simplex type"))
        ENC_REQ = f"bits_per_vertex >= 0 && bits_per_vertex <= 31 && k >= 0 && k <= 8 && bits_per_vertex * k <= VP_DIGITS && n >= 0 && ((uint64_t)n < ((uint64_t)1 << bits_per_vertex) || (bits_per_vertex == 0 && n == 0))"
        f_enc = Fn(RP, r"simplex_t operator\(\)\(vertex_t n, dimension_t k\) const", "bf_encode", f"""
__CPROVER_requires({ENC_REQ})
__CPROVER_ensures(__CPROVER_old(k) != 0 || __CPROVER_return_value == 1)
__CPROVER_ensures(__CPROVER_old(k) == 0 || __CPROVER_return_value == ((simplex_t)n << (bits_per_vertex * (__CPROVER_old(k) - 1))))
__CPROVER_ensures(__CPROVER_old(k) == 0 || bits_per_vertex * __CPROVER_old(k) >= VP_DIGITS || __CPROVER_return_value < ((simplex_t)1 << (bits_per_vertex * __CPROVER_old(k))))
__CPROVER_assigns()
""", within=r"class Bitfield_encoding \{", sig_subs=[(r"operator\(\)", "bf_encode")], subs=SUBS, canary=(r"\(bits_per_vertex \* k\)", "(bits_per_vertex + k)"))
        U.append(Unit(f"bitfield.{sname}.encode", "C11", [f_enc], enforce="bf_encode", typedefs=TD, globals_=G, inputs=["in_n", "in_k", "bits_per_vertex"],
                      harness=H("  int in_n = nondet_int(); int8_t in_k = (int8_t)nondet_int(); bits_per_vertex = nondet_int();", "bf_encode(in_n, in_k);"),
                      desc=f"Bitfield_encoding<{ST}>::operator(): vertex v at position k is v << bits*(k-1), below 2^(bits*k)"))
        # round trip over a whole simplex: idx = sum enc(v_j, j), v_k > ... > v_1 >= 0: the top vertex is recovered and
        # what remains is the code of the face; codes are strictly monotone in the top vertex
        f_enc2 = Fn(RP, r"simplex_t operator\(\)\(vertex_t n, dimension_t k\) const", "bf_encode", "", within=r"class Bitfield_encoding \{",
                    sig_subs=[(r"operator\(\)", "bf_encode")], subs=SUBS)
        f_max = Fn(RP, r"vertex_t get_max_vertex\(const simplex_t idx, dimension_t k, const vertex_t\) const", "bf_get_max_vertex", """
__CPROVER_requires(g_k >= 1 && g_k <= 5 && k == g_k && bits_per_vertex >= 1 && bits_per_vertex <= 31 && bits_per_vertex * g_k <= VP_DIGITS)
__CPROVER_requires(idx == g_code && code_ok())
__CPROVER_ensures(__CPROVER_return_value == g_v[g_k - 1])
__CPROVER_assigns()
""", within=r"class Bitfield_encoding \{", sig_subs=[(r"const vertex_t\)", "const vertex_t vp_unused)")], subs=SUBS,
                   canary=(r"--k;", ""))
        GG = G + f"""
int g_v[5]; int g_k; {ST} g_code;
/* ghost: g_code is the sum of the codes of g_k strictly decreasing vertices g_v[g_k-1] > ... > g_v[0] >= 0, each below 2^bits */
static bool code_ok(void) {{
  bool ok = true; {ST} c = 0;
  for (int j = 0; j < 5; j++) if (j < g_k) {{
    ok = ok && g_v[j] >= 0 && (uint64_t)g_v[j] < ((uint64_t)1 << bits_per_vertex) && (j == 0 || g_v[j] > g_v[j - 1]);
    c += (({ST})g_v[j]) << (bits_per_vertex * j);
  }}
  return ok && c == g_code;
}}
"""
        U.append(Unit(f"bitfield.{sname}.get_max_vertex", "C11", [f_max], enforce="bf_get_max_vertex", typedefs=TD, globals_=GG, unwind=7,
                      inputs=["g_v", "g_k", "bits_per_vertex"],
                      harness=H("  for (int j = 0; j < 5; j++) g_v[j] = nondet_int();\n  g_k = nondet_int(); bits_per_vertex = nondet_int();\n"
                                f"  __CPROVER_assume(g_k >= 1 && g_k <= 5 && bits_per_vertex >= 1 && bits_per_vertex <= 31 && bits_per_vertex * g_k <= VP_DIGITS);\n"
                                f"  g_code = 0; for (int j = 0; j < 5; j++) if (j < g_k) g_code += (({ST})g_v[j]) << (bits_per_vertex * j);",
                                "bf_get_max_vertex(g_code, (int8_t)g_k, 0);"),
                      desc=f"Bitfield_encoding<{ST}>::get_max_vertex: for the code of any simplex with <= 5 vertices returns its largest vertex"))
        lem = f"""
  __CPROVER_assume(code_ok());
  int top = bf_get_max_vertex(g_code, (int8_t)g_k, 0);
  {ST} rest = g_code - bf_encode(top, (int8_t)g_k);
  {ST} face = 0; for (int j = 0; j < 5; j++) if (j + 1 < g_k) face += (({ST})g_v[j]) << (bits_per_vertex * j);
  __CPROVER_assert(top == g_v[g_k - 1], "decode: the largest vertex is recovered");
  __CPROVER_assert(rest == face, "decode: removing the top vertex leaves the code of the remaining face");
  __CPROVER_assert(g_k == 1 || rest < bf_encode(top, (int8_t)g_k), "codes of faces stay below the code of the top vertex: distinct simplices get distinct codes");
"""
        U.append(Unit(f"bitfield.{sname}.round_trip", "C11", [f_enc2, Fn(RP, f_max.select, "bf_get_max_vertex", "", within=f_max.within, sig_subs=f_max.sig_subs, subs=SUBS)],
                      no_enforce=True, typedefs=TD, globals_=GG, unwind=7, inputs=["g_v", "g_k", "bits_per_vertex"],
                      harness=H("  for (int j = 0; j < 5; j++) g_v[j] = nondet_int();\n  g_k = nondet_int(); bits_per_vertex = nondet_int();\n"
                                f"  __CPROVER_assume(g_k >= 1 && g_k <= 5 && bits_per_vertex >= 1 && bits_per_vertex <= 31 && bits_per_vertex * g_k <= VP_DIGITS);\n"
                                f"  g_code = 0; for (int j = 0; j < 5; j++) if (j < g_k) g_code += (({ST})g_v[j]) << (bits_per_vertex * j);", "", post=lem),
                      desc=f"lemma: one decoding step of get_simplex_vertices inverts the encoding (Bitfield_encoding<{ST}>, simplices with <= 5 vertices)"))


def simplex_vertices_units(U):
    """Rips_filtration::get_simplex_vertices over Bitfield_encoding: decodes the code of a simplex into its vertices,
    largest first (simplices with at most 5 vertices, bounded)"""
    for sname, ST, DIG in (("u64", "uint64_t", 64), ("u128", "unsigned __int128", 128)):
        TD = {"vertex_t": "int", "dimension_t": "int8_t", "simplex_t": ST}
        SUBS = [(r"static_assert\([^;]*\);", "", 0), (r"std::numeric_limits<simplex_t>::digits", "VP_DIGITS", 0)]
        G = ND + f"""#define VP_DIGITS {DIG}
int bits_per_vertex; int extra_bits;
int g_v[5]; int g_k; {ST} g_code; int g_out[5];
static bool code_ok(void) {{
  bool ok = g_k >= 1 && g_k <= 5 && bits_per_vertex >= 1 && bits_per_vertex <= 31 && bits_per_vertex * g_k <= VP_DIGITS; {ST} c = 0;
  for (int j = 0; j < 5; j++) if (j < g_k) {{ ok = ok && g_v[j] >= 0 && (uint64_t)g_v[j] < ((uint64_t)1 << bits_per_vertex) && (j == 0 || g_v[j] > g_v[j - 1]); c += (({ST})g_v[j]) << (bits_per_vertex * j); }}
  return ok && c == g_code;
}}
static bool decoded_ok(void) {{ bool ok = true; for (int j = 0; j < 5; j++) if (j < g_k) ok = ok && g_out[j] == g_v[g_k - 1 - j]; return ok; }}
"""
        f_enc = Fn(RP, r"simplex_t operator\(\)\(vertex_t n, dimension_t k\) const", "bf_encode", "", within=r"class Bitfield_encoding \{", sig_subs=[(r"operator\(\)", "bf_encode")], subs=SUBS)
        f_max = Fn(RP, r"vertex_t get_max_vertex\(const simplex_t idx, dimension_t k, const vertex_t\) const", "bf_get_max_vertex", "", within=r"class Bitfield_encoding \{",
                   sig_subs=[(r"const vertex_t\)", "const vertex_t vp_unused)")], subs=SUBS)
        f_gsv = Fn(RP, r"OutputIterator get_simplex_vertices\(simplex_t idx, const dimension_t dim, vertex_t n,\s*OutputIterator out\) const", "get_simplex_vertices", """
__CPROVER_requires(code_ok() && idx == g_code && dim == g_k - 1 && n >= 1 && out == g_out)
__CPROVER_ensures(decoded_ok())
__CPROVER_ensures(__CPROVER_return_value == g_out + (g_k - 1))
__CPROVER_assigns(g_out)
""", sig_subs=[(r"OutputIterator", "int*", 2)], subs=[(r"simplex_encoding\.get_max_vertex\(", "bf_get_max_vertex("), (r"simplex_encoding\(", "bf_encode(")],
                   canary=(r"idx -= bf_encode\(n, k\);", "idx -= bf_encode(n, k - 1);"))
        U.append(Unit(f"bitfield.{sname}.get_simplex_vertices", "C11", [f_enc, f_max, f_gsv], enforce="get_simplex_vertices", typedefs=TD, globals_=G, unwind=7, route="B",
                      bound="simplices with at most 5 vertices", inputs=["g_v", "g_k", "bits_per_vertex"],
                      harness=H("  for (int j = 0; j < 5; j++) g_v[j] = nondet_int();\n  g_k = nondet_int(); bits_per_vertex = nondet_int();\n"
                                f"  __CPROVER_assume(g_k >= 1 && g_k <= 5 && bits_per_vertex >= 1 && bits_per_vertex <= 31 && bits_per_vertex * g_k <= VP_DIGITS);\n"
                                f"  g_code = 0; for (int j = 0; j < 5; j++) if (j < g_k) g_code += (({ST})g_v[j]) << (bits_per_vertex * j);",
                                "get_simplex_vertices(g_code, (int8_t)(g_k - 1), 1 << 30, g_out);"),
                      desc=f"get_simplex_vertices over Bitfield_encoding<{ST}>: the code of a simplex is decoded into exactly its vertices, largest first"))


def boundary_enumerator_units(U):
    """Simplex_boundary_enumerator over Bitfield_encoding<uint64_t>: the facets of a simplex, from the one opposite
    the largest vertex down, with coefficient (-1)^position * c modulo p (simplices with at most 4 vertices, bounded)"""
    ST = "uint64_t"
    TD = {"vertex_t": "int", "dimension_t": "int8_t", "simplex_t": ST, "coefficient_t": "uint_least32_t", "value_t": "float"}
    SUBS = [(r"static_assert\([^;]*\);", "", 0), (r"std::numeric_limits<simplex_t>::digits", "VP_DIGITS", 0)]
    G = ND + """#define VP_DIGITS 64
int bits_per_vertex; int extra_bits;
typedef struct { bool has; } vp_opt;
typedef int diameter_entry_t;                 /* opaque here: the enumerator only hands it to the parent */
uint64_t idx_below, idx_above; int j; int8_t k; int8_t dim; diameter_entry_t simplex;
/* the parent Rips_filtration (R13 stubs): */
int g_n; uint64_t g_simplex_idx; uint_least32_t g_coef, modulus; uint64_t g_face_idx; uint_least32_t g_face_coef; int g_made;
#define PARENT_get_index(s) (g_simplex_idx)
#define PARENT_compute_diameter(i, d) (0.0f)
#define PARENT_get_coefficient(s) (g_coef)
#define PARENT_make_diameter_entry(d, i, c) (g_face_idx = (i), g_face_coef = (c), g_made++, (vp_opt){true})
int g_v[5]; int g_k;
"""
    f_enc = Fn(RP, r"simplex_t operator\(\)\(vertex_t n, dimension_t k\) const", "bf_encode", "", within=r"class Bitfield_encoding \{", sig_subs=[(r"operator\(\)", "bf_encode")], subs=SUBS)
    f_max = Fn(RP, r"vertex_t get_max_vertex\(const simplex_t idx, dimension_t k, const vertex_t\) const", "bf_get_max_vertex", "", within=r"class Bitfield_encoding \{",
               sig_subs=[(r"const vertex_t\)", "const vertex_t vp_unused)")], subs=SUBS)
    PS = [(r"const coefficient_t modulus = parent\.modulus;", "", 0), (r"parent\.get_index\(", "PARENT_get_index(", 0), (r"parent\.n\b", "g_n", 0), (r"parent\.compute_diameter\(", "PARENT_compute_diameter(", 0),
          (r"parent\.modulus", "modulus", 0), (r"parent\.get_coefficient\(", "PARENT_get_coefficient(", 0), (r"parent\.make_diameter_entry\(", "PARENT_make_diameter_entry(", 0),
          (r"simplex_encoding\.get_max_vertex\(", "bf_get_max_vertex(", 0), (r"simplex_encoding\(", "bf_encode(", 0), (r"std::nullopt", "(vp_opt){false}", 0),
          (r"std::optional<diameter_entry_t>", "vp_opt", 0)]
    W = r"class Simplex_boundary_enumerator \{"
    f_set = Fn(RP, r"void set_simplex\(const diameter_entry_t _simplex, const dimension_t _dim\)", "be_set_simplex", "", within=W, subs=[s_ for s_ in PS if s_[0].startswith("parent")])
    f_has = Fn(RP, r"bool has_next\(\)", "has_next", "", within=W)
    f_next = Fn(RP, r"std::optional<diameter_entry_t> next\(\)", "be_next", "", within=W, sig_subs=[(r"std::optional<diameter_entry_t>", "vp_opt")], subs=PS)
    lem = """
  for (int t = 0; t < 5; t++) g_v[t] = nondet_int();
  g_k = nondet_int(); bits_per_vertex = nondet_int(); modulus = nondet_uint(); g_coef = nondet_uint();
  __CPROVER_assume(g_k >= 1 && g_k <= 4 && bits_per_vertex >= 1 && bits_per_vertex <= 6 && (modulus == 2 || modulus == 3 || modulus == 5 || modulus == 7 || modulus == 11) && g_coef >= 1 && g_coef < modulus);
  uint64_t code = 0;
  for (int t = 0; t < 5; t++) if (t < g_k) { __CPROVER_assume(g_v[t] >= 0 && (uint64_t)g_v[t] < ((uint64_t)1 << bits_per_vertex) && (t == 0 || g_v[t] > g_v[t - 1])); code += ((uint64_t)g_v[t]) << (bits_per_vertex * t); }
  g_n = 1 << bits_per_vertex; g_simplex_idx = code; g_made = 0;
  be_set_simplex(0, (int8_t)(g_k - 1));
  for (int t = 0; t < 5; t++) if (t < g_k) {
    int p = g_k - 1 - t;                      /* position of the vertex that is removed: largest first */
    vp_opt r = be_next();
    uint64_t want = 0;
    for (int q = 0; q < 5; q++) if (q < g_k && q != p) want += ((uint64_t)g_v[q]) << (bits_per_vertex * (q < p ? q : q - 1));
    __CPROVER_assert(r.has && g_made == t + 1, "one facet per call");
    __CPROVER_assert(g_face_idx == want, "facet index: the code of the simplex without that vertex");
    __CPROVER_assert(g_face_coef == ((p & 1) ? (modulus - g_coef) % modulus : g_coef), "facet coefficient: (-1)^position times the coefficient, modulo p");
  }
  vp_opt last = be_next();
  __CPROVER_assert(!last.has && g_made == g_k, "exactly dim + 1 facets");
"""
    U.append(Unit("boundary_enumerator.u64", "C11", [f_enc, f_max, f_set, f_has, f_next], no_enforce=True, typedefs=TD, globals_=G, unwind=7, route="B",
                  bound="simplices with at most 4 vertices, at most 6 bits per vertex, modulus in {2, 3, 5, 7, 11}", inputs=["g_v", "g_k", "bits_per_vertex", "modulus", "g_coef"],
                  harness=H("", "", post=lem), runs=[Run(backend="kissat", timeout=600)],
                  desc="Simplex_boundary_enumerator over Bitfield_encoding<uint64_t>: yields exactly the dim + 1 facets (largest vertex removed first), each with index = code without that vertex and coefficient (-1)^position * c mod p"))


def coboundary_enumerator_units(U, tier="quick"):
    """dense Simplex_coboundary_enumerator_ over Bitfield_encoding<uint64_t>: set_simplex / has_next / next_raw yield the
    cofacets sigma + {j}, j from the largest vertex down, with index = code of the union, coefficient (-1)^(number of
    vertices of sigma below j) * c, diameter = max(diam sigma, max_i dist(j, v_i)) (at most 6 points, sigma with at most 3
    vertices, bounded)"""
    TD = {"vertex_t": "int", "dimension_t": "int8_t", "simplex_t": "uint64_t", "coefficient_t": "uint_least32_t", "value_t": "float"}
    SUBS = [(r"static_assert\([^;]*\);", "", 0), (r"std::numeric_limits<simplex_t>::digits", "VP_DIGITS", 0)]
    G = ND + """#include <math.h>
#define VP_DIGITS 64
#ifndef NP
#define NP 6
#endif
#ifndef KMAXS
#define KMAXS 3
#endif
int bits_per_vertex; int extra_bits;
typedef struct { bool has; } vp_opt;
typedef int diameter_entry_t;
typedef struct { int a[4]; size_t n; } vp_vec_i;
uint64_t idx_below, idx_above; int j; int8_t k; vp_vec_i vertices; diameter_entry_t simplex;
float g_d[NP][NP]; int g_n; uint64_t g_simplex_idx; float g_simplex_diam; uint_least32_t g_coef, modulus;
uint64_t g_cof_idx; uint_least32_t g_cof_coef; float g_cof_diam; int g_made; int g_v[3]; int g_k;
#define DIST_size() (g_n)
#define DIST_at(a, b) (g_d[(a)][(b)])
#define PARENT_get_index(s) (g_simplex_idx)
#define PARENT_get_coefficient(s) (g_coef)
#define PARENT_make_diameter_entry(d, i, c) (g_cof_diam = (d), g_cof_idx = (i), g_cof_coef = (c), g_made++, (vp_opt){true})
#define GET_DIAMETER_SIMPLEX (g_simplex_diam)
/* parent.get_simplex_vertices (its own unit): the vertices of the simplex, largest first, written through a reverse iterator */
#define PARENT_get_simplex_vertices_into_vertices() do { for (int t_ = 0; t_ < 3; t_++) if (t_ < g_k) vertices.a[t_] = g_v[t_]; } while (0)
"""
    f_enc = Fn(RP, r"simplex_t operator\(\)\(vertex_t n, dimension_t k\) const", "bf_encode", "", within=r"class Bitfield_encoding \{", sig_subs=[(r"operator\(\)", "bf_encode")], subs=SUBS)
    W = r"class=typename DistanceMatrix2::Category> class Simplex_coboundary_enumerator_ \{"
    PS = [(r"const coefficient_t modulus = parent\.modulus;", "", 0), (r"parent\.get_index\(", "PARENT_get_index(", 0), (r"dist\.size\(\)", "DIST_size()", 0),
          (r"vertices\.resize\(_dim \+ 1\);", "vertices.n = _dim + 1;", 0),
          (r"parent\.get_simplex_vertices\([^;]*\);", "PARENT_get_simplex_vertices_into_vertices();", 0),
          (r"for \(vertex_t i : vertices\) cofacet_diameter = std::max\(cofacet_diameter, dist\(j, i\)\);",
           "for (size_t vi_ = 0; vi_ < vertices.n; vi_++) { vertex_t i = vertices.a[vi_]; cofacet_diameter = VP_MAX(cofacet_diameter, DIST_at(j, i)); }", 0),
          (r"get_diameter\(simplex\)", "GET_DIAMETER_SIMPLEX", 0), (r"parent\.modulus", "modulus", 0), (r"parent\.get_coefficient\(", "PARENT_get_coefficient(", 0),
          (r"parent\.make_diameter_entry\(", "PARENT_make_diameter_entry(", 0), (r"simplex_encoding\(", "bf_encode(", 0), (r"std::nullopt", "(vp_opt){false}", 0),
          (r"std::optional<diameter_entry_t>", "vp_opt", 0), (r"GUDHI_assert\(k != -1\);", "__CPROVER_assert(k != -1, \"GUDHI_assert k != -1\");", 0)]
    f_set = Fn(RP, r"void set_simplex\(const diameter_entry_t _simplex, const dimension_t _dim\)", "ce_set_simplex", "", within=W, subs=PS)
    f_has = Fn(RP, r"bool has_next\(bool all_cofacets = true\)", "has_next", "", within=W, sig_subs=[(r" = true", "")], subs=PS)
    f_next = Fn(RP, r"std::optional<diameter_entry_t> next_raw\(bool all_cofacets = true\)", "ce_next_raw", "", within=W,
                sig_subs=[(r"std::optional<diameter_entry_t>", "vp_opt"), (r" = true", "")], subs=PS)
    lem = """
  g_n = nondet_int(); g_k = nondet_int(); bits_per_vertex = 3; modulus = nondet_uint(); g_coef = nondet_uint(); g_simplex_diam = nondet_float();
  __CPROVER_assume(g_n >= 2 && g_n <= NP && g_k >= 1 && g_k <= KMAXS && g_k < g_n && (modulus == 2 || modulus == 3 || modulus == 5) && g_coef >= 1 && g_coef < modulus && !isnan(g_simplex_diam));
  for (int a = 0; a < NP; a++) for (int b = 0; b < NP; b++) { g_d[a][b] = nondet_float(); __CPROVER_assume(!isnan(g_d[a][b])); }
  uint64_t code = 0;
  for (int t = 0; t < 3; t++) { g_v[t] = nondet_int(); if (t < g_k) { __CPROVER_assume(g_v[t] >= 0 && g_v[t] < g_n && (t == 0 || g_v[t] < g_v[t - 1])); code += ((uint64_t)g_v[t]) << (bits_per_vertex * (g_k - 1 - t)); } }
  g_simplex_idx = code; g_made = 0;                 /* g_v[0] > g_v[1] > ...: largest first */
  ce_set_simplex(0, (int8_t)(g_k - 1));
  int expected = 0;
  for (int cand = NP - 1; cand >= 0; cand--) if (cand < g_n) {
    bool in = false; int below = 0; for (int t = 0; t < 3; t++) if (t < g_k) { in = in || g_v[t] == cand; if (g_v[t] < cand) below++; }
    if (in) continue;
    vp_opt r = ce_next_raw(true); expected++;
    uint64_t want = 0; int pos = 0;                  /* code of the union: vertices sorted increasingly, position from 0 */
    for (int w = 0; w < NP; w++) { bool use = w == cand; for (int t = 0; t < 3; t++) if (t < g_k && g_v[t] == w) use = true; if (use) { want += ((uint64_t)w) << (bits_per_vertex * pos); pos++; } }
    float wd = g_simplex_diam; for (int t = 0; t < 3; t++) if (t < g_k && wd < g_d[cand][g_v[t]]) wd = g_d[cand][g_v[t]];
    __CPROVER_assert(r.has && g_made == expected, "one cofacet per vertex outside the simplex, largest vertex first");
    __CPROVER_assert(g_cof_idx == want, "cofacet index: the code of the simplex with that vertex added");
    __CPROVER_assert(g_cof_coef == ((below & 1) ? (modulus - g_coef) % modulus : g_coef), "cofacet coefficient: (-1)^(vertices below the new one) times the coefficient");
    __CPROVER_assert(g_cof_diam == wd, "cofacet diameter: max of the simplex diameter and the distances to the new vertex");
  }
  vp_opt last = ce_next_raw(true);
  __CPROVER_assert(!last.has && g_made == g_n - g_k, "exactly n - (dim + 1) cofacets");
"""
    big = tier == "thorough"
    U.append(Unit("coboundary_enumerator.dense.u64", "C11", [f_enc, f_set, f_has, f_next], no_enforce=True, typedefs=TD, globals_=G, unwind=8, route="B",
                  defines=([] if big else ["NP=4", "KMAXS=2"]),
                  bound=("at most 6 points, simplices with at most 3 vertices" if big else "at most 4 points, simplices with at most 2 vertices") + ", 3 bits per vertex, modulus in {2, 3, 5}", inputs=["g_v", "g_k", "g_n", "modulus", "g_coef"],
                  harness=H("", "", post=lem), runs=[Run(backend="kissat", timeout=900)],
                  desc="dense coboundary enumerator over Bitfield_encoding<uint64_t>: exactly the cofacets sigma + {j} (largest j first) with the right index, sign and diameter"))


def coeff_units(U):
    """entry_with_coeff_t packing: index << bits | (coefficient - 1)"""
    for sname, ST, DIG in (("u64", "uint64_t", 64), ("u128", "unsigned __int128", 128)):
        TD = {"simplex_t": ST, "coefficient_t": "uint_least32_t"}
        G = ND + f"#define VP_DIGITS {DIG}\nint bits_for_coeff;\ntypedef struct {{ {ST} content; }} entry_with_coeff_t;\n"
        SUBS = [(r"GUDHI_assert\(", "__CPROVER_assert(1 || ", 0)]
        f_nb = Fn(RP, r"int num_bits_for_coeff\(\) const", "num_bits_for_coeff", "")
        IDX = f"bits_for_coeff >= 0 && bits_for_coeff <= 16"
        f_ctor = Fn(RP, r"entry_with_coeff_t\(simplex_t _index, coefficient_t _coefficient, int bits_for_coeff\)\s*: content", "make_entry_raw", "",
                    sig_subs=[(r"^void entry_with_coeff_t", "void make_entry_raw")], subs=[(r"content = ", "g_e.content = ")])
        lem = f"""
  {ST} idx = nondet_ulong();
#if VP_DIGITS > 64
  idx = (idx << 64) | nondet_ulong();
#endif
  uint_least32_t c = nondet_uint(), c2 = nondet_uint();
  bits_for_coeff = nondet_int();
  __CPROVER_assume({IDX} && (idx >> (VP_DIGITS - 1 - bits_for_coeff)) == 0);          /* the index leaves bits_for_coeff spare bits */
  __CPROVER_assume(c >= 1 && (uint64_t)(c - 1) < ((uint64_t)1 << bits_for_coeff) + (bits_for_coeff == 0 ? 0 : 0) && (bits_for_coeff > 0 || c == 1));
  __CPROVER_assume(c2 >= 1 && (bits_for_coeff > 0 ? (uint64_t)(c2 - 1) < ((uint64_t)1 << bits_for_coeff) : c2 == 1));
  make_entry_raw(idx, c, bits_for_coeff);
  __CPROVER_assert(get_index(g_e) == idx, "make_entry / get_index round trip");
  __CPROVER_assert(get_coefficient(g_e) == c, "make_entry / get_coefficient round trip");
  entry_with_coeff_t e2 = g_e;
  set_coefficient(&e2, c2);
  __CPROVER_assert(get_index(e2) == idx, "set_coefficient leaves the index unchanged");
  __CPROVER_assert(get_coefficient(e2) == c2, "set_coefficient / get_coefficient round trip");
"""
        f_gi = Fn(RP, r"simplex_t get_index\(const entry_with_coeff_t& e\) const", "get_index", "")
        f_gc = Fn(RP, r"coefficient_t get_coefficient\(const entry_with_coeff_t& e\) const", "get_coefficient", "")
        f_sc = Fn(RP, r"void set_coefficient\(entry_with_coeff_t& e, const coefficient_t c\) const", "set_coefficient", "")
        U.append(Unit(f"coeff.{sname}.round_trip", "C11", [f_nb, f_ctor, f_gi, f_gc, f_sc], no_enforce=True, typedefs=TD,
                      globals_=G + "entry_with_coeff_t g_e;\n", inputs=["idx", "c", "c2", "bits_for_coeff"],
                      harness=H("", "", post=lem),
                      desc=f"entry_with_coeff_t over {ST}: make_entry / get_index / get_coefficient / set_coefficient round trips for every index that leaves the spare bits and every coefficient that fits them"))


def arith_units(U):
    for T in ("int", "unsigned int"):
        td = {"vertex_t": T}
        U.append(Unit(f"log2up.{T.replace(' ', '_')}", "C11", [fn_log2up(T)], enforce="log2up", typedefs=td, globals_=ND, unwind=34, inputs=["in_n"],
                      harness=H(f"  {T} in_n = ({T})nondet_uint();", "log2up(in_n);"),
                      desc=f"log2up<{T}>(n): the number of bits needed for 0 <= x < n (n <= 2^k and 2^(k-1) < n), every n >= 1"))
    # normalize
    U.append(Unit("normalize", "C11", [Fn(RP, r"coefficient_t normalize\(const coefficient_t n, const coefficient_t modulus\)", "normalize", """
__CPROVER_requires(modulus >= 2 && n >= 0 && n < modulus)
__CPROVER_ensures(((int64_t)__CPROVER_return_value - (int64_t)n) == 0 || ((int64_t)__CPROVER_return_value - (int64_t)n) == -(int64_t)modulus)
__CPROVER_ensures(2 * (int64_t)__CPROVER_return_value <= (int64_t)modulus && 2 * (int64_t)__CPROVER_return_value > -(int64_t)modulus - 1)
__CPROVER_assigns()
""", canary=(r"n > modulus / 2", "n >= 0"))], enforce="normalize", typedefs={"coefficient_t": "int"}, globals_=ND, inputs=["in_n", "in_m"],
                  harness=H("  int in_n = nondet_int(), in_m = nondet_int();", "normalize(in_n, in_m);"),
                  desc="normalize(n, modulus): the representative of n in (-modulus/2, modulus/2]"))
    # multiplicative_inverse_vector, m <= 31
    G = ND + "#define VCAP 32\nuint16_t inverse[VCAP];\n"
    f_isp = Fn(RP, r"bool is_prime\(const coefficient_t n\)", "is_prime", "")
    f_inv = Fn(RP, r"std::vector<coefficient_storage_t> multiplicative_inverse_vector\(const coefficient_t m\)", "multiplicative_inverse_vector", """
__CPROVER_requires(m <= 31)
__CPROVER_ensures((g_thrown == 0) == (m == 2 || m == 3 || m == 5 || m == 7 || m == 11 || m == 13 || m == 17 || m == 19 || m == 23 || m == 29 || m == 31))
__CPROVER_ensures(g_thrown != 0 || g_a < 1 || g_a >= m || (inverse[g_a] >= 1 && inverse[g_a] < m && ((uint32_t)inverse[g_a] * g_a) % m == 1))
__CPROVER_assigns(inverse, g_thrown)
""", sig_subs=[(r"std::vector<coefficient_storage_t>", "void")],
               subs=[(r"std::vector<coefficient_storage_t> inverse\(m\);", ""), (r"return inverse;", "return;")],
               throw_ret="", canary=(r"m % a", "(m + 1) % a"))
    U.append(Unit("multiplicative_inverse_vector.m31", "C11", [f_isp, f_inv], enforce="multiplicative_inverse_vector",
                  typedefs={"coefficient_t": "uint_least32_t", "coefficient_storage_t": "uint16_t"}, globals_=G + "uint_least32_t g_a;\n",
                  unwind=33, route="B", bound="modulus <= 31", inputs=["in_m", "g_a"],
                  harness=H("  uint_least32_t in_m = nondet_uint(); g_a = nondet_uint(); g_thrown = 0;", "multiplicative_inverse_vector(in_m);"),
                  desc="multiplicative_inverse_vector: non-primes refused; for every prime m <= 31 and 1 <= a < m: inverse[a] * a == 1 mod m (ghost index)"))


def fake128_units(U):
    G = ND + """
typedef struct { uint64_t high, low; } Fake_uint128;
#define NATIVE(x) ((((unsigned __int128)(x).high) << 64) + (x).low)
"""
    SUBS = [(r"GUDHI_VERIF \(([^;]*)\);", r'__CPROVER_assert(NATIVE(res) == (\1), "GUDHI_VERIF: equals the native 128-bit result");', 0),
            (r"(\w+)\.native\(\)", r"NATIVE(\1)", 0), (r"GUDHI_CHECK\(b < 128, \"\"\);", '__CPROVER_assert(b < 128, "GUDHI_CHECK b < 128");', 0)]
    ops = [("add", r"friend Fake_uint128 operator\+\(Fake_uint128 a, Fake_uint128 b\)", r"operator\+", "NATIVE(a) + NATIVE(b)", None, (r"\(res\.low < a\.low\)", "(res.low <= a.low)")),
           ("sub", r"friend Fake_uint128 operator-\(Fake_uint128 a, Fake_uint128 b\)", r"operator-", "NATIVE(a) - NATIVE(b)", None, (r"\(res\.low > a\.low\)", "(res.low >= a.low)")),
           ("shl", r"friend Fake_uint128 operator<<\(Fake_uint128 a, uint8_t b\)", r"operator<<", "NATIVE(a) << b", "b < 128", (r"a\.low >> \(64-b\)", "a.low >> (63-b)")),
           ("shr", r"friend Fake_uint128 operator>>\(Fake_uint128 a, uint8_t b\)", r"operator>>", "NATIVE(a) >> b", "b < 128", (r"a\.high << \(64-b\)", "a.high << (63-b)")),
           ("and", r"friend Fake_uint128 operator&\(Fake_uint128 a, Fake_uint128 b\)", r"operator&", "NATIVE(a) & NATIVE(b)", None, (r"a\.high & b\.high", "a.high | b.high")),
           ("or", r"friend Fake_uint128 operator\|\(Fake_uint128 a, Fake_uint128 b\)", r"operator\|", "NATIVE(a) | NATIVE(b)", None, (r"a\.high \| b\.high", "a.high & b.high")),
           ("not", r"friend Fake_uint128 operator~\(Fake_uint128 a\)", r"operator~", "~NATIVE(a)", None, (r"~a\.high", "a.high"))]
    for name, sel, opn, spec, req, canary in ops:
        one = name == "not"
        shift = name in ("shl", "shr")
        c = (f"__CPROVER_requires({req})\n" if req else "") + f"__CPROVER_ensures(NATIVE(__CPROVER_return_value) == (unsigned __int128)({spec}))\n__CPROVER_assigns()\n"
        fn = Fn(U128, sel, "f128_" + name, c, sig_subs=[(opn, "f128_" + name)], subs=SUBS, canary=canary)
        args = "in_a" if one else ("in_a, in_s" if shift else "in_a, in_b")
        U.append(Unit(f"fake_uint128.{name}", "C11", [fn], enforce="f128_" + name, globals_=G, inputs=["in_a", "in_b", "in_s"], replay=mk_replay_f128(name),
                      harness=H("  Fake_uint128 in_a, in_b; in_a.high = nondet_ulong(); in_a.low = nondet_ulong(); in_b.high = nondet_ulong(); in_b.low = nondet_ulong(); uint8_t in_s = nondet_uchar();",
                                f"f128_{name}({args});"),
                      desc=f"Fake_uint128 operator {name}: equals the native unsigned __int128 result on all inputs (and the class's own GUDHI_VERIF holds)"))
    cmps = [("eq", "==", r"operator=="), ("ne", "!=", r"operator!="), ("lt", "<", r"operator<"), ("gt", ">", r"operator>"), ("le", "<=", r"operator<="), ("ge", ">=", r"operator>=")]
    for name, op, opn in cmps:
        sel = rf"friend bool operator{op}\(Fake_uint128 a, Fake_uint128 b\)"
        c = f"__CPROVER_ensures(__CPROVER_return_value == (NATIVE(a) {op} NATIVE(b)))\n__CPROVER_assigns()\n"
        mut = {"eq": (r"&&", "||"), "ne": (r"\|\|", "&&")}.get(name, (r"a\.high == b\.high &&", ""))
        fn = Fn(U128, sel, "f128_" + name, c, sig_subs=[(opn + r"(?=\()", "f128_" + name)], subs=SUBS, canary=mut)
        U.append(Unit(f"fake_uint128.{name}", "C11", [fn], enforce="f128_" + name, globals_=G, inputs=["in_a", "in_b"],
                      harness=H("  Fake_uint128 in_a, in_b; in_a.high = nondet_ulong(); in_a.low = nondet_ulong(); in_b.high = nondet_ulong(); in_b.low = nondet_ulong();",
                                f"f128_{name}(in_a, in_b);"),
                      replay=mk_replay_f128(name),
                      desc=f"Fake_uint128 operator{op}: equals the comparison of the native 128-bit values"))


def matrix_units(U):
    """which edges the thresholded (sparse) matrix keeps: exactly those of length <= threshold"""
    G = ND + """
typedef int vertex_t; typedef float value_t;
float g_mat_ij; float threshold; size_t num_edges;
int g_kept, g_kept_j; float g_kept_d;
int g_kept_i; int g_mat_i = -1, g_mat_j = -1;
#define NEIGHBORS_EMPLACE(i, j, d) do { g_kept++; g_kept_i = (i); g_kept_j = (j); g_kept_d = (d); } while (0)
#define VP_MAT(i, j) (g_mat_i = (i), g_mat_j = (j), g_mat_ij)
"""
    fn = Fn(RP, r"Sparse_distance_matrix\(const DistanceMatrix& mat, const value_t threshold\)\s*: neighbors", "sparse_keep_entry", """
__CPROVER_requires(g_kept == 0 && !isnan(g_mat_ij) && !isnan(threshold) && num_edges < 1000000)
__CPROVER_ensures((g_kept == 1) == (i != j && g_mat_ij <= threshold))
__CPROVER_ensures(g_kept == 0 || g_kept == 1)
__CPROVER_ensures(g_kept == 0 || (g_kept_i == i && g_kept_j == j && g_kept_d == g_mat_ij && num_edges == __CPROVER_old(num_edges) + 1))
__CPROVER_ensures(i == j || ((g_mat_i == i && g_mat_j == j) || (g_mat_i == j && g_mat_j == i)))
__CPROVER_assigns(g_kept, g_kept_i, g_kept_j, g_kept_d, g_mat_i, g_mat_j, num_edges)
""", piece={"kind": "slice", "first": r"if \(i != j\) \{", "last": r"emplace_back\([^;]*\);\s*\}\s*\}",
            "sig": "void sparse_keep_entry(vertex_t i, vertex_t j)"},
            subs=[(r"auto d = mat\(([^;]*)\);", r"value_t d = VP_MAT(\1);"), (r"neighbors\[(\w+)\]\.emplace_back\(([^;]*)\);", r"NEIGHBORS_EMPLACE(\1, \2);")],
            canary=(r"d <= threshold", "d < threshold"))
    U.append(Unit("sparse_matrix.keep_entry", "C11", [fn], enforce="sparse_keep_entry", globals_="#include <math.h>\n" + G, inputs=["in_i", "in_j", "g_mat_ij", "threshold"],
                  replay=mk_replay_sparse(),
                  harness=H("  int in_i = nondet_int(), in_j = nondet_int(); g_mat_ij = nondet_float(); threshold = nondet_float(); g_kept = 0; num_edges = 0;",
                            "sparse_keep_entry(in_i, in_j);"),
                  desc="Sparse_distance_matrix(mat, threshold), loop body: an off-diagonal entry is kept exactly when its distance is <= threshold (the Rips filtration truncated AT the threshold), with its own vertex and distance"))


def sparse_lookup_units(U):
    """Sparse_distance_matrix::operator()(i, j): the distance of the stored edge {i, j}, +infinity when there is none.
    The neighbour list of i is (nb, nb_n); std::lower_bound / std::upper_bound are C transcriptions of the standard's
    specification (first position whose element is not less than / greater than the key) over the extracted operator<."""
    NB = 6
    G = ND + f"""
#include <math.h>
#define NB {NB}
typedef int vertex_t; typedef float value_t;
typedef struct {{ vertex_t i; value_t d; }} vertex_diameter_t;
vertex_diameter_t nb[NB]; size_t nb_n; size_t g_probe;
bool vd_less(vertex_diameter_t a, vertex_diameter_t b);
static size_t vp_lower_bound_vd(vertex_diameter_t key) {{ size_t r = nb_n; for (size_t k = NB; k-- > 0;) if (k < nb_n && !vd_less(nb[k], key)) r = k; return r; }}   /* on a partitioned range */
static size_t vp_upper_bound_vd(vertex_diameter_t key) {{ size_t r = nb_n; for (size_t k = NB; k-- > 0;) if (k < nb_n && vd_less(key, nb[k])) r = k; return r; }}
/* specification side */
static bool x_row_ok(void) {{ bool ok = nb_n <= NB; for (size_t k = 0; k < NB; k++) if (k < nb_n) {{ ok = ok && !isnan(nb[k].d) && nb[k].d >= 0 && !isinf(nb[k].d); if (k + 1 < nb_n) ok = ok && nb[k].i < nb[k + 1].i; }} return ok; }}
static bool x_has(vertex_t j, value_t d) {{ bool f = false; for (size_t k = 0; k < NB; k++) if (k < nb_n && nb[k].i == j && nb[k].d == d) f = true; return f; }}
"""
    f_less = Fn(RP, r"friend bool operator<\(vertex_diameter_t const& a, vertex_diameter_t const& b\)", "vd_less", "", within=r"struct Sparse_distance_matrix \{",
                sig_subs=[(r"operator<", "vd_less")])
    f_gv = Fn(RP, r"friend vertex_t get_vertex\(const vertex_diameter_t& i\)", "get_vertex_vd", "", within=r"struct Sparse_distance_matrix \{")
    f_gd = Fn(RP, r"friend value_t get_diameter\(const vertex_diameter_t& i\)", "get_diameter_vd", "", within=r"struct Sparse_distance_matrix \{")
    con = """
__CPROVER_requires(x_row_ok() && g_probe < nb_n)
__CPROVER_ensures(nb[g_probe].i != j || __CPROVER_return_value == nb[g_probe].d)
__CPROVER_ensures((isinf(__CPROVER_return_value) && __CPROVER_return_value > 0) || x_has(j, __CPROVER_return_value))
__CPROVER_assigns()
"""
    fn = Fn(RP, r"value_t operator\(\)\(const vertex_t i, const vertex_t j\) const", "sparse_lookup", con, within=r"struct Sparse_distance_matrix \{",
            sig_subs=[(r"operator\(\)", "sparse_lookup")],
            subs=[(r"auto (\w+) =\s*std::(lower_bound|upper_bound)\(neighbors\[i\]\.begin\(\), neighbors\[i\]\.end\(\), vertex_diameter_t\{j, 0\}\);", r"size_t \1 = vp_\2_vd((vertex_diameter_t){j, 0});"),
                  (r"(\w+) != neighbors\[i\]\.end\(\)", r"\1 != nb_n"), (r"get_vertex\(\*(\w+)\)", r"get_vertex_vd(nb[\1])"), (r"get_diameter\(\*(\w+)\)", r"get_diameter_vd(nb[\1])"),
                  (r"std::numeric_limits<value_t>::infinity\(\)", "INFINITY")],
            canary=(r"get_vertex_vd\(nb\[(\w+)\]\) == j", r"get_vertex_vd(nb[\1]) >= j"))
    U.append(Unit("sparse_matrix.lookup", "C11", [f_less, f_gv, f_gd, fn], enforce="sparse_lookup", globals_=G, unwind=NB + 2, route="B",
                  bound=f"neighbour lists of at most {NB} entries; vertices, distances (finite, >= 0) and the queried vertex symbolic",
                  inputs=["in_i", "in_j", "nb", "nb_n", "g_probe"], replay=mk_replay_lookup(NB),
                  harness=H("  int in_i = nondet_int(), in_j = nondet_int(); nb_n = nondet_ulong(); g_probe = nondet_ulong();\n  for (int k = 0; k < NB; k++) { nb[k].i = nondet_int(); nb[k].d = nondet_float(); }", "sparse_lookup(in_i, in_j);"),
                  desc="Sparse_distance_matrix::operator()(i, j): on a neighbour list sorted by vertex (each neighbour once, distances finite and >= 0, zero allowed), returns the stored distance of the edge {i, j} when there is one - including a zero-length edge - and +infinity otherwise"))

def assemble_units(U):
    """Persistent_cohomology::assemble_columns_to_reduce: from the (dim-1)... simplices of the current round it builds
    (a) the list of all simplices of the next dimension (kept only while dim < dim_max) and (b) the columns to reduce
    (cofacets that are neither in a zero apparent pair nor already a pivot), sorted.  The coboundary enumerator, the
    apparent-pair test and the pivot map are ghost tables; vectors are ghost logs; std::sort is trusted."""
    NSI, KC = 3, 3
    G = ND + f"""
typedef float value_t; typedef signed char dimension_t; typedef unsigned long simplex_t;
#define NSI {NSI}
#define KC {KC}
typedef struct {{ value_t diameter; simplex_t index; }} diameter_simplex_t;
typedef struct {{ bool has; value_t diam; simplex_t id; }} vp_opt;      /* std::optional<diameter_entry_t> */
dimension_t dim_max;
/* the round's simplices and, per simplex, the cofacets its enumerator yields (ghost) */
diameter_simplex_t g_simp[NSI * KC]; size_t g_nsimp;
unsigned g_ncof[NSI]; simplex_t g_cof[NSI][KC]; value_t g_cofd[NSI][KC];
bool g_app[16], g_piv[16];                   /* is_in_zero_apparent_pair / already a pivot, by cofacet id (< 16) */
size_t g_cur; unsigned g_pos; dimension_t g_set_dim;
diameter_simplex_t g_next[NSI * KC]; size_t g_nnext; diameter_simplex_t g_cols[NSI * KC + 2]; size_t g_ncols; unsigned g_sort_calls; size_t g_sort_n;
static simplex_t make_entry_id(diameter_simplex_t s) {{ return s.index; }}
static void cof_set_simplex(simplex_t id, dimension_t d) {{ __CPROVER_assert(id < NSI, "simplex of the round"); g_cur = id; g_pos = 0; g_set_dim = d; }}
static vp_opt cof_next(bool all_cofacets) {{ vp_opt r; __CPROVER_assert(!all_cofacets, "only the cofacets with a larger new vertex"); r.has = g_pos < g_ncof[g_cur]; r.diam = r.has ? g_cofd[g_cur][g_pos] : 0; r.id = r.has ? g_cof[g_cur][g_pos] : 0; if (r.has) g_pos++; return r; }}
static void next_push(value_t d, simplex_t i) {{ __CPROVER_assert(g_nnext < NSI * KC, "log"); g_next[g_nnext].diameter = d; g_next[g_nnext].index = i; g_nnext++; }}
static void cols_push(value_t d, simplex_t i) {{ __CPROVER_assert(g_ncols < NSI * KC + 2, "log"); g_cols[g_ncols].diameter = d; g_cols[g_ncols].index = i; g_ncols++; }}
static void simplices_swap_next(void) {{ for (size_t k = 0; k < NSI * KC; k++) {{ diameter_simplex_t t = g_simp[k]; g_simp[k] = g_next[k]; g_next[k] = t; }} size_t t = g_nsimp; g_nsimp = g_nnext; g_nnext = t; }}
static void sort_cols(void) {{ g_sort_calls++; g_sort_n = g_ncols; }}   /* std::sort(begin, end, Greater_diameter_or_smaller_index): permutes, trusted */
/* specification: the p-th cofacet over all simplices of the round, in order; and the p-th one that becomes a column */
static bool x_nth(size_t p, bool only_cols, simplex_t* id, value_t* d) {{ size_t c = 0; bool f = false;
  for (size_t s = 0; s < NSI; s++) for (unsigned k = 0; k < KC; k++) if (s < g_nsimp0 && k < g_ncof[s] && (!only_cols || (!g_app[g_cof[s][k]] && !g_piv[g_cof[s][k]]))) {{ if (c == p && !f) {{ *id = g_cof[s][k]; *d = g_cofd[s][k]; f = true; }} c++; }}
  return f; }}
static size_t x_total(bool only_cols) {{ size_t c = 0; for (size_t s = 0; s < NSI; s++) for (unsigned k = 0; k < KC; k++) if (s < g_nsimp0 && k < g_ncof[s] && (!only_cols || (!g_app[g_cof[s][k]] && !g_piv[g_cof[s][k]]))) c++; return c; }}
static bool tables_ok(void) {{ bool ok = g_nsimp <= NSI; for (size_t s = 0; s < NSI; s++) {{ ok = ok && g_ncof[s] <= KC && g_simp[s].index == s; for (unsigned k = 0; k < KC; k++) ok = ok && g_cof[s][k] < 16 && g_cofd[s][k] == g_cofd[s][k]; }} return ok; }}
static bool P_next(size_t p) {{ simplex_t id = 0; value_t d = 0; bool f = x_nth(p, false, &id, &d); return !f || (p < g_nsimp && g_simp[p].index == id && g_simp[p].diameter == d); }}
static bool P_cols(size_t p) {{ simplex_t id = 0; value_t d = 0; bool f = x_nth(p, true, &id, &d); return !f || (p < g_ncols && g_cols[p].index == id && g_cols[p].diameter == d); }}
"""
    G = G.replace("diameter_simplex_t g_simp[NSI * KC]; size_t g_nsimp;", "diameter_simplex_t g_simp[NSI * KC]; size_t g_nsimp; size_t g_nsimp0; size_t g_probe;")
    con = """
__CPROVER_requires(tables_ok() && g_nsimp0 == g_nsimp && g_nnext == 0 && g_ncols <= 2 && g_sort_calls == 0 && dim >= 1 && dim <= dim_max)
__CPROVER_ensures(dim < dim_max ? (g_nsimp == x_total(false) && P_next(g_probe)) : g_nsimp == g_nsimp0)
__CPROVER_ensures(g_ncols == x_total(true) && P_cols(g_probe))
__CPROVER_ensures(g_sort_calls == 1 && g_sort_n == g_ncols)
__CPROVER_assigns(g_simp, g_nsimp, g_next, g_nnext, g_cols, g_ncols, g_cur, g_pos, g_set_dim, g_sort_calls, g_sort_n)
"""
    subs = [(r"columns_to_reduce\.clear\(\);", "g_ncols = 0;", 0), (r"std::vector<diameter_simplex_t> next_simplices;", ""),
            (r"for \(diameter_simplex_t& (\w+) : simplices\) \{", r"for (size_t vp_k = 0; vp_k < g_nsimp; vp_k++) { diameter_simplex_t \1 = g_simp[vp_k];"),
            (r"cofacets2\.set_simplex\(filt\.make_diameter_entry\((\w+), 1\), ([^;]*)\);", r"cof_set_simplex(make_entry_id(\1), \2);"),
            (r"std::optional<diameter_entry_t> (\w+) = cofacets2\.next\(([^;]*)\);", r"vp_opt \1 = cof_next(\2);"),
            (r"if \(!(\w+)\) break;", r"if (!\1.has) break;"),
            (r"next_simplices\.push_back\(\{get_diameter\(\*(\w+)\), filt\.get_index\(\*\1\)\}\);", r"next_push(\1.diam, \1.id);"),
            (r"columns_to_reduce\.push_back\(\{get_diameter\(\*(\w+)\), filt\.get_index\(\*\1\)\}\);", r"cols_push(\1.diam, \1.id);"),
            (r"is_in_zero_apparent_pair\(\*(\w+), dim\)", r"g_app[\1.id]"),
            (r"\(pivot_column_index\.find\(get_entry\(\*(\w+)\)\) == pivot_column_index\.end\(\)\)", r"(!g_piv[\1.id])"),
            (r"simplices\.swap\(next_simplices\);", "simplices_swap_next();"),
            (r"std::sort\(columns_to_reduce\.begin\(\), columns_to_reduce\.end\(\),\s*Greater_diameter_or_smaller_index<diameter_simplex_t>\(filt\)\);", "sort_cols();")]
    fn = Fn(RP, r"void assemble_columns_to_reduce\(std::vector<diameter_simplex_t>& simplices,\s*std::vector<diameter_simplex_t>& columns_to_reduce,\s*entry_hash_map& pivot_column_index, dimension_t dim\)",
            "assemble_columns_to_reduce", con,
            sig_subs=[(r"\(std::vector<diameter_simplex_t>& simplices,\s*std::vector<diameter_simplex_t>& columns_to_reduce,\s*entry_hash_map& pivot_column_index, dimension_t dim\)", "(dimension_t dim)")],
            subs=subs, canary=(r"if \(dim < dim_max\) simplices_swap_next\(\);", "if (dim <= dim_max) simplices_swap_next();"))
    U.append(Unit("reduction.assemble_columns_to_reduce", "C11", [fn], enforce="assemble_columns_to_reduce", globals_=G, unwind=NSI * KC + 3, route="B",
                  bound=f"at most {NSI} simplices in the round, at most {KC} cofacets each; ids, diameters, apparent-pair and pivot tables, dim and dim_max symbolic",
                  inputs=["in_dim", "dim_max", "g_nsimp", "g_ncof", "g_probe"], replay=replay_by_native_search, runs=[Run(backend="sat", timeout=900)],
                  harness=H("  dimension_t in_dim = (dimension_t)nondet_int(); dim_max = (dimension_t)nondet_int(); g_nsimp = nondet_ulong(); g_nsimp0 = g_nsimp; g_probe = nondet_ulong(); g_nnext = 0; g_ncols = nondet_ulong(); g_sort_calls = 0;\n"
                            "  for (int s = 0; s < NSI; s++) { g_ncof[s] = nondet_uint(); g_simp[s].index = s; }", "assemble_columns_to_reduce(in_dim);"),
                  desc="assemble_columns_to_reduce: while dim < dim_max the round's simplices are replaced by ALL the cofacets the enumerators yield, in order (they are the next round's simplices - otherwise they are left alone); the columns to reduce are exactly the cofacets that are neither in a zero apparent pair nor already pivots, previous content discarded, sorted once as a whole"))

def full_matrix_units(U):
    """Full_distance_matrix: construction from any matrix + operator() = the same dissimilarity (transposed storage);
    Compressed_sparse_matrix_ (columns of the reduction matrix): append_column / push_back / subrange bookkeeping."""
    NV = 4
    G = ND + f"""
typedef int vertex_t; typedef float value_t;
#define NV {NV}
value_t g_mat[NV][NV]; vertex_t g_n; value_t distances[NV * NV]; vertex_t n; size_t g_alloc; size_t g_pa, g_pb;
static value_t vp_mat(vertex_t i, vertex_t j) {{ __CPROVER_assert(i >= 0 && j >= 0 && i < g_n && j < g_n, "mat(i, j) within the source matrix"); return g_mat[i][j]; }}
static value_t* acc_dist(size_t k) {{ __CPROVER_assert(k < g_alloc && k < NV * NV, "distances[...] within the allocated n*n entries"); return &distances[k]; }}
#define DIST(k) (*acc_dist(k))
"""
    f_size = Fn(RP, r"vertex_t size\(\) const", "fm_size", "", within=r"struct Full_distance_matrix \{")
    f_ctor = Fn(RP, r"Full_distance_matrix\(const DistanceMatrix& mat\)\s*: distances", "fm_construct", """
__CPROVER_requires(g_n >= 0 && g_n <= NV && g_pa < (size_t)g_n && g_pb < (size_t)g_n)
__CPROVER_ensures(n == g_n && g_alloc == (size_t)g_n * (size_t)g_n)
__CPROVER_ensures(distances[g_pa * (size_t)n + g_pb] == g_mat[g_pa][g_pb] || g_mat[g_pa][g_pb] != g_mat[g_pa][g_pb])
__CPROVER_assigns(distances, n, g_alloc)
""", within=r"struct Full_distance_matrix \{", sig_subs=[(r"\(const DistanceMatrix& mat\)", "(void)")],
                subs=[(r"std::size_t", "size_t", 0), (r"distances = ([^;]*);", r"g_alloc = \1;"), (r"mat\.size\(\)", "g_n"), (r"\bmat\(", "vp_mat("), (r"distances\[([^\]]*)\]", r"DIST(\1)"), (r"\bsize\(\)", "fm_size()")],
                canary=(r"DIST\(i \* n \+ j\)", "DIST(i * n + i)"))
    U.append(Unit("full_matrix.construct", "C11", [f_size, f_ctor], enforce="fm_construct", globals_=G, unwind=NV + 2, route="B",
                  bound=f"at most {NV} points; entries symbolic", inputs=["g_n", "g_pa", "g_pb"],
                  harness=H("  g_n = nondet_int(); g_pa = nondet_ulong(); g_pb = nondet_ulong();", "fm_construct();"),
                  desc="Full_distance_matrix(mat): allocates n*n entries, reads only entries of the source matrix, and stores mat(a, b) at a*n + b for every pair (ghost probe)"))
    f_at = Fn(RP, r"value_t operator\(\)\(const vertex_t j, const vertex_t i\) const", "fm_at", """
__CPROVER_requires(n >= 1 && n <= NV && g_alloc == (size_t)n * (size_t)n && @1@ >= 0 && @1@ < n && @2@ >= 0 && @2@ < n)
__CPROVER_ensures(__CPROVER_return_value == distances[(size_t)@2@ * (size_t)n + (size_t)@1@] || distances[(size_t)@2@ * (size_t)n + (size_t)@1@] != distances[(size_t)@2@ * (size_t)n + (size_t)@1@])
__CPROVER_assigns()
""", within=r"struct Full_distance_matrix \{", sig_subs=[(r"operator\(\)", "fm_at")], subs=[(r"distances\[([^\]]*)\]", r"DIST(\1)")],
              canary=(r"DIST\(i \* n \+ j\)", "DIST(j * n + j)"))
    U.append(Unit("full_matrix.at", "C11", [f_at], enforce="fm_at", globals_=G, inputs=["in_a", "in_b", "n"],
                  harness=H("  vertex_t in_a = nondet_int(), in_b = nondet_int(); n = nondet_int(); g_alloc = nondet_ulong();", "fm_at(in_a, in_b);"),
                  desc="Full_distance_matrix::operator()(a, b): reads the entry stored at b*n + a, inside the allocation - with the constructor's layout this is mat(b, a), the same dissimilarity for a symmetric input"))
    # Compressed_sparse_matrix_: bounds[k] = end of column k in entries
    NE = 6
    G2 = ND + f"""
#define NE {NE}
size_t bounds[NE]; size_t bounds_n; size_t entries_n; unsigned long g_last;
static size_t* acc_b(size_t k) {{ __CPROVER_assert(k < bounds_n && k < NE, "bounds[...] within the vector"); return &bounds[k]; }}
"""
    f_app = Fn(RP, r"void append_column\(\)", "csm_append_column", """
__CPROVER_requires(bounds_n < NE && (bounds_n == 0 || bounds[bounds_n - 1] == entries_n))
__CPROVER_ensures(bounds_n == __CPROVER_old(bounds_n) + 1 && bounds[bounds_n - 1] == entries_n && entries_n == __CPROVER_old(entries_n))
__CPROVER_assigns(bounds_n, bounds[bounds_n])
""", within=r"class Compressed_sparse_matrix_ \{", subs=[(r"bounds\.push_back\(entries\.size\(\)\);", "bounds[bounds_n] = entries_n; bounds_n++;")],
               canary=(r"= entries_n;", "= entries_n + 1;"))
    U.append(Unit("compressed_sparse_matrix.append_column", "C11", [f_app], enforce="csm_append_column", globals_=G2, inputs=["bounds_n", "entries_n"],
                  harness=H("  bounds_n = nondet_ulong(); entries_n = nondet_ulong();", "csm_append_column();"),
                  desc="Compressed_sparse_matrix_::append_column: opens a new, empty column ending at the current number of entries"))
    f_pb = Fn(RP, r"void push_back\(const ValueType e\)", "csm_push_back", """
__CPROVER_requires(bounds_n >= 1 && bounds_n <= NE && bounds[bounds_n - 1] == entries_n && entries_n < 1000000)
__CPROVER_ensures(entries_n == __CPROVER_old(entries_n) + 1 && bounds[bounds_n - 1] == entries_n && g_last == e && bounds_n == __CPROVER_old(bounds_n))
__CPROVER_assigns(entries_n, g_last, bounds[bounds_n - 1])
""", within=r"class Compressed_sparse_matrix_ \{", sig_subs=[(r"const ValueType", "unsigned long")],
              subs=[(r"bounds\.size\(\)", "bounds_n"), (r"entries\.push_back\((\w+)\);", r"g_last = \1; entries_n++;"), (r"\+\+bounds\.back\(\);", "++(*acc_b(bounds_n - 1));")],
              canary=(r"\+\+\(\*acc_b\(bounds_n - 1\)\);", ";"))
    U.append(Unit("compressed_sparse_matrix.push_back", "C11", [f_pb], enforce="csm_push_back", globals_=G2, inputs=["bounds_n", "entries_n", "in_e"],
                  harness=H("  bounds_n = nondet_ulong(); entries_n = nondet_ulong(); unsigned long in_e = nondet_ulong();", "csm_push_back(in_e);"),
                  desc="Compressed_sparse_matrix_::push_back: the entry goes to the end of the last column, whose end marker moves with it (the last marker always equals the number of entries); its own GUDHI_assert (a column is open) holds"))

OPT_SUBS = [(r"std::optional<diameter_entry_t>", "vp_opt", 0), (r"const diameter_entry_t\b", "dentry", 0), (r"\bdiameter_entry_t\b", "dentry", 0),
            (r"std::nullopt", "VP_NONE", 0),
            (r"if \(!(\w+)\) (break|return)", r"if (!\1.has) \2", 0), (r"if \(!(\w+) \|\| ", r"if (!\1.has || ", 0),
            (r"return \*(\w+);", r"return \1;", 0),
            (r"get_diameter\(\*(\w+)\)", r"\1.diam", 0), (r"get_diameter\((\w+)\)", r"\1.diam", 0),
            (r"filt\.get_index\(\*(\w+)\)", r"\1.id", 0), (r"filt\.get_index\((\w+)\)", r"\1.id", 0),
            (r"\(\*(\w+), dim ([-+]) 1\)", r"(VP_ENTRY(\1), dim \2 1)", 0),
            (r"facets\.set_simplex\(", "fac_set_simplex(", 0), (r"facets\.next\(\)", "fac_next()", 0),
            (r"cofacets1\.set_simplex\(", "cof_set_simplex(", 0), (r"cofacets1\.next_raw\(\)", "cof_next_raw()", 0)]

APP_GLUE = ND + """
typedef float value_t; typedef signed char dimension_t; typedef unsigned long simplex_t;
typedef struct { value_t diam; simplex_t id; } dentry;                  /* diameter_entry_t: (diameter, index) */
typedef struct { bool has; value_t diam; simplex_t id; } vp_opt;        /* std::optional<diameter_entry_t> */
#define VP_NONE ((vp_opt){false, 0, 0})
#define VP_ENTRY(o) ((dentry){(o).diam, (o).id})
#define KE 4
/* ghost enumerators: the facets / raw cofacets of the simplex given to set_simplex, in enumeration order */
dentry g_fac[KE]; unsigned g_nfac, g_fpos; dentry g_cof[KE]; unsigned g_ncof, g_cpos;
simplex_t g_fset_id; dimension_t g_fset_dim; unsigned g_fset_calls; simplex_t g_cset_id; dimension_t g_cset_dim; unsigned g_cset_calls;
static void fac_set_simplex(dentry s, dimension_t d) { g_fset_id = s.id; g_fset_dim = d; g_fset_calls++; g_fpos = 0; }
static vp_opt fac_next(void) { vp_opt r; r.has = g_fpos < g_nfac; r.diam = r.has ? g_fac[g_fpos].diam : 0; r.id = r.has ? g_fac[g_fpos].id : 0; if (r.has) g_fpos++; return r; }
static void cof_set_simplex(dentry s, dimension_t d) { g_cset_id = s.id; g_cset_dim = d; g_cset_calls++; g_cpos = 0; }
static vp_opt cof_next_raw(void) { vp_opt r; r.has = g_cpos < g_ncof; r.diam = r.has ? g_cof[g_cpos].diam : 0; r.id = r.has ? g_cof[g_cpos].id : 0; if (r.has) g_cpos++; return r; }
/* specification: position of the first enumerated element whose diameter equals d (count if none) */
static unsigned x_first_same_fac(value_t d) { unsigned r = g_nfac; for (unsigned k = KE; k-- > 0;) if (k < g_nfac && g_fac[k].diam == d) r = k; return r; }
static unsigned x_first_same_cof(value_t d) { unsigned r = g_ncof; for (unsigned k = KE; k-- > 0;) if (k < g_ncof && g_cof[k].diam == d) r = k; return r; }
/* answers of the two pivot helpers when they are replaced by their contracts */
vp_opt g_zpc, g_zpf; simplex_t g_zpc_id, g_zpf_id; dimension_t g_zpc_dim, g_zpf_dim; unsigned g_zpc_calls, g_zpf_calls;
vp_opt get_zero_pivot_cofacet(dentry simplex, dimension_t dim); vp_opt get_zero_pivot_facet(dentry simplex, dimension_t dim);
vp_opt g_zac, g_zaf; unsigned g_zac_calls, g_zaf_calls; simplex_t g_zac_id, g_zaf_id; dimension_t g_zac_dim, g_zaf_dim;
"""


def apparent_units(U):
    """zero pivot facet / cofacet, zero apparent facet / cofacet, is_in_zero_apparent_pair: the implicit apparent pairs
    of Ripser (a simplex and a cofacet of the same diameter that are each other's first such (co)facet)."""
    H2 = lambda decls, call: H(decls, call)   # noqa: E731
    sel_zpf = r"std::optional<diameter_entry_t> get_zero_pivot_facet\(const diameter_entry_t simplex, const dimension_t dim\)"
    sel_zpc = r"std::optional<diameter_entry_t> get_zero_pivot_cofacet\(const diameter_entry_t simplex, const dimension_t dim\)"
    sel_zaf = r"std::optional<diameter_entry_t> get_zero_apparent_facet\(const diameter_entry_t simplex, const dimension_t dim\)"
    sel_zac = r"std::optional<diameter_entry_t> get_zero_apparent_cofacet\(const diameter_entry_t simplex, const dimension_t dim\)"
    SS = [(r"std::optional<diameter_entry_t>", "vp_opt", 0), (r"const diameter_entry_t", "dentry"), (r"const dimension_t", "dimension_t")]
    init = "  dentry in_s; in_s.diam = nondet_float(); in_s.id = nondet_ulong(); dimension_t in_dim = (dimension_t)nondet_int();\n  g_fset_calls = 0; g_cset_calls = 0; g_zpc_calls = 0; g_zpf_calls = 0; g_zac_calls = 0; g_zaf_calls = 0;\n  g_zpc.has = nondet_int() != 0; g_zpf.has = nondet_int() != 0; g_zac.has = nondet_int() != 0; g_zaf.has = nondet_int() != 0;   /* proper 0/1 bools */"
    for which, sel, arr, n, setid, setdim, setcalls in (("facet", sel_zpf, "g_fac", "g_nfac", "g_fset_id", "g_fset_dim", "g_fset_calls"),
                                                        ("cofacet", sel_zpc, "g_cof", "g_ncof", "g_cset_id", "g_cset_dim", "g_cset_calls")):
        con = f"""
__CPROVER_requires({n} <= KE && {setcalls} == 0 && simplex.diam == simplex.diam)
__CPROVER_ensures(__CPROVER_return_value.has == (x_first_same_{which[:3]}(simplex.diam) < {n}))
__CPROVER_ensures(!__CPROVER_return_value.has || (__CPROVER_return_value.id == {arr}[x_first_same_{which[:3]}(simplex.diam)].id && __CPROVER_return_value.diam == simplex.diam))
__CPROVER_ensures({setcalls} == 1 && {setid} == simplex.id && {setdim} == dim)
__CPROVER_assigns(g_fpos, g_cpos, g_fset_id, g_fset_dim, g_fset_calls, g_cset_id, g_cset_dim, g_cset_calls)
"""
        fn = Fn(RP, sel, f"get_zero_pivot_{which}", con, sig_subs=SS, subs=OPT_SUBS, canary=(r"(\.diam == simplex\.diam\)) return \w+;", r"\1 return VP_NONE;"))
        U.append(Unit(f"apparent.zero_pivot_{which}", "C11", [fn], enforce=f"get_zero_pivot_{which}", globals_=APP_GLUE, unwind=6, route="B", runs=[Run(backend="z3", timeout=300)],
                      bound="at most 4 (co)facets enumerated per simplex (a simplex of dimension <= 3, or <= 4 candidate cofacets); diameters and ids symbolic",
                      inputs=["in_s", "in_dim", n], harness=H2(init, f"get_zero_pivot_{which}(in_s, in_dim);"),
                      desc=f"get_zero_pivot_{which}: the FIRST {which} in enumeration order whose diameter equals the simplex's, or nothing; the enumerator is set on (simplex, dim) once"))
    # the two apparent-pair helpers with the pivot helpers replaced by their (ghost-answer) contracts
    stub_zpc = Fn(RP, sel_zpc, "get_zero_pivot_cofacet", """
__CPROVER_ensures(__CPROVER_return_value.has == g_zpc.has && __CPROVER_return_value.id == g_zpc.id && __CPROVER_return_value.diam == g_zpc.diam)
__CPROVER_ensures(g_zpc_calls == __CPROVER_old(g_zpc_calls) + 1 && g_zpc_id == simplex.id && g_zpc_dim == dim)
__CPROVER_assigns(g_zpc_calls, g_zpc_id, g_zpc_dim)
""", sig_subs=SS, subs=OPT_SUBS)
    stub_zpf = Fn(RP, sel_zpf, "get_zero_pivot_facet", """
__CPROVER_ensures(__CPROVER_return_value.has == g_zpf.has && __CPROVER_return_value.id == g_zpf.id && __CPROVER_return_value.diam == g_zpf.diam)
__CPROVER_ensures(g_zpf_calls == __CPROVER_old(g_zpf_calls) + 1 && g_zpf_id == simplex.id && g_zpf_dim == dim)
__CPROVER_assigns(g_zpf_calls, g_zpf_id, g_zpf_dim)
""", sig_subs=SS, subs=OPT_SUBS)
    con_zac = """
__CPROVER_requires(g_zpc_calls == 0 && g_zpf_calls == 0 && dim >= 0 && dim < 100)
__CPROVER_ensures(__CPROVER_return_value.has == (g_zpc.has && g_zpf.has && g_zpf.id == simplex.id))
__CPROVER_ensures(!__CPROVER_return_value.has || (__CPROVER_return_value.id == g_zpc.id && __CPROVER_return_value.diam == g_zpc.diam))
__CPROVER_ensures(g_zpc_calls == 1 && g_zpc_id == simplex.id && g_zpc_dim == dim)
__CPROVER_ensures(!g_zpc.has || (g_zpf_calls == 1 && g_zpf_id == g_zpc.id && g_zpf_dim == dim + 1))
__CPROVER_assigns(g_zpc_calls, g_zpc_id, g_zpc_dim, g_zpf_calls, g_zpf_id, g_zpf_dim)
"""
    f_zac = Fn(RP, sel_zac, "get_zero_apparent_cofacet", con_zac, sig_subs=SS, subs=OPT_SUBS, canary=(r"cofacet\.has \|\| facet|!facet\.has \|\| ", "0 || "))
    U.append(Unit("apparent.zero_apparent_cofacet", "C11", [stub_zpc, stub_zpf, f_zac], enforce="get_zero_apparent_cofacet",
                  replace=["get_zero_pivot_cofacet", "get_zero_pivot_facet"], globals_=APP_GLUE, inputs=["in_s", "in_dim", "g_zpc", "g_zpf"],
                  harness=H2(init, "get_zero_apparent_cofacet(in_s, in_dim);"),
                  desc="get_zero_apparent_cofacet: the zero pivot cofacet c of the simplex, provided the zero pivot facet of c (one dimension up) is the simplex itself; nothing otherwise"))
    con_zaf = """
__CPROVER_requires(g_zpc_calls == 0 && g_zpf_calls == 0 && dim >= 1 && dim < 100)
__CPROVER_ensures(__CPROVER_return_value.has == (g_zpf.has && g_zpc.has && g_zpc.id == simplex.id))
__CPROVER_ensures(!__CPROVER_return_value.has || (__CPROVER_return_value.id == g_zpf.id && __CPROVER_return_value.diam == g_zpf.diam))
__CPROVER_ensures(g_zpf_calls == 1 && g_zpf_id == simplex.id && g_zpf_dim == dim)
__CPROVER_ensures(!g_zpf.has || (g_zpc_calls == 1 && g_zpc_id == g_zpf.id && g_zpc_dim == dim - 1))
__CPROVER_assigns(g_zpc_calls, g_zpc_id, g_zpc_dim, g_zpf_calls, g_zpf_id, g_zpf_dim)
"""
    stub_zpc2 = Fn(RP, sel_zpc, "get_zero_pivot_cofacet", stub_zpc.contract, sig_subs=SS, subs=OPT_SUBS)
    stub_zpf2 = Fn(RP, sel_zpf, "get_zero_pivot_facet", stub_zpf.contract, sig_subs=SS, subs=OPT_SUBS)
    f_zaf = Fn(RP, sel_zaf, "get_zero_apparent_facet", con_zaf, sig_subs=SS, subs=OPT_SUBS, canary=(r"!cofacet\.has \|\| ", "0 || "))
    U.append(Unit("apparent.zero_apparent_facet", "C11", [stub_zpc2, stub_zpf2, f_zaf], enforce="get_zero_apparent_facet",
                  replace=["get_zero_pivot_cofacet", "get_zero_pivot_facet"], globals_=APP_GLUE, inputs=["in_s", "in_dim", "g_zpc", "g_zpf"],
                  harness=H2(init, "get_zero_apparent_facet(in_s, in_dim);"),
                  desc="get_zero_apparent_facet: the zero pivot facet f of the simplex, provided the zero pivot cofacet of f (one dimension down) is the simplex itself; nothing otherwise"))
    # is_in_zero_apparent_pair
    stub_zac = Fn(RP, sel_zac, "get_zero_apparent_cofacet", """
__CPROVER_ensures(__CPROVER_return_value.has == g_zac.has && g_zac_calls == __CPROVER_old(g_zac_calls) + 1 && g_zac_id == simplex.id && g_zac_dim == dim)
__CPROVER_assigns(g_zac_calls, g_zac_id, g_zac_dim)
""", sig_subs=SS, subs=OPT_SUBS)
    stub_zaf = Fn(RP, sel_zaf, "get_zero_apparent_facet", """
__CPROVER_ensures(__CPROVER_return_value.has == g_zaf.has && g_zaf_calls == __CPROVER_old(g_zaf_calls) + 1 && g_zaf_id == simplex.id && g_zaf_dim == dim)
__CPROVER_assigns(g_zaf_calls, g_zaf_id, g_zaf_dim)
""", sig_subs=SS, subs=OPT_SUBS)
    f_in = Fn(RP, r"bool is_in_zero_apparent_pair\(const diameter_entry_t simplex, const dimension_t dim\)", "is_in_zero_apparent_pair", """
__CPROVER_requires(g_zac_calls == 0 && g_zaf_calls == 0)
__CPROVER_ensures(__CPROVER_return_value == (g_zac.has || g_zaf.has))
__CPROVER_ensures((g_zac_calls == 0 || (g_zac_id == simplex.id && g_zac_dim == dim)) && (g_zaf_calls == 0 || (g_zaf_id == simplex.id && g_zaf_dim == dim)))
__CPROVER_assigns(g_zac_calls, g_zac_id, g_zac_dim, g_zaf_calls, g_zaf_id, g_zaf_dim)
""", sig_subs=SS, subs=OPT_SUBS + [(r"(get_zero_apparent_\w+\(simplex, dim\))", r"\1.has")], canary=(r"\.has \|\| ", ".has && "))
    U.append(Unit("apparent.is_in_zero_apparent_pair", "C11", [stub_zac, stub_zaf, f_in], enforce="is_in_zero_apparent_pair",
                  replace=["get_zero_apparent_cofacet", "get_zero_apparent_facet"], globals_=APP_GLUE, inputs=["in_s", "in_dim", "g_zac", "g_zaf"],
                  harness=H2(init, "is_in_zero_apparent_pair(in_s, in_dim);"),
                  desc="is_in_zero_apparent_pair: true exactly when the simplex has a zero apparent cofacet or a zero apparent facet (asked about this simplex, this dimension)"))

def dim0_units(U):
    """compute_dim_0_pairs, loop body (one edge in increasing order): Kruskal step with the apparent-pair shortcut."""
    G = APP_GLUE + """
typedef int vertex_t; typedef struct { value_t diameter; simplex_t index; } diameter_simplex_t;
#define NVX 8
dimension_t dim_max; vertex_t n;
vertex_t g_v0, g_v1; vertex_t g_root[NVX]; simplex_t g_ev_id; unsigned g_ev_calls;
unsigned g_link_calls; vertex_t g_link_a, g_link_b; unsigned g_out_calls; int g_out_dim; value_t g_out_d; unsigned g_push_calls; diameter_simplex_t g_pushed;
#define VP_MK(e) ((dentry){(e).diameter, (e).index})                 /* filt.make_diameter_entry(e, 1): coefficient dropped */
static void vp_edge_vertices(simplex_t id, vertex_t* voe) { g_ev_id = id; g_ev_calls++; voe[0] = g_v0; voe[1] = g_v1; }   /* get_simplex_vertices(index, 1, n, rbegin) */
static vertex_t uf_find(vertex_t x) { __CPROVER_assert(x >= 0 && x < NVX, "vertex"); return g_root[x]; }
static void uf_link(vertex_t a, vertex_t b) { g_link_calls++; g_link_a = a; g_link_b = b; }
static void output_pair(int d, value_t v) { g_out_calls++; g_out_dim = d; g_out_d = v; }
static void cols_push(diameter_simplex_t e) { g_push_calls++; g_pushed = e; }
vp_opt get_zero_apparent_cofacet(dentry simplex, dimension_t dim); vp_opt get_zero_apparent_facet(dentry simplex, dimension_t dim);
"""
    SS = [(r"std::optional<diameter_entry_t>", "vp_opt", 0), (r"const diameter_entry_t", "dentry"), (r"const dimension_t", "dimension_t")]
    stubs = []
    for nm, g in (("get_zero_pivot_cofacet", "g_zpc"), ("get_zero_pivot_facet", "g_zpf"), ("get_zero_apparent_cofacet", "g_zac"), ("get_zero_apparent_facet", "g_zaf")):
        stubs.append(Fn(RP, rf"std::optional<diameter_entry_t> {nm}\(const diameter_entry_t simplex, const dimension_t dim\)", nm, f"""
__CPROVER_ensures(__CPROVER_return_value.has == {g}.has && {g}_calls == __CPROVER_old({g}_calls) + 1 && {g}_id == simplex.id && {g}_dim == dim)
__CPROVER_assigns({g}_calls, {g}_id, {g}_dim)
""", sig_subs=SS, subs=OPT_SUBS))
    con = """
__CPROVER_requires(g_v0 >= 0 && g_v0 < NVX && g_v1 >= 0 && g_v1 < NVX && @e@.diameter == @e@.diameter)
__CPROVER_requires(g_ev_calls == 0 && g_link_calls == 0 && g_out_calls == 0 && g_push_calls == 0 && g_zac_calls == 0 && g_zpc_calls == 0 && g_zpf_calls == 0 && g_zaf_calls == 0)
__CPROVER_ensures(g_ev_calls == 1 && g_ev_id == @e@.index)
__CPROVER_ensures(g_link_calls == (g_root[g_v0] != g_root[g_v1] ? 1 : 0) && (g_link_calls == 0 || (g_link_a == g_root[g_v0] && g_link_b == g_root[g_v1])))
__CPROVER_ensures(g_out_calls == ((g_root[g_v0] != g_root[g_v1] && @e@.diameter != 0) ? 1 : 0) && (g_out_calls == 0 || (g_out_dim == 0 && g_out_d == @e@.diameter)))
__CPROVER_ensures(g_push_calls == ((g_root[g_v0] == g_root[g_v1] && dim_max > 0 && !g_zac.has) ? 1 : 0) && (g_push_calls == 0 || (g_pushed.index == @e@.index && g_pushed.diameter == @e@.diameter)))
__CPROVER_ensures(g_root[g_v0] != g_root[g_v1] || dim_max <= 0 || (g_zac_calls == 1 && g_zac_id == @e@.index && g_zac_dim == 1))
__CPROVER_assigns(g_ev_id, g_ev_calls, g_link_calls, g_link_a, g_link_b, g_out_calls, g_out_dim, g_out_d, g_push_calls, g_pushed, g_zac_calls, g_zac_id, g_zac_dim, g_zpc_calls, g_zpc_id, g_zpc_dim, g_zpf_calls, g_zpf_id, g_zpf_dim, g_zaf_calls, g_zaf_id, g_zaf_dim)
"""
    fn = Fn(RP, r"void compute_dim_0_pairs\(std::vector<diameter_simplex_t>& edges,\s*std::vector<diameter_simplex_t>& columns_to_reduce, OutPair& output_pair\)", "dim0_step", con,
            piece={"kind": "loop", "ordinal": 0, "sig": "void dim0_step(diameter_simplex_t @e@)"},
            derive={"e": r"for \(auto (\w+) : edges\)"},
            prologue="vertex_t vertices_of_edge[2];",
            subs=[(r"filt\.get_simplex_vertices\(filt\.get_index\((\w+)\), 1, n, vertices_of_edge\.rbegin\(\)\);", r"vp_edge_vertices(\1.index, vertices_of_edge);"),
                  (r"dset\.find\(", "uf_find("), (r"dset\.link\(", "uf_link("),
                  (r"get_diameter\((\w+)\)", r"\1.diameter"),
                  (r"!(get_zero_\w+)\(filt\.make_diameter_entry\((\w+), 1\), 1\)", r"!\1(VP_MK(\2), 1).has"),
                  (r"columns_to_reduce\.push_back\(", "cols_push(")],
            canary=(r"\.diameter != 0\)", ".diameter > 0)"))
    U.append(Unit("reduction.compute_dim_0_pairs.step", "C11", stubs + [fn], enforce="dim0_step",
                  replace=["get_zero_pivot_cofacet", "get_zero_pivot_facet", "get_zero_apparent_cofacet", "get_zero_apparent_facet"], globals_=G,
                  inputs=["in_e", "g_v0", "g_v1", "dim_max", "g_root"], replay=replay_by_native_search,
                  harness=H("  diameter_simplex_t in_e; in_e.diameter = nondet_float(); in_e.index = nondet_ulong(); g_v0 = nondet_int(); g_v1 = nondet_int(); dim_max = (dimension_t)nondet_int();\n"
                            "  g_ev_calls = 0; g_link_calls = 0; g_out_calls = 0; g_push_calls = 0; g_zac_calls = 0; g_zpc_calls = 0; g_zpf_calls = 0; g_zaf_calls = 0;\n"
                            "  g_zpc.has = nondet_int() != 0; g_zpf.has = nondet_int() != 0; g_zac.has = nondet_int() != 0; g_zaf.has = nondet_int() != 0;", "dim0_step(in_e);"),
                  desc="compute_dim_0_pairs, one edge: if its endpoints lie in different components they are merged and (0, diameter) is streamed unless the diameter is 0; otherwise, when dim_max > 0, the edge becomes a column to reduce exactly when it has no zero apparent cofacet (asked for this edge, dimension 1)"))

def barcodes_units(U):
    """Persistent_cohomology::compute_barcodes: the driver loop over dimensions - what each round is given.  The three
    workers are ghost stubs that record their arguments; the pivot map is a ghost size."""
    DM = 3
    G = ND + f"""
typedef signed char dimension_t;
#define DMX {DM}
dimension_t dim_max;
size_t g_map_size; unsigned g_map_decl; size_t g_reserved;
unsigned g_od_calls; dimension_t g_od_last; unsigned g_d0_calls; unsigned g_cp_calls; dimension_t g_cp_last; unsigned g_cp_dirty; unsigned g_as_calls; dimension_t g_as_last; unsigned g_order_bad;
size_t g_ncols;
static void output_dim(dimension_t d) {{ if (d != (dimension_t)g_od_calls) g_order_bad++; g_od_calls++; g_od_last = d; }}
static void compute_dim_0_pairs_stub(void) {{ if (g_od_calls != 1) g_order_bad++; g_d0_calls++; g_ncols = nondet_ulong(); }}
/* compute_pairs(columns, pivot map, dim): must be given an EMPTY pivot map (pivots of one dimension only); fills it */
static void compute_pairs_stub(dimension_t d) {{ if (g_map_size != 0) g_cp_dirty++; if (d != g_od_last || (dimension_t)(g_cp_calls + 1) != d) g_order_bad++; g_cp_calls++; g_cp_last = d; g_map_size = nondet_ulong(); }}
static void assemble_stub(dimension_t d) {{ if (d != g_cp_last + 1 || d > dim_max) g_order_bad++; g_as_calls++; g_as_last = d; g_ncols = nondet_ulong(); }}
"""
    con = """
__CPROVER_requires(dim_max >= 0 && dim_max <= DMX && g_od_calls == 0 && g_d0_calls == 0 && g_cp_calls == 0 && g_as_calls == 0 && g_cp_dirty == 0 && g_order_bad == 0)
__CPROVER_ensures(g_od_calls == (unsigned)dim_max + 1 && g_d0_calls == 1 && g_cp_calls == (unsigned)dim_max && g_as_calls == (dim_max >= 1 ? (unsigned)dim_max - 1 : 0))
__CPROVER_ensures(g_cp_dirty == 0)
__CPROVER_ensures(g_order_bad == 0)
__CPROVER_assigns(g_map_size, g_map_decl, g_reserved, g_od_calls, g_od_last, g_d0_calls, g_cp_calls, g_cp_last, g_cp_dirty, g_as_calls, g_as_last, g_order_bad, g_ncols)
"""
    fn = Fn(RP, r"void compute_barcodes\(OutDim&& output_dim, OutPair&& output_pair\)", "compute_barcodes", con,
            sig_subs=[(r"\(OutDim&& output_dim, OutPair&& output_pair\)", "(void)")],
            subs=[(r"std::vector<diameter_simplex_t> simplices, columns_to_reduce;", ""),
                  (r"compute_dim_0_pairs\(simplices, columns_to_reduce, output_pair\);", "compute_dim_0_pairs_stub();"),
                  (r"entry_hash_map pivot_column_index\(0, filt, filt\);", "g_map_size = 0; g_map_decl++;"),
                  (r"pivot_column_index\.reserve\(columns_to_reduce\.size\(\)\);", "g_reserved = g_ncols;", 0),
                  (r"pivot_column_index\.clear\(\);", "g_map_size = 0;", 0),
                  (r"compute_pairs\(columns_to_reduce, pivot_column_index, (\w+), output_pair\);", r"compute_pairs_stub(\1);"),
                  (r"assemble_columns_to_reduce\(simplices, columns_to_reduce, pivot_column_index,\s*([^;]*)\);", r"assemble_stub(\1);")],
            canary=(r"if \(dim < dim_max\)", "if (dim <= dim_max)"))
    U.append(Unit("reduction.compute_barcodes", "C11", [fn], enforce="compute_barcodes", globals_=G, unwind=DM + 2, route="B",
                  bound=f"dim_max <= {DM} (the loop over dimensions is unwound); what the workers do is abstract", inputs=["dim_max"], replay=replay_by_native_search,
                  harness=H("  dim_max = (dimension_t)nondet_int(); g_od_calls = 0; g_d0_calls = 0; g_cp_calls = 0; g_as_calls = 0; g_cp_dirty = 0; g_order_bad = 0; g_map_size = nondet_ulong();", "compute_barcodes();"),
                  desc="compute_barcodes: dimension 0 first, then for dim = 1..dim_max: output_dim(dim), compute_pairs(dim) on a pivot map that is EMPTY at that moment (pivots of another dimension must never be visible: simplex indices are unique per dimension only), then assemble_columns_to_reduce(dim + 1) except after the last dimension"))

def pairs_step_units(U):
    """compute_pairs, one turn of the reduction loop of a column (the body of the inner `while (true)`): which of the four
    cases applies and what it does.  Heaps, the pivot map, the coboundary workers and the apparent-pair test are ghost
    stubs recording their arguments; the elimination factor is checked arithmetically (it cancels the pivot)."""
    G = ND + """
typedef float value_t; typedef signed char dimension_t; typedef unsigned long simplex_t; typedef unsigned int coefficient_t;
typedef struct { bool has; value_t diam; simplex_t id; coefficient_t coef; } vp_opt;   /* std::optional<diameter_entry_t>, with its coefficient */
typedef struct { bool found; coefficient_t coef; size_t index; } vp_find;
coefficient_t modulus; value_t diameter; size_t index_column_to_reduce;
vp_find g_find; simplex_t g_find_id; unsigned g_find_calls;
coefficient_t g_inv; coefficient_t g_inv_arg; unsigned g_inv_calls;
unsigned g_addcob_calls; size_t g_addcob_index; coefficient_t g_addcob_factor; dimension_t g_addcob_dim;
vp_opt g_next_pivot; unsigned g_getpivot_calls;
vp_opt g_zaf; simplex_t g_zaf_id; dimension_t g_zaf_dim; unsigned g_zaf_calls;
unsigned g_addsimp_calls; simplex_t g_addsimp_id; coefficient_t g_addsimp_coef; dimension_t g_addsimp_dim;
unsigned g_out_calls; value_t g_out_b, g_out_d; unsigned g_ins_calls; simplex_t g_ins_id; size_t g_ins_index; unsigned g_drain_calls; bool g_break;
static vp_find map_find(simplex_t id) { g_find_calls++; g_find_id = id; return g_find; }
static coefficient_t multiplicative_inverse(coefficient_t c) { g_inv_calls++; g_inv_arg = c; return g_inv; }
static void add_cob_stub(size_t index, coefficient_t factor, dimension_t d) { g_addcob_calls++; g_addcob_index = index; g_addcob_factor = factor; g_addcob_dim = d; }
static vp_opt get_pivot_stub(void) { g_getpivot_calls++; return g_next_pivot; }
static vp_opt zaf_stub(vp_opt p, dimension_t d) { g_zaf_calls++; g_zaf_id = p.id; g_zaf_dim = d; return g_zaf; }
static void add_simp_stub(vp_opt e, dimension_t d) { g_addsimp_calls++; g_addsimp_id = e.id; g_addsimp_coef = e.coef; g_addsimp_dim = d; }
static void output_pair(value_t b, value_t d) { g_out_calls++; g_out_b = b; g_out_d = d; }
static void map_insert(simplex_t id, size_t index) { g_ins_calls++; g_ins_id = id; g_ins_index = index; }
static void drain_stub(void) { g_drain_calls++; }
#define LISTED_PRIME(p) ((p) == 2 || (p) == 3 || (p) == 5 || (p) == 7 || (p) == 11 || (p) == 13 || (p) == 17 || (p) == 19 || (p) == 23 || (p) == 29 || (p) == 31)
static bool zero_calls(void) { return g_find_calls == 0 && g_inv_calls == 0 && g_addcob_calls == 0 && g_getpivot_calls == 0 && g_zaf_calls == 0 && g_addsimp_calls == 0 && g_out_calls == 0 && g_ins_calls == 0 && g_drain_calls == 0 && !g_break; }
"""
    con = """
__CPROVER_requires(zero_calls() && LISTED_PRIME(modulus) && diameter == diameter && dim >= 0 && dim < 100)
__CPROVER_requires(!pivot->has || (pivot->coef >= 1 && pivot->coef < modulus && pivot->diam == pivot->diam))
__CPROVER_requires(g_find.coef >= 1 && g_find.coef < modulus && g_inv >= 1 && g_inv < modulus && (g_find.coef * g_inv) % modulus == 1 && g_zaf.coef >= 1 && g_zaf.coef < modulus)
__CPROVER_ensures(__CPROVER_old(pivot->has) || (g_break && g_out_calls == 1 && g_out_b == diameter && isinf(g_out_d) && g_out_d > 0 && g_find_calls == 0 && g_ins_calls == 0 && g_addcob_calls == 0 && g_addsimp_calls == 0))
__CPROVER_ensures(!__CPROVER_old(pivot->has) || (g_find_calls == 1 && g_find_id == __CPROVER_old(pivot->id)))
__CPROVER_ensures(!(__CPROVER_old(pivot->has) && g_find.found) || (!g_break && g_addcob_calls == 1 && g_addcob_index == g_find.index && g_addcob_dim == dim && g_inv_calls == 1 && g_inv_arg == g_find.coef && g_addcob_factor >= 1 && g_addcob_factor < modulus && (__CPROVER_old(pivot->coef) + g_addcob_factor * g_find.coef) % modulus == 0 && g_getpivot_calls == 1 && pivot->has == g_next_pivot.has && pivot->id == g_next_pivot.id && g_out_calls == 0 && g_ins_calls == 0 && g_zaf_calls == 0))
__CPROVER_ensures(!(__CPROVER_old(pivot->has) && !g_find.found) || (g_zaf_calls == 1 && g_zaf_id == __CPROVER_old(pivot->id) && g_zaf_dim == dim + 1 && g_addcob_calls == 0))
__CPROVER_ensures(!(__CPROVER_old(pivot->has) && !g_find.found && g_zaf.has) || (!g_break && g_addsimp_calls == 1 && g_addsimp_id == g_zaf.id && g_addsimp_coef == modulus - g_zaf.coef && g_addsimp_dim == dim && g_getpivot_calls == 1 && pivot->id == g_next_pivot.id && g_out_calls == 0 && g_ins_calls == 0))
__CPROVER_ensures(!(__CPROVER_old(pivot->has) && !g_find.found && !g_zaf.has) || (g_break && g_out_calls == 1 && g_out_b == diameter && g_out_d == __CPROVER_old(pivot->diam) && g_ins_calls == 1 && g_ins_id == __CPROVER_old(pivot->id) && g_ins_index == index_column_to_reduce && g_drain_calls == 1 && g_addsimp_calls == 0))
__CPROVER_assigns(*pivot, g_find_id, g_find_calls, g_inv_arg, g_inv_calls, g_addcob_calls, g_addcob_index, g_addcob_factor, g_addcob_dim, g_getpivot_calls, g_zaf_id, g_zaf_dim, g_zaf_calls, g_addsimp_calls, g_addsimp_id, g_addsimp_coef, g_addsimp_dim, g_out_calls, g_out_b, g_out_d, g_ins_calls, g_ins_id, g_ins_index, g_drain_calls, g_break)
"""
    fn = Fn(RP, r"void compute_pairs\(const std::vector<diameter_simplex_t>& columns_to_reduce,\s*entry_hash_map& pivot_column_index, const dimension_t dim, OutPair& output_pair\)", "pairs_step", con,
            piece={"kind": "loop", "ordinal": 1, "sig": "void pairs_step(vp_opt* pivot, dimension_t dim)"},
            subs=[(r"while \(true\) \{\s*std::optional<diameter_entry_t> (\w+) = pop_pivot\(working_reduction_column\);\s*if \(!\1\) break;\s*(?:GUDHI_assert|__CPROVER_assert)\([^;]*\);\s*reduction_matrix\.push_back\(\*\1\);\s*\}", "drain_stub();"),
                  (r"\bbreak;", "{ g_break = true; return; }"),
                  (r"if \(pivot\) \{", "if (pivot->has) {"),
                  (r"auto (\w+) = pivot_column_index\.find\(get_entry\(\*pivot\)\);", r"vp_find \1 = map_find(pivot->id);"),
                  (r"(\w+) != pivot_column_index\.end\(\)", r"\1.found"),
                  (r"entry_t (\w+) = (\w+)->first;", r"coefficient_t \1 = \2.coef;"), (r"size_t (\w+) = (\w+)->second;", r"size_t \1 = \2.index;"),
                  (r"filt\.get_coefficient\(\*pivot\)", "pivot->coef"), (r"filt\.get_coefficient\(other_pivot\)", "other_pivot"),
                  (r"add_coboundary\(reduction_matrix, columns_to_reduce, (\w+),\s*(\w+), (\w+), working_reduction_column, working_coboundary\);", r"add_cob_stub(\1, \2, \3);"),
                  (r"pivot = get_pivot\(working_coboundary\);", "*pivot = get_pivot_stub();"),
                  (r"else if \(std::optional<diameter_entry_t> (\w+) = get_zero_apparent_facet\(\*pivot, ([^;]*)\); \1\) \{", r"else if (zaf_probe(pivot, \2)) { vp_opt \1 = vp_zaf_result;"),
                  (r"filt\.set_coefficient\(\*(\w+), modulus - filt\.get_coefficient\(\*\1\)\);", r"\1.coef = modulus - \1.coef;"),
                  (r"add_simplex_coboundary\(\*(\w+), (\w+), working_reduction_column, working_coboundary\);", r"add_simp_stub(\1, \2);"),
                  (r"get_diameter\(\*pivot\)", "pivot->diam"),
                  (r"pivot_column_index\.insert\(\{get_entry\(\*pivot\), (\w+)\}\);", r"map_insert(pivot->id, \1);"),
                  (r"std::numeric_limits<value_t>::infinity\(\)", "INFINITY")],
            prologue="vp_opt vp_zaf_result;\n#define zaf_probe(p, d) ((vp_zaf_result = zaf_stub(*(p), (d))).has)",
            canary=(r"modulus - pivot->coef \*", "modulus - 1 + pivot->coef *"))
    U.append(Unit("reduction.compute_pairs.step", "C11", [fn], enforce="pairs_step", globals_="#include <math.h>\n" + G, route="B",
                  bound="moduli: the primes up to 31 (the cancellation clause multiplies and reduces); everything else symbolic",
                  inputs=["in_p", "in_dim", "modulus", "g_find", "g_zaf"], replay=replay_by_native_search,
                  harness=H("  vp_opt in_p; in_p.has = nondet_int() != 0; in_p.diam = nondet_float(); in_p.id = nondet_ulong(); in_p.coef = nondet_uint(); dimension_t in_dim = (dimension_t)nondet_int(); modulus = nondet_uint(); diameter = nondet_float(); index_column_to_reduce = nondet_ulong();\n"
                            "  g_find.found = nondet_int() != 0; g_zaf.has = nondet_int() != 0; g_next_pivot.has = nondet_int() != 0;\n"
                            "  g_find_calls = 0; g_inv_calls = 0; g_addcob_calls = 0; g_getpivot_calls = 0; g_zaf_calls = 0; g_addsimp_calls = 0; g_out_calls = 0; g_ins_calls = 0; g_drain_calls = 0; g_break = 0; vp_opt x_p = in_p;", "pairs_step(&x_p, in_dim);"),
                  runs=[Run(backend="kissat", timeout=600)],
                  desc="compute_pairs, one turn of the reduction of a column: no pivot -> the class is essential, (diameter, infinity) is streamed; pivot already owned by another column -> that column is added with the factor -c_pivot / c_other (checked: it cancels the pivot modulo the characteristic) and the new pivot is taken; pivot with a zero apparent facet -> that facet's coboundary is added with the negated coefficient; otherwise -> (diameter, diameter of the pivot) is streamed, the pivot is recorded for this column and the reduction column is stored"))

def emergent_units(U):
    """init_coboundary_and_get_pivot (the emergent-pair shortcut), add_simplex_coboundary and add_coboundary: what is pushed
    where.  Enumerators, heaps, the pivot map and the apparent-facet test are ghost stubs (at most KE cofacets)."""
    G = APP_GLUE + """
typedef unsigned int coefficient_t;
bool g_pivmap[KE], g_zafhas[KE];                   /* per enumerated cofacet: already a pivot / has a zero apparent facet */
unsigned g_find_calls2, g_zaf_calls2; unsigned g_wc_push; simplex_t g_wc_ids[2 * KE]; unsigned g_wr_push; simplex_t g_wr_last; unsigned g_ce_push; unsigned g_getpivot_calls2; vp_opt g_heap_pivot;
static bool pivmap_absent(vp_opt c) { g_find_calls2++; for (unsigned k = 0; k < KE; k++) if (k < g_ncof && g_cof[k].id == c.id) return !g_pivmap[k]; return true; }
static bool zaf_has(vp_opt c, dimension_t d) { g_zaf_calls2++; for (unsigned k = 0; k < KE; k++) if (k < g_ncof && g_cof[k].id == c.id) return g_zafhas[k]; return false; }
static void ce_clear(void) { g_ce_push = 0; }
static void ce_push(vp_opt c) { g_ce_push++; }
static void wc_push_id(simplex_t id) { if (g_wc_push < 2 * KE) g_wc_ids[g_wc_push] = id; g_wc_push++; }
static void wr_push_id(simplex_t id) { g_wr_push++; g_wr_last = id; }
static vp_opt get_pivot_heap(void) { g_getpivot_calls2++; return g_heap_pivot; }
static bool ids_distinct(void) { bool ok = g_ncof <= KE; for (unsigned a = 0; a < KE; a++) for (unsigned b = 0; b < KE; b++) if (a < b && b < g_ncof && g_cof[a].id == g_cof[b].id) ok = false; for (unsigned a = 0; a < KE; a++) ok = ok && g_cof[a].diam == g_cof[a].diam; return ok; }
"""
    SS = [(r"std::optional<diameter_entry_t>", "vp_opt", 0), (r"const diameter_entry_t", "dentry"), (r"const dimension_t", "dimension_t")]
    subs = [(r"!get_zero_apparent_facet\(\*(\w+), ([^()]*)\)", r"!zaf_has(\1, \2)", 0),
            (r"\(pivot_column_index\.find\(get_entry\(\*(\w+)\)\) == pivot_column_index\.end\(\)\)", r"pivmap_absent(\1)", 0),
            (r"cofacet_entries\.push_back\(\*(\w+)\);", r"ce_push(\1);", 0), (r"working_coboundary\.push\(\*(\w+)\);", r"wc_push_id(\1.id);", 0)] + OPT_SUBS + [(r"cofacet_entries\.clear\(\);", "ce_clear();", 0), (r"cofacets2\.set_simplex\(", "cof_set_simplex(", 0), (r"cofacets2\.next\(\)", "cof_next_raw()", 0),
                       (r"cofacets1\.next\(\)", "cof_next_raw()", 0),
                       (r"cofacet_entries\.push_back\(\*(\w+)\);", r"ce_push(\1);", 0),
                       (r"\(pivot_column_index\.find\(get_entry\(\*(\w+)\)\) == pivot_column_index\.end\(\)\)", r"pivmap_absent(\1)", 0),
                       (r"!get_zero_apparent_facet\(\*(\w+), ([^()]*)\)", r"!zaf_has(\1, \2)", 0),
                       (r"for \(auto (\w+) : cofacet_entries\) working_coboundary\.push\(\1\);", r"for (unsigned vp_k = 0; vp_k < g_ncof; vp_k++) wc_push_id(g_cof[vp_k].id);", 0),
                       (r"return get_pivot\(working_coboundary\);", "return get_pivot_heap();", 0),
                       (r"working_reduction_column\.push\((\w+)\);", r"wr_push_id(\1.id);", 0), (r"working_coboundary\.push\(\*(\w+)\);", r"wc_push_id(\1.id);", 0)]
    K = "x_first_same_cof(simplex.diam)"
    con = f"""
__CPROVER_requires(ids_distinct() && g_cset_calls == 0 && g_find_calls2 == 0 && g_zaf_calls2 == 0 && g_wc_push == 0 && g_getpivot_calls2 == 0 && simplex.diam == simplex.diam && dim >= 0 && dim < 100)
__CPROVER_ensures(g_cset_calls == 1 && g_cset_id == simplex.id && g_cset_dim == dim)
__CPROVER_ensures(!({K} < g_ncof && !g_pivmap[{K}] && !g_zafhas[{K}]) || (__CPROVER_return_value.has && __CPROVER_return_value.id == g_cof[{K}].id && g_wc_push == 0 && g_getpivot_calls2 == 0))
__CPROVER_ensures(({K} < g_ncof && !g_pivmap[{K}] && !g_zafhas[{K}]) || (g_wc_push == g_ncof && g_getpivot_calls2 == 1 && __CPROVER_return_value.has == g_heap_pivot.has && __CPROVER_return_value.id == g_heap_pivot.id))
__CPROVER_ensures(g_wc_push == 0 || g_wc_push == g_ncof)
__CPROVER_assigns(g_cpos, g_fpos, g_cset_id, g_cset_dim, g_cset_calls, g_fset_id, g_fset_dim, g_fset_calls, g_find_calls2, g_zaf_calls2, g_wc_push, __CPROVER_object_whole(g_wc_ids), g_ce_push, g_getpivot_calls2)
"""
    fn = Fn(RP, r"std::optional<diameter_entry_t> init_coboundary_and_get_pivot\(const diameter_entry_t simplex,\s*Column& working_coboundary, const dimension_t dim,\s*entry_hash_map& pivot_column_index\)",
            "init_coboundary_and_get_pivot", con, sig_subs=SS + [(r"\(dentry simplex,\s*Column& working_coboundary, dimension_t dim,\s*entry_hash_map& pivot_column_index\)", "(dentry simplex, dimension_t dim)")],
            subs=subs, canary=(r"check_for_emergent_pair = false;", ";"))
    U.append(Unit("reduction.init_coboundary_and_get_pivot", "C11", [fn], enforce="init_coboundary_and_get_pivot", globals_=G, unwind=2 * 4 + 3, route="B",
                  bound="at most 4 cofacets per simplex; diameters, ids, pivot and apparent-facet tables symbolic", inputs=["in_s", "in_dim", "g_ncof"], replay=replay_by_native_search,
                  runs=[Run(backend="z3", timeout=300)],
                  harness=H("  dentry in_s; in_s.diam = nondet_float(); in_s.id = nondet_ulong(); dimension_t in_dim = (dimension_t)nondet_int();\n  g_cset_calls = 0; g_fset_calls = 0; g_find_calls2 = 0; g_zaf_calls2 = 0; g_wc_push = 0; g_getpivot_calls2 = 0; g_heap_pivot.has = nondet_int() != 0;\n"
                            "  for (int k = 0; k < KE; k++) { g_pivmap[k] = nondet_int() != 0; g_zafhas[k] = nondet_int() != 0; }", "init_coboundary_and_get_pivot(in_s, in_dim);"),
                  desc="init_coboundary_and_get_pivot: only the FIRST cofacet of the same diameter can form an emergent pair - it is returned at once (nothing is pushed) exactly when it is not yet a pivot and has no zero apparent facet; in every other case all cofacets go to the working coboundary and its pivot is returned"))
    con2 = """
__CPROVER_requires(g_ncof <= KE && g_cset_calls == 0 && g_wc_push == 0 && g_wr_push == 0)
__CPROVER_ensures(g_wr_push == 1 && g_wr_last == simplex.id && g_cset_calls == 1 && g_cset_id == simplex.id && g_cset_dim == dim && g_wc_push == g_ncof)
__CPROVER_ensures(g_ncof == 0 || g_wc_ids[0] == g_cof[0].id)
__CPROVER_assigns(g_cpos, g_cset_id, g_cset_dim, g_cset_calls, g_wc_push, __CPROVER_object_whole(g_wc_ids), g_wr_push, g_wr_last)
"""
    fn2 = Fn(RP, r"void add_simplex_coboundary\(const diameter_entry_t simplex, const dimension_t dim,\s*Column& working_reduction_column, Column& working_coboundary\)", "add_simplex_coboundary", con2,
             sig_subs=SS + [(r"\(dentry simplex, dimension_t dim,\s*Column& working_reduction_column, Column& working_coboundary\)", "(dentry simplex, dimension_t dim)")], subs=subs,
             canary=(r"wr_push_id\(simplex\.id\);", ";"))
    U.append(Unit("reduction.add_simplex_coboundary", "C11", [fn2], enforce="add_simplex_coboundary", globals_=G, unwind=4 + 3, route="B",
                  bound="at most 4 cofacets per simplex", inputs=["in_s", "in_dim", "g_ncof"], replay=replay_by_native_search,
                  harness=H("  dentry in_s; in_s.diam = nondet_float(); in_s.id = nondet_ulong(); dimension_t in_dim = (dimension_t)nondet_int(); g_cset_calls = 0; g_wc_push = 0; g_wr_push = 0;", "add_simplex_coboundary(in_s, in_dim);"),
                  desc="add_simplex_coboundary: the simplex goes to the working reduction column and every cofacet its enumerator yields goes to the working coboundary"))

def add_coboundary_units(U):
    """add_coboundary: the column being added is its own simplex with coefficient `factor`, followed by every simplex stored
    for it in the reduction matrix with its coefficient multiplied by `factor` modulo the characteristic."""
    KS = 3
    G = ND + f"""
typedef float value_t; typedef signed char dimension_t; typedef unsigned long simplex_t; typedef unsigned int coefficient_t;
#define KS {KS}
typedef struct {{ value_t diam; simplex_t id; coefficient_t coef; }} dentry;          /* diameter_entry_t with its coefficient */
typedef struct {{ value_t diameter; simplex_t index; }} diameter_simplex_t;
coefficient_t modulus; diameter_simplex_t g_col; dentry g_stored[KS]; unsigned g_nstored;
unsigned g_asc_calls; simplex_t g_asc_id[KS + 1]; coefficient_t g_asc_coef[KS + 1]; dimension_t g_asc_dim[KS + 1];
static dentry make_entry(diameter_simplex_t s, coefficient_t c) {{ dentry e; e.diam = s.diameter; e.id = s.index; e.coef = c; return e; }}
static void asc_stub(dentry s, dimension_t d) {{ if (g_asc_calls < KS + 1) {{ g_asc_id[g_asc_calls] = s.id; g_asc_coef[g_asc_calls] = s.coef; g_asc_dim[g_asc_calls] = d; }} g_asc_calls++; }}
static bool x_rest(coefficient_t factor, dimension_t dim) {{ bool ok = true; for (unsigned k = 0; k < KS; k++) if (k < g_nstored) ok = ok && g_asc_id[k + 1] == g_stored[k].id && g_asc_coef[k + 1] == g_stored[k].coef * factor % modulus && g_asc_dim[k + 1] == dim; return ok; }}
static bool x_nowrap(coefficient_t factor) {{ bool ok = true; for (unsigned k = 0; k < KS; k++) ok = ok && (unsigned long)g_stored[k].coef * (unsigned long)factor <= 4294967295ul; return ok; }}
"""
    con = """
__CPROVER_requires(g_nstored <= KS && g_asc_calls == 0 && modulus >= 2 && modulus <= 65521 && @2@ >= 1 && @2@ < modulus)
__CPROVER_requires(g_stored[0].coef < modulus && g_stored[1].coef < modulus && g_stored[2].coef < modulus)
__CPROVER_ensures(g_asc_calls == g_nstored + 1 && g_asc_id[0] == g_col.index && g_asc_coef[0] == @2@ && g_asc_dim[0] == @3@)
__CPROVER_ensures(x_rest(@2@, @3@))
__CPROVER_ensures(x_nowrap(@2@))
__CPROVER_assigns(g_asc_calls, __CPROVER_object_whole(g_asc_id), __CPROVER_object_whole(g_asc_coef), __CPROVER_object_whole(g_asc_dim))
"""
    fn = Fn(RP, r"void add_coboundary\(Compressed_sparse_matrix& \w+,\s*const std::vector<diameter_simplex_t>& \w+,\s*const size_t \w+, const coefficient_t \w+,\s*const dimension_t \w+, Column& \w+,\s*Column& \w+\)",
            "add_coboundary", con,
            sig_subs=[(r"Compressed_sparse_matrix& \w+,\s*const std::vector<diameter_simplex_t>& \w+,\s*", ""), (r",\s*Column& \w+,\s*Column& \w+", ""), (r"\bconst (size_t|coefficient_t|dimension_t)", r"\1")],
            subs=[(r"\bdiameter_entry_t\b", "dentry"), (r"filt\.make_diameter_entry\(\w+\[\w+\], (\w+)\)", r"make_entry(g_col, \1)"),
                  (r"add_simplex_coboundary\((\w+), (\w+), \w+, \w+\);", r"asc_stub(\1, \2);"),
                  (r"for \(dentry (\w+) : \w+\.subrange\(\w+\)\) \{", r"for (unsigned vp_k = 0; vp_k < g_nstored; vp_k++) { dentry \1 = g_stored[vp_k];"),
                  (r"filt\.set_coefficient\((\w+), filt\.get_coefficient\(\1\) \* (\w+) % modulus\);", r"\1.coef = \1.coef * \2 % modulus;")],
            canary=(r"\* (\w+) % modulus", r"* \1"))
    U.append(Unit("reduction.add_coboundary", "C11", [fn], enforce="add_coboundary", globals_=G, unwind=KS + 2, route="B",
                  bound=f"at most {KS} simplices stored for the added column; moduli up to 65521 (the product of two coefficients fits 32 bits)", inputs=["in_i", "in_f", "in_dim", "modulus", "g_nstored"],
                  replay=replay_by_native_search,
                  runs=[Run(only=["*.postcondition.2"], backend="z3", timeout=300, label="value"), Run(only=["*.postcondition.3"], backend="kissat", timeout=300, label="no-wrap"),
                        Run(exclude=["*.postcondition.2", "*.postcondition.3"], backend="sat", timeout=300, label="rest")],
                  harness=H("  size_t in_i = nondet_ulong(); coefficient_t in_f = nondet_uint(); dimension_t in_dim = (dimension_t)nondet_int(); modulus = nondet_uint(); g_nstored = nondet_uint(); g_asc_calls = 0;\n"
                            "  for (int k = 0; k < KS; k++) { g_stored[k].id = nondet_ulong(); g_stored[k].coef = nondet_uint(); }", "add_coboundary(in_i, in_f, in_dim);"),
                  desc="add_coboundary: adds the coboundary of the added column's own simplex with coefficient `factor`, then of every simplex stored for that column with its coefficient times `factor` reduced modulo the characteristic (no 32-bit wrap for moduli below 2^16)"))

def get_edges_units(U):
    """Rips_filtration::get_edges, inner loop bodies: which pairs become edges of the filtration (dense: length <= threshold,
    the complex is truncated AT the threshold like the coboundary enumerator does; sparse: every stored neighbour once)."""
    G = ND + """
#include <math.h>
typedef int vertex_t; typedef float value_t; typedef unsigned long simplex_t;
value_t threshold; value_t g_dist_ij; int g_dist_i = -1, g_dist_j = -1; unsigned g_push; value_t g_push_len; simplex_t g_push_idx; simplex_t g_eidx; int g_eidx_i, g_eidx_j;
static value_t vp_dist(vertex_t i, vertex_t j) { g_dist_i = i; g_dist_j = j; return g_dist_ij; }
static simplex_t get_edge_index(vertex_t i, vertex_t j) { g_eidx_i = i; g_eidx_j = j; return g_eidx; }
static void edges_push(value_t len, simplex_t idx) { g_push++; g_push_len = len; g_push_idx = idx; }
"""
    fn = Fn(RP, r"std::vector<diameter_simplex_t> get_edges\(\)", "edge_dense", """
__CPROVER_requires(g_push == 0 && !isnan(g_dist_ij) && !isnan(threshold))
__CPROVER_ensures(g_push == (g_dist_ij <= threshold ? 1 : 0))
__CPROVER_ensures(g_push == 0 || (g_push_len == g_dist_ij && g_push_idx == g_eidx && g_eidx_i == i && g_eidx_j == j))
__CPROVER_ensures(g_dist_i == i && g_dist_j == j)
__CPROVER_assigns(g_push, g_push_len, g_push_idx, g_dist_i, g_dist_j, g_eidx_i, g_eidx_j)
""", piece={"kind": "loop", "ordinal": 1, "sig": "void edge_dense(vertex_t i, vertex_t j)"},
            constexpr=[(r"!std::is_same_v<typename DistanceMatrix::Category, Tag_sparse>", True)],
            subs=[(r"\bdist\(", "vp_dist("), (r"edges\.push_back\(\{(\w+), ([^;]*)\}\);", r"edges_push(\1, \2);")],
            canary=(r"length <= threshold", "length < threshold"))
    U.append(Unit("rips_filtration.get_edges.dense", "C11", [fn], enforce="edge_dense", globals_=G, inputs=["in_i", "in_j", "g_dist_ij", "threshold"], replay=replay_by_native_search,
                  harness=H("  int in_i = nondet_int(), in_j = nondet_int(); g_dist_ij = nondet_float(); threshold = nondet_float(); g_push = 0;", "edge_dense(in_i, in_j);"),
                  desc="get_edges, dense matrices, one pair (i, j): the pair is an edge of the filtration exactly when its length is <= threshold (the filtration is truncated AT the threshold), with that length and the index of {i, j}"))
    fn2 = Fn(RP, r"std::vector<diameter_simplex_t> get_edges\(\)", "edge_sparse", """
__CPROVER_requires(g_push == 0 && !isnan(g_nb_d))
__CPROVER_ensures(g_push == (i > g_nb_v ? 1 : 0))
__CPROVER_ensures(g_push == 0 || (g_push_len == g_nb_d && g_push_idx == g_eidx && g_eidx_i == i && g_eidx_j == g_nb_v))
__CPROVER_assigns(g_push, g_push_len, g_push_idx, g_eidx_i, g_eidx_j)
""", piece={"kind": "loop", "ordinal": 3, "sig": "void edge_sparse(vertex_t i)"},
             subs=[(r"get_vertex\(n\)", "g_nb_v"), (r"get_diameter\(n\)", "g_nb_d"), (r"edges\.push_back\(\{([^,]*), ([^;]*)\}\);", r"edges_push(\1, \2);")],
             canary=(r"if \(i > j\)", "if (i >= j)"))
    U.append(Unit("rips_filtration.get_edges.sparse", "C11", [fn2], enforce="edge_sparse", globals_=G + "vertex_t g_nb_v; value_t g_nb_d;\n", inputs=["in_i", "g_nb_v", "g_nb_d"], replay=replay_by_native_search,
                  harness=H("  int in_i = nondet_int(); g_nb_v = nondet_int(); g_nb_d = nondet_float(); g_push = 0;", "edge_sparse(in_i);"),
                  desc="get_edges, sparse matrices, one stored neighbour (v, d) of i: it becomes an edge exactly when v < i (each undirected edge once, from its larger end), with its stored length and the index of {i, v}"))

def column_order_units(U):
    """Greater_diameter_or_smaller_index: the order in which columns are reduced and heaps pop their pivots - larger
    diameter first, ties by smaller index; a strict total order on entries with distinct indices (lemma)."""
    G = ND + """
#include <math.h>
typedef float value_t; typedef unsigned long simplex_t;
typedef struct { value_t diam; simplex_t id; } Entry;
static value_t get_diameter(Entry e) { return e.diam; }
static simplex_t filt_get_index(Entry e) { return e.id; }
"""
    con = """
__CPROVER_requires(!isnan(a.diam) && !isnan(b.diam))
__CPROVER_ensures(__CPROVER_return_value == (a.diam > b.diam || (a.diam == b.diam && a.id < b.id)))
__CPROVER_assigns()
"""
    def mk(contract, canary=None):
        return Fn(RP, r"bool operator\(\)\(const Entry& a, const Entry& b\) const", "col_before", contract, within=r"struct Greater_diameter_or_smaller_index \{",
                  sig_subs=[(r"operator\(\)", "col_before")], subs=[(r"filtp->get_index\(", "filt_get_index(")], canary=canary)
    U.append(Unit("column_order.greater_diameter_or_smaller_index", "C11", [mk(con, (r"filt_get_index\(a\) < filt_get_index\(b\)", "filt_get_index(a) <= filt_get_index(b)"))], enforce="col_before", globals_=G,
                  inputs=["in_a", "in_b"], harness=H("  Entry in_a, in_b; in_a.diam = nondet_float(); in_a.id = nondet_ulong(); in_b.diam = nondet_float(); in_b.id = nondet_ulong();", "col_before(in_a, in_b);"),
                  desc="Greater_diameter_or_smaller_index: a comes before b exactly when its diameter is larger, or equal with a smaller index (all non-NaN diameters, infinities included)"))
    lem = """  Entry a, b, c; a.diam = nondet_float(); a.id = nondet_ulong(); b.diam = nondet_float(); b.id = nondet_ulong(); c.diam = nondet_float(); c.id = nondet_ulong();
  __CPROVER_assume(!isnan(a.diam) && !isnan(b.diam) && !isnan(c.diam));
  bool ab = col_before(a, b), ba = col_before(b, a), bc = col_before(b, c), ac = col_before(a, c), aa = col_before(a, a);
  __CPROVER_assert(!aa, "irreflexive");
  __CPROVER_assert(a.id == b.id ? !(ab && ba) : (ab != ba), "asymmetric, and total on entries with distinct indices");
  __CPROVER_assert(!(ab && bc) || ac, "transitive");"""
    U.append(Unit("column_order.strict_total_order", "C11", [mk("")], no_enforce=True, globals_=G, inputs=["a", "b", "c"], harness=H(lem, ""),
                  desc="lemma: the column order is a strict total order on entries with distinct simplex indices, so sorted columns and heap pops are uniquely determined"))

def pop_pivot_units(U):
    """pop_pivot / get_pivot: a working column is a heap of entries, possibly several with the same simplex index (the lazy
    sum).  The heap is modelled by the sequence in which it pops (ghost array; the comparator unit says what that order
    is): pop_pivot adds up the coefficients of each run of equal indices modulo the characteristic and returns the first
    run whose sum is not zero - as one entry carrying that sum - or nothing."""
    KP = 5
    G = ND + f"""
typedef float value_t; typedef unsigned long simplex_t; typedef unsigned int coefficient_t;
#define KP {KP}
typedef struct {{ value_t diam; simplex_t id; coefficient_t coef; }} dentry;
typedef struct {{ bool has; value_t diam; simplex_t id; coefficient_t coef; }} vp_opt;
#define VP_NONE ((vp_opt){{false, 0, 0, 0}})
coefficient_t modulus; dentry g_col[KP]; unsigned g_ncol, g_cpos; unsigned g_pushed; dentry g_push_e;
coefficient_t __CPROVER_uninterpreted_addmod(coefficient_t a, coefficient_t b);   /* (a + b) % modulus: uninterpreted, so that code and specification meet on the term (two dividers are never matched by the solvers); its range [0, modulus) is assumed at the call */
static coefficient_t vp_addmod(coefficient_t a, coefficient_t b) {{ coefficient_t r = __CPROVER_uninterpreted_addmod(a, b); __CPROVER_assume(r < modulus); return r; }}
static bool col_empty(void) {{ return g_cpos >= g_ncol; }}
static dentry col_top(void) {{ __CPROVER_assert(g_cpos < g_ncol, "top() of a non-empty column"); return g_col[g_cpos]; }}
static void col_pop(void) {{ __CPROVER_assert(g_cpos < g_ncol, "pop() of a non-empty column"); g_cpos++; }}
static void col_push(dentry e) {{ g_pushed++; g_push_e = e; }}
/* specification: walk the runs of equal index; the first run with a non-zero sum */
static vp_opt x_pivot(unsigned* consumed) {{ vp_opt r = VP_NONE; unsigned k = 0; bool done = false;
  for (unsigned it = 0; it < KP; it++) if (!done && k < g_ncol) {{ simplex_t id = g_col[k].id; coefficient_t s = g_col[k].coef; value_t d = g_col[k].diam; unsigned j = k + 1; bool zero = false;
      for (unsigned it2 = 0; it2 < KP; it2++) if (!zero && j < g_ncol && g_col[j].id == id) {{ s = __CPROVER_uninterpreted_addmod(s, g_col[j].coef); j++; if (s == 0) zero = true; }}
      if (!zero) {{ r.has = true; r.id = id; r.coef = s; r.diam = d; done = true; }}
      k = j; }}
  *consumed = done ? k : g_ncol; return r; }}
static bool col_ok(void) {{ bool ok = g_ncol <= KP && modulus >= 2 && modulus <= 65521; for (unsigned k = 0; k < KP; k++) ok = ok && g_col[k].coef >= 1 && g_col[k].coef < modulus; return ok; }}
static bool P_pop(vp_opt ret) {{ unsigned c = 0; vp_opt w = x_pivot(&c); return ret.has == w.has && (!w.has || (ret.id == w.id && ret.coef == w.coef)) && g_cpos == c; }}
"""
    SS = [(r"template <typename Column>", "", 0), (r"std::optional<diameter_entry_t>", "vp_opt"), (r"\(Column& column\)", "(void)")]
    subs = [(r"\bdiameter_entry_t\b", "dentry"), (r"column\.empty\(\)", "col_empty()"), (r"column\.top\(\)", "col_top()"), (r"column\.pop\(\);", "col_pop();"),
            (r"filt\.get_index\((col_top\(\)|\w+)\)", r"\1.id"), (r"filt\.get_coefficient\((col_top\(\)|\w+)\)", r"\1.coef"),
            (r"\(([\w.()]+) \+ ([\w.()]+)\) % modulus", r"vp_addmod(\1, \2)"),
            (r"filt\.set_coefficient\((\w+), (\w+)\);", r"\1.coef = \2;"), (r"return pivot;", "return (vp_opt){true, pivot.diam, pivot.id, pivot.coef};"), (r"std::nullopt", "VP_NONE")]
    fn = Fn(RP, r"template <typename Column> std::optional<diameter_entry_t> pop_pivot\(Column& column\)", "pop_pivot", """
__CPROVER_requires(col_ok() && g_cpos == 0)
__CPROVER_ensures(P_pop(__CPROVER_return_value))
__CPROVER_assigns(g_cpos)
""", sig_subs=SS, subs=subs, canary=(r"if \(sum == 0\) \{", "if (sum == 1) {"))
    U.append(Unit("reduction.pop_pivot", "C11", [fn], enforce="pop_pivot", globals_=G, unwind=KP + 2, route="B",
                  bound=f"columns of at most {KP} heap entries; ids, coefficients and the modulus (<= 65521) symbolic", inputs=["g_ncol", "modulus", "g_col"], replay=replay_by_native_search,
                  runs=[Run(backend="sat", timeout=600)],
                  harness=H("  g_ncol = nondet_uint(); modulus = nondet_uint(); g_cpos = 0;\n  for (int k = 0; k < KP; k++) { g_col[k].id = nondet_ulong(); g_col[k].coef = nondet_uint(); g_col[k].diam = nondet_float(); }", "pop_pivot();"),
                  desc="pop_pivot: entries with the same simplex index that the heap pops consecutively are added up modulo the characteristic (the modular addition itself is uninterpreted); the first index whose sum is not zero is returned with that sum, everything before it (sums equal to zero) is consumed; nothing is returned when every index cancels"))
    stub_pp = Fn(RP, r"template <typename Column> std::optional<diameter_entry_t> pop_pivot\(Column& column\)", "pop_pivot", """
__CPROVER_ensures(__CPROVER_return_value.has == g_pp.has && __CPROVER_return_value.id == g_pp.id && __CPROVER_return_value.coef == g_pp.coef && g_pp_calls == __CPROVER_old(g_pp_calls) + 1)
__CPROVER_assigns(g_pp_calls)
""", sig_subs=SS, subs=subs)
    fn_gp = Fn(RP, r"template <typename Column> std::optional<diameter_entry_t> get_pivot\(Column& column\)", "get_pivot", """
__CPROVER_requires(g_pp_calls == 0 && g_pushed == 0)
__CPROVER_ensures(__CPROVER_return_value.has == g_pp.has && (!g_pp.has || (__CPROVER_return_value.id == g_pp.id && __CPROVER_return_value.coef == g_pp.coef)) && g_pp_calls == 1)
__CPROVER_ensures(g_pushed == (g_pp.has ? 1 : 0) && (!g_pp.has || (g_push_e.id == g_pp.id && g_push_e.coef == g_pp.coef)))
__CPROVER_assigns(g_pp_calls, g_pushed, g_push_e)
""", sig_subs=SS, subs=[(r"std::optional<diameter_entry_t>", "vp_opt")] + [(a_, b_, 0) for a_, b_ in subs] + [(r"pop_pivot\(column\)", "pop_pivot()"), (r"if \((\w+)\) column\.push\(\*\1\);", r"if (\1.has) col_push((dentry){\1.diam, \1.id, \1.coef});")],
               canary=(r"if \((\w+)\.has\) col_push", r"if (!\1.has) col_push"))
    U.append(Unit("reduction.get_pivot", "C11", [stub_pp, fn_gp], enforce="get_pivot", replace=["pop_pivot"], globals_=G + "vp_opt g_pp; unsigned g_pp_calls;\n", inputs=["g_pp"], replay=replay_by_native_search,
                  harness=H("  g_pp.has = nondet_int() != 0; g_pp_calls = 0; g_pushed = 0;", "get_pivot();"),
                  desc="get_pivot: the pivot popped by pop_pivot is pushed back once (the column keeps it) and returned; nothing is pushed when there is no pivot"))

def enumerator_units(U):
    """dense Simplex_coboundary_enumerator_::next(): filters the raw cofacets by the threshold.  next_raw (the
    enumeration itself) is a ghost stub that yields an arbitrary finite sequence of candidates."""
    G = ND + """
#include <math.h>
typedef float value_t;
typedef struct { bool has; value_t diam; unsigned id; } vp_opt;     /* std::optional<diameter_entry_t>: diameter + identity */
#define KMAX 6
value_t g_cand[KMAX]; unsigned g_ncand, g_pos; value_t threshold;
/* ghost stub of next_raw (R13): the next raw cofacet, or nothing when the enumeration is exhausted */
static vp_opt next_raw(bool all_cofacets) { vp_opt r; r.has = g_pos < g_ncand; r.diam = r.has ? g_cand[g_pos] : 0; r.id = g_pos; if (r.has) g_pos++; return r; }
/* specification: position of the first candidate at or after `from` whose diameter is <= threshold (g_ncand if none) */
static unsigned first_within(unsigned from) { unsigned r = g_ncand; for (unsigned k = KMAX; k-- > 0;) if (k >= from && k < g_ncand && g_cand[k] <= threshold) r = k; return r; }
"""
    con = """
__CPROVER_requires(g_ncand <= KMAX && g_pos <= g_ncand && g_start == g_pos && g_first == first_within(g_start))
__CPROVER_ensures(__CPROVER_return_value.has == (first_within(g_start) < g_ncand))
__CPROVER_ensures(!__CPROVER_return_value.has || (__CPROVER_return_value.id == first_within(g_start) && __CPROVER_return_value.diam == g_cand[first_within(g_start)] && g_pos == first_within(g_start) + 1))
__CPROVER_ensures(__CPROVER_return_value.has || g_pos == g_ncand)
__CPROVER_assigns(g_pos)
"""
    loop = """
__CPROVER_assigns(g_pos, res)
__CPROVER_loop_invariant(g_start <= g_pos && g_pos <= g_ncand && g_ncand <= KMAX && g_first >= g_pos)
__CPROVER_decreases(g_ncand - g_pos)
"""
    fn = Fn(RP, r"std::optional<diameter_entry_t> next\(bool all_cofacets = true\)", "enum_next", con, within=r"class=typename DistanceMatrix2::Category> class Simplex_coboundary_enumerator_ \{",
            sig_subs=[(r"std::optional<diameter_entry_t>", "vp_opt"), (r" = true", "")],
            subs=[(r"std::optional<diameter_entry_t> res = ", "vp_opt res = "), (r"!res \|\|", "!res.has ||"), (r"get_diameter\(\*res\)", "res.diam"), (r"parent\.threshold", "threshold"),
                  (r"while\(true\) \{\s*vp_opt res = next_raw\(all_cofacets\);", "vp_opt res; while(true) { res = next_raw(all_cofacets);")],
            loops={0: loop}, canary=(r"res\.diam <= threshold", "res.diam < threshold"))
    U.append(Unit("dense_coboundary.next", "C11", [fn], enforce="enum_next", globals_=G + "unsigned g_start, g_first;\n", loop_contracts=True, unwind=KM + 2,
                  inputs=["g_cand", "g_ncand", "threshold"], replay=mk_replay_dense(),
                  harness=H("  for (int k = 0; k < KMAX; k++) g_cand[k] = nondet_float();\n  g_ncand = nondet_uint(); g_pos = nondet_uint(); threshold = nondet_float(); g_start = g_pos;\n"
                            "  __CPROVER_assume(!isnan(threshold) && g_ncand <= KMAX && g_pos <= g_ncand); for (int k = 0; k < KMAX; k++) __CPROVER_assume(!isnan(g_cand[k]));\n"
                            "  g_first = g_ncand; for (unsigned k = KMAX; k-- > 0;) if (k >= g_start && k < g_ncand && g_cand[k] <= threshold) g_first = k;", "enum_next(true);"),
                  desc="dense Simplex_coboundary_enumerator_::next(): returns the first raw cofacet whose diameter is <= threshold (the Rips filtration truncated AT the threshold), or nothing when none is left; loop contract with termination"))


KM = 6


def compressed_matrix_units(U):
    """Compressed_distance_matrix<LOWER/UPPER>: init_rows + operator(): the documented cell of the packed vector,
    symmetric, zero on the diagonal, no access outside `distances` (n <= 6, bounded)"""
    # UPPER_TRIANGULAR is not under contract: its init_rows forms `&distances[0] - 1` (a pointer one element before
    # the array - formally undefined behaviour, harmless on the supported compilers); CBMC encodes pointer offsets as
    # unsigned 56-bit numbers and reports every later `rows[i][j]` as outside the object, so no obligation about that
    # layout can be discharged (tool limit, recorded in DESIGN.md 10.2 - not a finding about the barcode).
    for lay, lower in (("lower", True),):
        G = ND + """
typedef int vertex_t; typedef float value_t;
#define NMAX 6
#define DCAP (NMAX * (NMAX - 1) / 2)
value_t distances[DCAP]; value_t* rows[NMAX]; size_t rows_n;
enum { LOWER_TRIANGULAR, UPPER_TRIANGULAR };
"""
        subs = [(r"\bsize\(\)", "((vertex_t)rows_n)", 0)]
        CE = [(r"Layout == LOWER_TRIANGULAR", lower)]
        f_init = Fn(RP, r"void init_rows\(\)", "init_rows", "", constexpr=CE, subs=subs)
        f_get = Fn(RP, r"value_t operator\(\)\(const vertex_t i, const vertex_t j\) const", "dist_at", "", within=r"struct Compressed_distance_matrix \{",
                   sig_subs=[(r"operator\(\)", "dist_at")], subs=[(r"\(Layout == LOWER_TRIANGULAR\)", "1" if lower else "0")])
        idx = "(hi * (hi - 1) / 2 + lo)" if lower else "(lo * (int)rows_n - lo * (lo + 1) / 2 + (hi - lo - 1))"
        lem = f"""
  rows_n = nondet_uint(); __CPROVER_assume(rows_n >= 2 && rows_n <= NMAX);
  for (int k = 0; k < DCAP; k++) distances[k] = nondet_float();
  init_rows();
  int i = nondet_int(), j = nondet_int(); __CPROVER_assume(i >= 0 && j >= 0 && i < (int)rows_n && j < (int)rows_n);
  value_t d = dist_at(i, j), d2 = dist_at(j, i);
  int hi = i > j ? i : j, lo = i > j ? j : i;
  __CPROVER_assert(i != j || (d == 0 && d2 == 0), "zero on the diagonal");
  __CPROVER_assert(i == j || {idx} < (int)(rows_n * (rows_n - 1) / 2), "packed index within the vector");
  __CPROVER_assert(i == j || (__CPROVER_isnanf(distances[{idx}]) ? __CPROVER_isnanf(d) : d == distances[{idx}]), "operator()(i,j) reads the documented cell of the packed vector");
  __CPROVER_assert(i == j || (__CPROVER_isnanf(d) ? __CPROVER_isnanf(d2) : d == d2), "symmetric");
"""
        U.append(Unit(f"compressed_matrix.{lay}", "C11", [f_init, f_get], no_enforce=True, globals_=G, unwind=17, route="B", bound="n <= 6 points",
                      inputs=["i", "j", "rows_n"], harness=H("", "", post=lem),
                      desc=f"Compressed_distance_matrix<{lay.upper()}_TRIANGULAR>: after init_rows, operator()(i,j) is symmetric, zero on the diagonal and reads the documented cell; all accesses inside `distances`"))


def cns_units(U):
    """Cns_encoding::get_max: binary search for the largest admissible vertex.  Every monotone predicate on the
    integers that holds at `bottom` is a threshold predicate w <= t, so the ghost threshold g_t makes the contract
    cover every predicate the encoding can pass (unbounded: loop contract with termination)."""
    G = ND + "typedef int vertex_t;\nint g_t, g_top0, g_ans;\n#define pred(w) ((w) <= g_t)\n"
    con = """
__CPROVER_requires(bottom >= 0 && bottom <= top && top <= 1000000000 && bottom <= g_t && g_top0 == top && g_ans == (g_t < top ? g_t : top))
__CPROVER_ensures(__CPROVER_return_value == g_ans)
__CPROVER_assigns()
"""
    loop = """
__CPROVER_assigns(count, top)
__CPROVER_loop_invariant(count >= 0 && count <= 1000000000 && top >= 0 && top <= g_top0 && g_top0 <= 1000000000 && bottom <= top - count && top - count <= g_ans && g_ans <= top)
__CPROVER_decreases(count)
"""
    fn = Fn(RP, r"static vertex_t get_max\(vertex_t top, const vertex_t bottom, const Predicate pred\)", "get_max", con,
            sig_subs=[(r", const Predicate pred", "")], loops={0: loop}, canary=(r"top = mid - 1;", "top = mid;"))
    U.append(Unit("cns.get_max", "C11", [fn], enforce="get_max", globals_=G, loop_contracts=True, inputs=["in_top", "in_bottom", "g_t"],
                  harness=H("  int in_top = nondet_int(), in_bottom = nondet_int(); g_t = nondet_int(); g_top0 = in_top; g_ans = g_t < in_top ? g_t : in_top;", "get_max(in_top, in_bottom);"),
                  desc="Cns_encoding::get_max (binary search): for every monotone predicate returns the largest admissible vertex in [bottom, top]; loop contract, termination"))


def cns_table_units(U):
    """Cns_encoding constructor: the Pascal table equals the binomial coefficients (n <= 8, k <= 4, bounded)"""
    G = ND + """
typedef int vertex_t; typedef int8_t dimension_t; typedef uint64_t simplex_t;
#define VP_DIGITS 64
#define NB 9
#define KB 5
simplex_t B[KB][NB]; int extra_bits;
#define VP_B_INIT(rows, cols) do { __CPROVER_assert((rows) <= KB && (cols) <= NB, "R7: table within capacity"); for (int r_ = 0; r_ < KB; r_++) for (int c_ = 0; c_ < NB; c_++) B[r_][c_] = 0; } while (0)
#define VP_MINV(a, b) (((vertex_t)(b)) < ((vertex_t)(a)) ? ((vertex_t)(b)) : ((vertex_t)(a)))
int g_i, g_j;
/* closed form: C(i, j) for i <= 10, j <= 4 */
static uint64_t binom(int i, int j) { if (j < 0 || j > i) return 0; uint64_t r = 1; for (int t = 1; t <= 4; t++) if (t <= j) r = r * (uint64_t)(i - j + t) / (uint64_t)t; return r; }
"""
    con = """
__CPROVER_requires(n >= 1 && n <= 8 && k >= 1 && k <= 4 && g_thrown == 0 && g_i >= 0 && g_i <= n && g_j >= 0 && g_j <= k)
__CPROVER_ensures(g_thrown == 0)
__CPROVER_ensures(B[g_j][g_i] == binom(g_i, g_j))
__CPROVER_ensures(extra_bits >= 0 && extra_bits <= 64)
__CPROVER_assigns(B, extra_bits, g_thrown)
"""
    SUBS = [(r"static_assert\([^;]*\);", "", 0), (r"std::numeric_limits<simplex_t>::digits", "VP_DIGITS", 0),
            (r"B = k \+ 1, std::vector<simplex_t>\(n \+ 1, 0\);", "VP_B_INIT(k + 1, n + 1);"), (r"std::min<vertex_t>\(", "VP_MINV(", 0),
            (r"log2up\(max_simplex_index \+ 1\)", "log2up_s(max_simplex_index + 1)")]
    f_log = Fn(RP, r"constexpr int log2up\(vertex_t n\)", "log2up_s", "", sig_subs=[(r"vertex_t n", "simplex_t n")])
    f_ctor = Fn(RP, r"Cns_encoding\(vertex_t n, dimension_t k\) : B\(k \+ 1, std::vector<simplex_t>\(n \+ 1, 0\)\)", "cns_ctor", con, subs=SUBS,
                canary=(r"B\[j - 1\]\[i - 1\] \+ B\[j\]\[i - 1\]", "B[j - 1][i - 1] + B[j][i - 1] + (i == 7)"))
    U.append(Unit("cns.table", "C11", [f_log, f_ctor], enforce="cns_ctor", globals_=G, unwind=12, route="B", bound="n <= 8 vertices, k <= 4 (table of at most 5 x 9 binomials)",
                  inputs=["in_n", "in_k", "g_i", "g_j"],
                  harness=H("  int in_n = nondet_int(); int8_t in_k = (int8_t)nondet_int(); g_i = nondet_int(); g_j = nondet_int(); g_thrown = 0;", "cns_ctor(in_n, in_k);"),
                  runs=[Run(backend="kissat", timeout=600)],
                  desc="Cns_encoding constructor: every entry B[j][i] of the table equals the binomial coefficient C(i, j) (ghost indices), no spurious overflow refusal"))


def dispatcher_units(U):
    """help1: the bit budget that decides the simplex encoding, and ripser_auto's enclosing radius"""
    c_log = """
__CPROVER_requires(n >= 1)
__CPROVER_ensures(__CPROVER_return_value >= 0 && __CPROVER_return_value <= 32)
__CPROVER_ensures((uint64_t)(unsigned)__CPROVER_old(n) <= ((uint64_t)1 << __CPROVER_return_value))
__CPROVER_ensures(__CPROVER_return_value == 0 || ((uint64_t)1 << (__CPROVER_return_value - 1)) < (uint64_t)(unsigned)__CPROVER_old(n))
__CPROVER_assigns()
"""
    G = ND + "typedef int vertex_t;\nint g_bits_per_vertex, g_bits_for_coeff, g_dim_max_out;\n"
    con = """
__CPROVER_requires(n >= 2 && n <= 1000000 && dim_max >= 0 && dim_max <= 100 && modulus >= 2 && modulus <= 65521)
__CPROVER_ensures(g_dim_max_out == (__CPROVER_old(dim_max) > n - 2 ? n - 2 : __CPROVER_old(dim_max)))
__CPROVER_ensures(((uint64_t)n <= ((uint64_t)1 << g_bits_per_vertex)) && (g_bits_per_vertex == 0 || ((uint64_t)1 << (g_bits_per_vertex - 1)) < (uint64_t)n))
__CPROVER_ensures(((uint64_t)(modulus - 1) <= ((uint64_t)1 << g_bits_for_coeff)) && (g_bits_for_coeff == 0 || ((uint64_t)1 << (g_bits_for_coeff - 1)) < (uint64_t)(modulus - 1)))
__CPROVER_ensures(__CPROVER_return_value == g_bits_per_vertex * (g_dim_max_out + 2) + g_bits_for_coeff)
__CPROVER_assigns(g_bits_per_vertex, g_bits_for_coeff, g_dim_max_out)
"""
    fn = Fn(RP, r"void help1\(DistanceMatrix&& dist, int dim_max, typename DistanceMatrix::value_t threshold, unsigned modulus, OutDim&& output_dim, OutPair&& output_pair\)",
            "bit_budget", con, piece={"kind": "slice", "first": r"if \(dim_max > n - 2\)", "last": r"int bitfield_size = [^;]*;",
                                      "sig": "int bit_budget(int n, int dim_max, unsigned modulus)", "epilogue": "g_bits_per_vertex = bits_per_vertex; g_bits_for_coeff = bits_for_coeff; g_dim_max_out = dim_max; return bitfield_size;"},
            canary=(r"\(dim_max \+ 2\)", "(dim_max + 1)"))
    fl = Fn(RP, r"constexpr int log2up\(vertex_t n\)", "log2up", c_log)
    U.append(Unit("dispatcher.bit_budget", "C11", [fl, fn], enforce="bit_budget", replace=["log2up"], globals_=G, inputs=["in_n", "in_d", "in_m"],
                  harness=H("  int in_n = nondet_int(), in_d = nondet_int(); unsigned in_m = nondet_uint();", "bit_budget(in_n, in_d, in_m);"),
                  desc="help1: dim_max is clamped to n - 2 and the bit budget that selects the encoding is bits_per_vertex * (dim_max + 2) + bits_for_coeff with both logarithms exact - i.e. exactly what Bitfield_encoding(n, dim_max + 2) plus the coefficient need (so the chosen encoding never refuses)"))
    # enclosing radius: threshold = min_i max_j dist(i, j)
    G2 = ND + """
#include <math.h>
typedef int vertex_t; typedef float value_t;
#define NPT 4
value_t g_d[NPT][NPT]; int g_n;
#define VP_DIST(i, j) (g_d[(i)][(j)])
#define VP_NEG_INF (-INFINITY)
"""
    con2 = """
__CPROVER_requires(g_n >= 1 && g_n <= NPT && !isnan(threshold) && no_nan())
__CPROVER_ensures(__CPROVER_return_value == radius_spec(__CPROVER_old(threshold)))
__CPROVER_assigns()
"""
    spec2 = """
static bool no_nan(void) { bool ok = true; for (int i = 0; i < NPT; i++) for (int j = 0; j < NPT; j++) ok = ok && !isnan(g_d[i][j]); return ok; }
/* min(threshold, min over points of the largest distance from that point) */
static value_t radius_spec(value_t t) { for (int i = 0; i < NPT; i++) if (i < g_n) { value_t r = -INFINITY; for (int j = 0; j < NPT; j++) if (j < g_n && r < g_d[i][j]) r = g_d[i][j]; if (r < t) t = r; } return t; }
"""
    fn2 = Fn(RP, r"void ripser_auto\(DistanceMatrix dist, int dim_max, typename DistanceMatrix::value_t threshold, unsigned modulus, OutDim&& output_dim, OutPair&& output_pair\)",
             "enclosing_radius", con2, piece={"kind": "loop", "ordinal": 0, "sig": "value_t enclosing_radius(value_t threshold)"},
             subs=[(r"dist\.size\(\)", "g_n"), (r"-std::numeric_limits<value_t>::infinity\(\)", "VP_NEG_INF"), (r"std::max\(", "VP_MAX("), (r"std::min\(", "VP_MIN("), (r"dist\(i, j\)", "VP_DIST(i, j)")],
             canary=(r"VP_MIN\(threshold, r_i\)", "VP_MAX(threshold, r_i)"))
    # the piece is the BODY of the outer loop; wrap it: the driver's piece gives the loop body only, so use a slice instead
    fn2.piece = {"kind": "slice", "first": r"for \(vertex_t i = 0; i < dist\.size\(\); \+\+i\) \{\s*value_t r_i", "last": r"\}\s*(?=ripser\()",
                 "sig": "value_t enclosing_radius(value_t threshold)", "epilogue": "return threshold;"}
    U.append(Unit("dispatcher.enclosing_radius", "C11", [spec2, fn2], enforce="enclosing_radius", globals_=G2, unwind=6, route="B", bound="at most 4 points",
                  inputs=["in_t", "g_n", "g_d"],
                  harness=H("  for (int i = 0; i < NPT; i++) for (int j = 0; j < NPT; j++) g_d[i][j] = nondet_float();\n  g_n = nondet_int(); value_t in_t = nondet_float();", "enclosing_radius(in_t);"),
                  desc="ripser_auto without threshold (dense input): the threshold becomes min(threshold, min_i max_j dist(i, j)) - the enclosing radius beyond which the Rips complex is a cone"))


def union_find_units(U):
    """Union_find (dimension-0 pairs): find returns the representative and keeps the partition; link merges exactly
    the two classes (forests of at most 5 nodes, bounded)"""
    G = ND + """#define NV 5
typedef int vertex_t;
vertex_t parent[NV]; uint8_t rank[NV]; unsigned g_depth[NV]; int g_n, g_q, g_r0, g_rx, g_ry;
static bool forest_ok(void) { bool ok = g_n >= 1 && g_n <= NV; for (int i = 0; i < NV; i++) if (i < g_n) ok = ok && parent[i] >= 0 && parent[i] < g_n && g_depth[i] < NV && (parent[i] == i ? g_depth[i] == 0 : g_depth[parent[i]] + 1 == g_depth[i]); return ok; }
static int root_of(int v) { for (int s = 0; s < NV; s++) v = parent[v]; return v; }
"""
    c_find = """
__CPROVER_requires(forest_ok() && x >= 0 && x < g_n && g_q >= 0 && g_q < g_n && g_r0 == root_of(g_q) && g_rx == root_of(x))
__CPROVER_ensures(__CPROVER_return_value == g_rx && parent[g_rx] == g_rx)
__CPROVER_ensures(root_of(g_q) == g_r0 && parent[g_q] >= 0 && parent[g_q] < g_n)
__CPROVER_assigns(parent)
"""
    f_find = Fn(RP, r"vertex_t find\(vertex_t x\)", "uf_find", c_find, within=r"class Union_find \{", canary=(r"x = z;", "x = y; parent[x] = x;"))
    fill = ("  g_n = nondet_int(); g_q = nondet_int(); int in_x = nondet_int(), in_y = nondet_int();\n  for (int i = 0; i < NV; i++) { parent[i] = nondet_int(); rank[i] = nondet_uchar(); g_depth[i] = nondet_uint(); }\n"
            "  __CPROVER_assume(g_n >= 1 && g_n <= NV && g_q >= 0 && g_q < g_n && in_x >= 0 && in_x < g_n && in_y >= 0 && in_y < g_n);\n"
            "  { bool ok = true; for (int i = 0; i < NV; i++) if (i < g_n) ok = ok && parent[i] >= 0 && parent[i] < g_n && g_depth[i] < NV && (parent[i] == i ? g_depth[i] == 0 : g_depth[parent[i]] + 1 == g_depth[i]); __CPROVER_assume(ok); }\n"
            "  { int v = g_q; for (int s = 0; s < NV; s++) v = parent[v]; g_r0 = v; v = in_x; for (int s = 0; s < NV; s++) v = parent[v]; g_rx = v; v = in_y; for (int s = 0; s < NV; s++) v = parent[v]; g_ry = v; }")
    U.append(Unit("union_find.find", "C11", [f_find], enforce="uf_find", globals_=G, unwind=8, route="B", bound="at most 5 vertices", inputs=["in_x", "g_n", "parent"],
                  harness=H(fill, "uf_find(in_x);"), runs=[Run(backend="kissat", timeout=600)],
                  desc="Union_find::find (path halving): returns the representative of x, every vertex keeps its representative"))
    c_link = """
__CPROVER_requires(forest_ok() && x >= 0 && x < g_n && y >= 0 && y < g_n && g_q >= 0 && g_q < g_n && g_r0 == root_of(g_q) && g_rx == root_of(x) && g_ry == root_of(y))
__CPROVER_ensures(root_of(g_rx) == root_of(g_ry) && (root_of(g_rx) == g_rx || root_of(g_rx) == g_ry))
__CPROVER_ensures((g_r0 == g_rx || g_r0 == g_ry) ? root_of(g_q) == root_of(g_rx) : root_of(g_q) == g_r0)
__CPROVER_assigns(parent, rank)
"""
    f_find2 = Fn(RP, r"vertex_t find\(vertex_t x\)", "find", "", within=r"class Union_find \{")
    f_link = Fn(RP, r"void link\(vertex_t x, vertex_t y\)", "uf_link", c_link, within=r"class Union_find \{", canary=(r"parent\[y\] = x;", "parent[y] = y;"))
    U.append(Unit("union_find.link", "C11", [f_find2, f_link], enforce="uf_link", globals_=G, unwind=8, route="B", bound="at most 5 vertices", inputs=["in_x", "in_y", "g_n", "parent"],
                  harness=H(fill, "uf_link(in_x, in_y);"), runs=[Run(backend="kissat", timeout=600)],
                  desc="Union_find::link: afterwards x and y have the same representative (one of the two old ones) and every other class is untouched"))


NATIVE_RESULTS = []


def replay_by_native_search(unit, failure):
    """A refuted obligation over ghost tables has no input-level counterexample of its own; the failing input is
    searched for by the bounded native stand-in of the same run (ripser_auto vs the Rips barcode through the simplex tree)."""
    for n in NATIVE_RESULTS:
        if n["unit"] == "native.ripser_vs_rips" and n.get("failures"):
            c = n["failures"][0]
            return {"reproduced": True, "detail": f"native.ripser_vs_rips on the real classes: {c.get('case')}", "native_case": c}
    return {"reproduced": None, "detail": "no swept input shows a difference on the real classes"}


def units(tier):
    U = []
    union_find_units(U)
    dispatcher_units(U)
    cns_table_units(U)
    cns_units(U)
    compressed_matrix_units(U)
    enumerator_units(U)
    arith_units(U)
    bitfield_units(U)
    simplex_vertices_units(U)
    boundary_enumerator_units(U)
    coboundary_enumerator_units(U, tier)
    coeff_units(U)
    fake128_units(U)
    matrix_units(U)
    sparse_lookup_units(U)
    assemble_units(U)
    full_matrix_units(U)
    apparent_units(U)
    dim0_units(U)
    barcodes_units(U)
    pairs_step_units(U)
    emergent_units(U)
    add_coboundary_units(U)
    get_edges_units(U)
    column_order_units(U)
    pop_pivot_units(U)
    return U


# ------------------------------------------------------------------------------------------------ replay / native
_built = set()


def _bin(name, extra=()):
    src = os.path.join(VERIF, "replay", name + ".cpp")
    out = os.path.join(VERIF, "build", "replay_" + name)
    if out not in _built:
        os.makedirs(os.path.dirname(out), exist_ok=True)
        inc = ["-I" + REPO + "/src/Ripser/include", "-I" + REPO + "/src/common/include"]
        rc, o, e, s = sh(["g++", "-std=c++17", "-O1", "-w"] + list(extra) + inc + [src, "-o", out], 600)
        if rc != 0:
            raise RuntimeError("replay build failed: " + (o + e)[-1500:])
        _built.add(out)
    return out


def _n(v):
    return str(v).rstrip("ulUL")


def mk_replay_f128(name):
    def rp(unit, failure):
        i = failure["inputs"]
        def fld(var, f):
            v = i.get(f"{var}.{f}")
            if v is None and isinstance(i.get(var), dict):
                v = i[var].get(f)
            return v
        vals = [fld("in_a", "high"), fld("in_a", "low"), fld("in_b", "high"), fld("in_b", "low")]
        if None in vals:
            return {"reproduced": None, "detail": f"operands not in the trace: {i}"}
        cmd = [_bin("ripser_bits", ["-DGUDHI_FORCE_FAKE_UINT128", "-DNDEBUG"]), "f128", name] + [_n(v) for v in vals] + [_n(i.get("in_s", 0))]
        rc, o, e, s = sh(cmd, 60)
        return {"reproduced": True if rc == 1 else (False if rc == 0 else None), "cmd": " ".join(cmd), "detail": (o + e).strip()[-500:], "rc": rc}
    return rp


def mk_replay_lookup(nbmax):
    def rp(unit, failure):
        i = failure["inputs"]
        n, j = i.get("nb_n"), i.get("in_j")
        if n is None or j is None:
            return {"reproduced": None, "detail": f"inputs not in the trace: {sorted(i)}"}
        n = int(_n(n))
        args = []
        for k in range(n):
            v = i.get(f"nb[{k}l].i", i.get(f"nb[{k}].i"))
            d = i.get(f"nb[{k}l].d", i.get(f"nb[{k}].d"))
            if v is None or d is None or not str(d).startswith("bits:"):
                return {"reproduced": None, "detail": f"neighbour {k} not in the trace: {sorted(i)}"}
            args += [_n(v), str(d)[5:]]
        cmd = [_bin("ripser_bits", ["-DGUDHI_FORCE_FAKE_UINT128", "-DNDEBUG"]), "lookup", _n(j), str(n)] + args
        rc, o, e, s = sh(cmd, 60)
        return {"reproduced": True if rc == 1 else (False if rc == 0 else None), "cmd": " ".join(cmd), "detail": (o + e).strip()[-500:], "rc": rc}
    return rp


def mk_replay_sparse():
    def rp(unit, failure):
        i = failure["inputs"]
        d, t = i.get("g_mat_ij"), i.get("threshold")
        if d is None or t is None or not str(d).startswith("bits:"):
            return {"reproduced": None, "detail": "distance / threshold not in the trace"}
        cmd = [_bin("ripser_bits", ["-DGUDHI_FORCE_FAKE_UINT128", "-DNDEBUG"]), "sparse", "x", str(d)[5:], str(t)[5:]]
        rc, o, e, s = sh(cmd, 60)
        return {"reproduced": True if rc == 1 else (False if rc == 0 else None), "cmd": " ".join(cmd), "detail": (o + e).strip()[-500:], "rc": rc}
    return rp


def native(tier, seed, bdir, only=None):
    """primality test of ripser.h vs trial division (shared exhaustive-native sweep, see contracts/c10.py)"""
    import fnmatch
    from contracts import c10
    out = []
    if not only or fnmatch.fnmatch("native.is_prime", only):
        out += c10.primes_native(bdir)
    uid = "native.ripser_vs_rips"
    if not only or fnmatch.fnmatch(uid, only):
        import json
        os.makedirs(bdir, exist_ok=True)
        exe = os.path.join(bdir, "ripser_sweep")
        inc = ["-I" + REPO + "/src/Ripser/include", "-I" + REPO + "/src/common/include", "-I" + REPO + "/src/Rips_complex/include", "-I" + REPO + "/src/Simplex_tree/include", "-I" + REPO + "/src/Persistent_cohomology/include"]
        rc, o, e, s = sh(["g++", "-std=c++17", "-O1", "-w", "-DNDEBUG"] + inc + [os.path.join(VERIF, "native", "ripser_sweep.cpp"), "-o", exe, "-ltbb"], 1200, mem_kb=16 * 1024 * 1024)
        if rc != 0:
            out.append({"unit": uid, "status": "error", "notes": (o + e)[-1500:], "cases": 0, "failures": []})
        else:
            rc, o, e, secs = sh([exe, str(seed), "1" if tier == "thorough" else "0", "0", "1"], 3600)
            rec = {"unit": uid, "route": "B", "kind": "native (exhaustive on 4 points over {1,2,3}, sampled on 5-6 points)", "status": "ok", "cases": 0, "failures": [], "seconds": round(secs, 2),
                   "bound": "every symmetric dissimilarity on <= 4 points with entries in {1,2,3} and on 4 points with entries in {0,1,2}; sampled ones on 5 and 6 points; 6 Euclidean clouds (incl. the 8-point cross-polytope of R^4); thresholds none / each distance / half the smallest; dim_max 0..n-2; moduli 2, 3; forms full, lower, upper, sparse, Euclidean",
                   "desc": "the headline clause of C11, which no contract reaches: intervals streamed by ripser_auto (zero-length dropped) == barcode of the Rips flag filtration through Rips_complex + Simplex_tree + Persistent_cohomology"}
            try:
                js = json.loads(o.strip().split("\n")[-1])
                rec["cases"] = rec["obligations"] = js["checked"]
                for m in js["first"]:
                    m["id"] = f"case{len(rec['failures'])}"
                    m["input_class"] = None
                    rec["failures"].append(m)
            except (ValueError, IndexError):
                rec["status"] = "error"
                rec["notes"] = f"native run failed rc={rc}: {(o + e)[-600:]}"
            out.append(rec)
    for tag, defs in (("fake_uint128", ["-DGUDHI_FORCE_FAKE_UINT128"]), ("native_int128", [])):
        uid = f"native.coeff_packing.{tag}"
        if only and not fnmatch.fnmatch(uid, only):
            continue
        import json
        os.makedirs(bdir, exist_ok=True)
        exe = os.path.join(bdir, "ripser_coeff_" + tag)
        rc, o, e, s = sh(["g++", "-std=c++17", "-O1", "-w", "-DNDEBUG"] + defs + ["-I" + REPO + "/src/Ripser/include", "-I" + REPO + "/src/common/include",
                          os.path.join(VERIF, "native", "ripser_coeff.cpp"), "-o", exe], 600)
        if rc != 0:
            out.append({"unit": uid, "status": "error", "notes": (o + e)[-1500:], "cases": 0, "failures": []})
            continue
        rc, o, e, secs = sh([exe], 600)
        rec = {"unit": uid, "route": "B", "kind": "native (bounded)", "status": "ok", "cases": 0, "failures": [], "seconds": round(secs, 2),
               "bound": "17 bits per vertex, 5 vertices; every 2^k and 2^k - 1 below 2^85 plus 200 pseudo-random indices; moduli 3, 5, 7, 11, 251",
               "desc": f"entry_with_coeff_t round trips on the real Rips_filtration with simplex_t = {'Fake_uint128' if defs else 'unsigned __int128'} (the portable type cannot be bound in CBMC's C front end)"}
        try:
            js = json.loads(o.strip().split("\n")[-1])
            rec["cases"] = rec["obligations"] = js["checked"]
            for m in js["first"]:
                m["id"] = f"case{len(rec['failures'])}"
                m["input_class"] = None
                rec["failures"].append(m)
        except (ValueError, IndexError):
            rec["status"] = "error"
            rec["notes"] = f"native run failed rc={rc}: {(o + e)[-600:]}"
        out.append(rec)
    return out


def mk_replay_dense():
    def rp(unit, failure):
        # a cofacet whose diameter equals the threshold: the unit square without threshold (enclosing radius sqrt 2)
        cmd = [_bin("ripser_bits", ["-DGUDHI_FORCE_FAKE_UINT128", "-DNDEBUG"]), "dense", "x", "0", "0"]
        rc, o, e, s = sh(cmd, 60)
        return {"reproduced": True if rc == 1 else (False if rc == 0 else None), "cmd": " ".join(cmd), "detail": (o + e).strip()[-500:], "rc": rc}
    return rp


def selftest():
    try:
        _bin("ripser_bits", ["-DGUDHI_FORCE_FAKE_UINT128", "-DNDEBUG"])
        return "native replay program builds against /repo's headers"
    except Exception as ex:
        return "FAIL " + str(ex)[:500]


TRUSTED = [
    "bindings: vertex_t = int, dimension_t = int8_t, simplex_t in {uint64_t, unsigned __int128}, coefficient_t = uint_least32_t, coefficient_storage_t = uint16_t, value_t = float",
    "vp/prelude.h; extraction rules (vp/extract.py); CBMC 6.11.0 + MiniSat",
    "Fake_uint128 is extracted as a C struct {high, low}; the native unsigned __int128 of the C front end is the specification (the class's own GUDHI_VERIF)",
]
ASSUMPTIONS = [
    "NOT decided by contracts: that the streamed intervals equal the Rips barcode.  The pieces of the reduction are under contract one by one (compute_barcodes driver, compute_dim_0_pairs step, assemble_columns_to_reduce, one turn of compute_pairs incl. the elimination factor, init_coboundary_and_get_pivot, add_coboundary, add_simplex_coboundary, the apparent-pair helpers), each with its callees - enumerators, heaps, hash maps - as ghost stubs; their composition into 'the barcode of the Rips filtration' (the persistence algorithm itself: clearing, emergent and apparent pairs are shortcuts that preserve it) is a theorem no function contract here states.  The headline clause is covered only by the bounded native stand-in native.ripser_vs_rips, never counted as proved",
    "Cns_encoding's binomial table and its get_max_vertex wrapper (the binary search get_max is under contract), Full_distance_matrix, Compressed_distance_matrix<UPPER_TRIANGULAR> (forms a pointer before its array: CBMC cannot follow it) and the sparse coboundary enumerator are not under contract",
    "simplices with at most 5 vertices in the Bitfield round-trip units (unwinding bound)",
]
