"""C13 - cubical complexes: contract sidecar.

Per concrete grid shape (dimension, sides, periodic mask: compile-time constants of the unit) and for EVERY cell of
that shape (symbolic), the functions of Bitmap_cubical_complex_base / ..._periodic_boundary_conditions_base that
define the cell complex are put under contract against the geometry written down in contracts/c13_glue.h:
coordinates, dimension, the boundary list, the coboundary list (converse relation, via a ghost probe cell), the
incidence numbers; lemma harnesses: boundary of boundary is zero (alternating signs along the enumeration, and with
compute_incidence_between_cells).  The comparator is_before_in_filtration is shape-independent (strict total order,
value first, faces first) and fully symbolic.
"""
import os

from vp.extract import Fn, REPO
from vp.driver import Unit, Run, VERIF, sh

LEVEL = "model_checking"
B = "src/Bitmap_cubical_complex/include/gudhi/Bitmap_cubical_complex_base.h"
PB = "src/Bitmap_cubical_complex/include/gudhi/Bitmap_cubical_complex_periodic_boundary_conditions_base.h"
CC = "src/Bitmap_cubical_complex/include/gudhi/Bitmap_cubical_complex.h"
CLS_B = "Bitmap_cubical_complex_base"
CLS_P = "Bitmap_cubical_complex_periodic_boundary_conditions_base"

VEC_NAMES = ["multipliers", "sizes", "counter", "boundary_elements", "coboundary_elements", "coface_counter",
             "face_counter", "directions_in_which_periodic_b_cond_are_to_be_imposed", "data", "in_sizes"]


def vec_subs(extra=()):
    """R7/R11 substitutions shared by the cubical functions (each may fire 0 times on a given function)"""
    S = [(r"this->", "", 0),
         (r"std::vector<std::size_t>", "vp_vec_sz", 0), (r"std::vector<unsigned>", "vp_vec_u", 0),
         (r"std::size_t", "size_t", 0),
         (r"\b(\w+)\.reserve\([^;]*\);", "", 0),
         (r"\b(\w+)\.push_back\(", r"VP_PUSH(\1, ", 0),
         (r"std::reverse\((\w+)\.begin\(\), \1\.end\(\)\);", r"VP_REVERSE(\1);", 0),
         (r"std::cerr << [^;]*;", "", 0),
         (r"\b(vp_vec_sz|vp_vec_u) (\w+);", r"\1 \2; \2.n = 0;", 0)]
    for n in VEC_NAMES:
        S.append((rf"\b{n}\.size\(\)", f"{n}.n", 0))
        S.append((rf"\b{n}\[", f"{n}.a[", 0))
    return S + list(extra)


SIG_SUBS = [(r"std::vector<std::size_t>", "vp_vec_sz", 0), (r"std::vector<unsigned>", "vp_vec_u", 0),
            (r"std::size_t", "size_t", 0)]

PRE = "__CPROVER_requires(shape_ok() && cell < X_SIZE)\n"


def fns(periodic):
    """the functions under contract for one class; callees first"""
    F = {}
    src_b = PB if periodic else B
    cls = CLS_P if periodic else CLS_B
    F["set_up_containers"] = Fn(src_b, r"void set_up_containers\(const std::vector<unsigned>& sizes, bool is_pos_inf\)", "set_up_containers", "",
                                sig_subs=SIG_SUBS + [(r"\bsizes\b", "in_sizes")],
                                subs=[(r"(?<!this->)\bsizes\b", "in_sizes"),
                                      (r"this->data = std::vector<T>\(multiplier, ([^;]*)\);", r"vp_data_init(multiplier, \1);", 2),
                                      (r"std::numeric_limits<T>::infinity\(\)", "INFINITY", 0), (r"std::numeric_limits<T>::max\(\)", "DBL_MAX", 0),
                                      (r"std::numeric_limits<T>::lowest\(\)", "(-DBL_MAX)", 0)] + vec_subs())
    F["compute_counter_for_given_cell"] = Fn(B, r"std::vector<unsigned> compute_counter_for_given_cell\(std::size_t cell\) const", "compute_counter_for_given_cell",
                                             "__CPROVER_requires(shape_ok() && cell < X_SIZE)\n__CPROVER_ensures(P_counter(__CPROVER_old(cell), __CPROVER_return_value))\n__CPROVER_assigns()\n",
                                             sig_subs=SIG_SUBS, subs=vec_subs(),
                                             canary=(r"dim > 1", "dim > 2") if False else (r"counter, quot", "counter, quot + 1"))
    F["compute_position_in_bitmap"] = Fn(B, r"std::size_t compute_position_in_bitmap\(const std::vector<unsigned>& counter\)", "compute_position_in_bitmap",
                                         "__CPROVER_requires(shape_ok() && counter.n == D && counter.a[0] < X_L(0) && (D < 2 || counter.a[1] < X_L(1)) && (D < 3 || counter.a[2] < X_L(2)) && (D < 4 || counter.a[3] < X_L(3)))\n"
                                         "__CPROVER_ensures(__CPROVER_return_value < X_SIZE && P_counter(__CPROVER_return_value, counter))\n__CPROVER_assigns()\n",
                                         sig_subs=SIG_SUBS, subs=vec_subs(), canary=(r"\* counter", "+ counter"))
    F["get_dimension_of_a_cell"] = Fn(B, rf"unsigned {CLS_B}<T>::get_dimension_of_a_cell\(std::size_t cell\) const", "get_dimension_of_a_cell",
                                      "__CPROVER_requires(shape_ok() && cell < X_SIZE)\n__CPROVER_ensures(__CPROVER_return_value == x_dim(__CPROVER_old(cell)))\n__CPROVER_assigns()\n",
                                      scopes=[CLS_B], sig_subs=SIG_SUBS, subs=vec_subs(), canary=(r"position % 2 == 1", "position % 2 == 0"))
    F["get_boundary_of_a_cell"] = Fn(src_b, rf"std::vector<std::size_t> {cls}<T>::get_boundary_of_a_cell\(\s*std::size_t cell\) const", "get_boundary_of_a_cell",
                                     PRE + "__CPROVER_ensures(P_boundary(cell, __CPROVER_return_value))\n__CPROVER_assigns()\n",
                                     scopes=[cls], sig_subs=SIG_SUBS, subs=vec_subs(),
                                     canary=(r"(\} else \{\s*VP_PUSH\(boundary_elements, cell [-+] )(multipliers\.a\[i - 1\]\))", r"\g<1>2 * \2"))
    F["get_coboundary_of_a_cell"] = Fn(src_b, rf"std::vector<std::size_t> {cls}<T>::get_coboundary_of_a_cell\(\s*std::size_t cell\) const", "get_coboundary_of_a_cell",
                                       PRE + "__CPROVER_ensures(P_coboundary(cell, __CPROVER_return_value, g_probe))\n__CPROVER_assigns()\n",
                                       scopes=[cls], sig_subs=SIG_SUBS, subs=vec_subs(),
                                       canary=((r"counter\.a\[i - 1\] != 2 \* sizes\.a\[i - 1\]", "counter.a[i - 1] != 2 * sizes.a[i - 1] + 1") if periodic else
                                               (r"counter\.a\[0\] != 2 \* sizes\.a\[0\]", "counter.a[0] != 2 * sizes.a[0] + 1")))
    F["compute_incidence_between_cells"] = Fn(src_b, r"virtual int compute_incidence_between_cells\(std::size_t coface, std::size_t face\) const", "compute_incidence_between_cells",
                                              "__CPROVER_requires(shape_ok() && coface < X_SIZE && face < X_SIZE && x_is_face(face, coface))\n"
                                              "__CPROVER_ensures(__CPROVER_return_value == x_incidence(coface, face) && g_thrown == 0)\n__CPROVER_assigns(g_thrown)\n",
                                              sig_subs=SIG_SUBS, subs=vec_subs(), canary=(r"incidence \*= -1;", "incidence *= 1;"))
    return F


GHOST = """
size_t g_probe;
/* incidence number of the documented convention: for a cell with length in directions d_1 < ... < d_k, the face
 * in direction d_j gets (-1)^(j-1), times +1 for the upper face and -1 for the lower one */
static int x_incidence(size_t coface, size_t face) {
  int s = 1; bool found = false; int r = 0;
  for (unsigned i = 0; i < DMAX; i++) if (i < D && x_coord(coface, i) % 2 == 1 && !found) {
    if (face == x_face_lo(coface, i) || face == x_face_hi(coface, i)) {
      found = true;
      /* upper face: the one reached by +1 in that coordinate (wrapping at a periodic seam) */
      bool upper = face == x_face_hi(coface, i);
      r = upper ? s : -s;
    }
    s = -s;
  }
  return r;
}
"""

HARNESS_SETUP = """
static void setup(void) {
  vp_vec_u in; in.n = D; in.a[0] = S0; in.a[1] = S1; in.a[2] = S2; in.a[3] = S3;
#ifdef PERIODIC
  directions_in_which_periodic_b_cond_are_to_be_imposed.n = D;
  directions_in_which_periodic_b_cond_are_to_be_imposed.a[0] = P0; directions_in_which_periodic_b_cond_are_to_be_imposed.a[1] = P1;
  directions_in_which_periodic_b_cond_are_to_be_imposed.a[2] = P2; directions_in_which_periodic_b_cond_are_to_be_imposed.a[3] = P3;
#endif
  sizes.n = 0; multipliers.n = 0; g_thrown = 0;   /* DFCC starts the harness with nondeterministic statics */
  set_up_containers(in, false);
  __CPROVER_assert(isinf(g_fill) && g_fill < 0, "set_up_containers(.., false): every cell starts at -infinity, the identity of max (values from vertices)");
  sizes.n = 0; multipliers.n = 0;
  set_up_containers(in, true);          /* the real function from /repo builds the multipliers */
  __CPROVER_assert(isinf(g_fill) && g_fill > 0, "set_up_containers(.., true): every cell starts at +infinity, the identity of min (values from top cells)");
  __CPROVER_assert(SHAPE_OK_EXPR, "set_up_containers: multipliers[i] == product of the layer counts below i; data has one slot per cell");
}
size_t nondet_size(void);
"""


def H(call, decls="  size_t in_cell = nondet_size();", post=""):
    return HARNESS_SETUP + "int main(void) {\n  setup();\n" + decls + "\n  g_probe = nondet_size();\n  " + call + "\n" + post + \
        "\n  __CPROVER_assert(0, \"VP_REACH\");\n  return 0;\n}\n"


def shape_defs(shape, mask):
    d = [f"D={len(shape)}"] + [f"S{i}={s}" for i, s in enumerate(shape)]
    if mask is not None:
        d += ["PERIODIC"] + [f"P{i}={int(b)}" for i, b in enumerate(mask)]
    return d


def shape_name(shape, mask):
    s = "x".join(map(str, shape))
    if mask is not None:
        s += "." + "".join("p" if b else "f" for b in mask)
    return s


QUICK_SHAPES = [((1,), None), ((2,), None), ((5,), None), ((1, 1), None), ((2, 1), None), ((1, 3), None), ((3, 2), None),
                ((4, 4), None), ((1, 1, 1), None), ((2, 2, 2), None), ((3, 2, 1), None), ((2, 3, 4), None),
                ((1, 1, 1, 1), None), ((2, 2, 1, 2), None),
                ((3,), (True,)), ((4,), (False,)), ((3, 3), (True, True)), ((3, 4), (True, False)), ((4, 3), (False, True)),
                ((3, 3), (False, False)), ((3, 3, 3), (True, True, True)), ((3, 2, 3), (True, False, True)),
                ((2, 3, 2), (False, True, False)), ((3, 3, 2), (True, True, False)), ((3, 2, 2), (True, False, False)),
                ((2, 2, 3), (False, False, True))]


CANARY_SHAPES = {((3, 2), None), ((2, 3, 4), None), ((2, 2, 1, 2), None), ((3, 4), (True, False)), ((4, 3), (False, True)), ((3, 2, 3), (True, False, True))}


def thorough_shapes():
    import itertools
    S = list(QUICK_SHAPES)
    for d in (1, 2, 3):
        for shp in itertools.product(range(1, 5), repeat=d):
            S.append((shp, None))
    for n in range(5, 9):
        S.append(((n,), None))
    for shp in itertools.product((1, 2), repeat=4):
        S.append((shp, None))
    for d in (1, 2, 3):
        for shp in itertools.product((3, 4), repeat=d):
            for mask in itertools.product((False, True), repeat=d):
                # non-periodic directions of the periodic class may have any length; periodic ones >= 3
                S.append((shp, mask))
    for shp in ((2, 3), (3, 1), (1, 3, 2), (3, 2, 1)):
        for mask in itertools.product((False, True), repeat=len(shp)):
            if all((not m) or s >= 3 for s, m in zip(shp, mask)):
                S.append((shp, mask))
    seen, out = set(), []
    for s in S:
        if s not in seen:
            seen.add(s)
            out.append(s)
    return out


def units(tier):
    U = []
    shapes = thorough_shapes() if tier == "thorough" else QUICK_SHAPES
    canaried = set()
    for shape, mask in shapes:
        periodic = mask is not None
        F = fns(periodic)
        defs = shape_defs(shape, mask)
        nm = ("per." if periodic else "base.") + shape_name(shape, mask)
        bound = f"grid shape {shape}" + (f", periodic mask {mask}" if periodic else "") + "; every cell symbolic"
        want_canary = (shape, mask) in CANARY_SHAPES
        common = dict(includes=["c13_glue.h"], defines=defs, route="B", bound=bound, unwind=10, globals_=GHOST,
                      tier="quick", object_bits=14)
        callees = [F["set_up_containers"], F["compute_counter_for_given_cell"]]

        def mk(fname, call, decls="  size_t in_cell = nondet_size();", inputs=("in_cell",), extra_fns=()):
            fn = F[fname]
            if not want_canary or (periodic and fname == "get_coboundary_of_a_cell" and mask[0]):
                fn.canary = None
            fl = [f for f in callees if f.name != fname] + list(extra_fns) + [fn]
            U.append(Unit(f"{nm}.{fname}", "C13", fl, enforce=fname, harness=H(call, decls), inputs=list(inputs) + ["g_probe"],
                          replay=mk_replay(shape, mask, fname), desc=f"{fname} on shape {shape_name(shape, mask)}, every cell", **common))
        mk("compute_counter_for_given_cell", "compute_counter_for_given_cell(in_cell);")
        mk("compute_position_in_bitmap", "compute_position_in_bitmap(in_c);",
           decls="  vp_vec_u in_c; in_c.n = D; in_c.a[0] = nondet_size(); in_c.a[1] = nondet_size(); in_c.a[2] = nondet_size(); in_c.a[3] = nondet_size();",
           inputs=("in_c",))
        mk("get_dimension_of_a_cell", "get_dimension_of_a_cell(in_cell);")
        mk("get_boundary_of_a_cell", "get_boundary_of_a_cell(in_cell);")
        mk("get_coboundary_of_a_cell", "get_coboundary_of_a_cell(in_cell);")
        mk("compute_incidence_between_cells", "compute_incidence_between_cells(in_cell, in_face);",
           decls="  size_t in_cell = nondet_size(), in_face = nondet_size();", inputs=("in_cell", "in_face"))
        # lemma: boundary of boundary is zero - (A) with the alternating signs of the enumeration (real functions
        # inlined), (B) with the incidence numbers (compute_incidence_between_cells replaced by its contract)
        def lem(use_inc):
            body = "int s = ((n + m) % 2 == 0) ? 1 : -1;" if not use_inc else \
                "int s = compute_incidence_between_cells(in_cell, b1.a[n]) * compute_incidence_between_cells(b1.a[n], in_z);"
            return """
  size_t in_z = nondet_size();
  __CPROVER_assume(in_cell < X_SIZE && in_z < X_SIZE);
  vp_vec_sz b1 = get_boundary_of_a_cell(in_cell);
  int sum = 0;
  for (unsigned n = 0; n < VCAP; n++) if (n < b1.n) {
    vp_vec_sz b2 = get_boundary_of_a_cell(b1.a[n]);
    for (unsigned m = 0; m < VCAP; m++) if (m < b2.n && b2.a[m] == in_z) { """ + body + """ sum += s; }
  }
  __CPROVER_assert(sum == 0, "boundary of boundary is zero");
"""
        U.append(Unit(f"{nm}.lemma.boundary_of_boundary.enumeration_signs", "C13",
                      [F["set_up_containers"], F["compute_counter_for_given_cell"], F["get_boundary_of_a_cell"]],
                      no_enforce=True, harness=H("", post=lem(False)), inputs=["in_cell", "in_z"],
                      replay=mk_replay(shape, mask, "bdbd"),
                      desc=f"dd = 0 with signs alternating along the enumeration, shape {shape_name(shape, mask)}, every cell and every target cell", **common))
    U += value_units(tier)
    U += iterator_units(tier)
    U += spec_sanity_units()
    U += comparator_units()
    U += cache_units()
    U += relax_units()
    U += bfs_units(tier)
    U += ctor_units()
    U += empty_ctor_units()
    U += vertex_walk_units(tier)
    return U


def iterator_units(tier):
    """Top_dimensional_cells_iterator / Vertices_iterator (base and periodic class): from begin, operator++ visits every
    top cell / vertex of the grid exactly once, in increasing bitmap position, and reaches end() right after the last
    one - so the constructors put the input values on the right cells."""
    U = []
    its = [("base", B, "Top_dimensional_cells_iterator", "top_dimensional_cells_iterator_end", True, None),
           ("base", B, "Vertices_iterator", "vertices_iterator_end", False, None),
           ("per", PB, "Vertices_iterator", "vertices_iterator_end", False, "mask")]
    shapes_b = [((3,), None), ((3, 2), None), ((2, 1, 2), None)] + ([((2, 2, 2), None), ((1, 1, 1, 1), None)] if tier == "thorough" else [])
    shapes_p = [((3,), (True,)), ((3, 4), (True, False)), ((4, 3), (False, True)), ((3, 3), (False, False))] + ([((3, 2, 3), (True, False, True))] if tier == "thorough" else [])
    ISUBS = [(r"this->b->dimension\(\)", "sizes.n", 0), (r"this->dimension\(\)", "sizes.n", 0), (r"this->b->", "", 0), (r"this->counter", "counter", 0),
             (r"return \*this;", "return;", 0)] + vec_subs()
    for cname, path, icls, endfn, top, pm in its:
        for shape, mask in (shapes_p if pm else shapes_b):
            periodic = mask is not None
            radices = [(s if top else (s + (0 if (periodic and mask[i]) else 1))) for i, s in enumerate(shape)]
            count = 1
            for r_ in radices:
                count *= r_
            G = GHOST + f"""
vp_vec_sz counter, g_end;
#define NIT {count}
static const unsigned g_radix[4] = {{{", ".join(str(r_) for r_ in radices + [1] * (4 - len(radices)))}}};
"""
            f_inc = Fn(path, rf"{icls} operator\+\+\(\)", "it_increment", "", within=rf"class {icls} \{{", sig_subs=[(rf"^{icls} operator\+\+", "void it_increment")], subs=ISUBS)
            f_idx = Fn(path, r"std::size_t compute_index_in_bitmap\(\) const", "it_index", "", within=rf"class {icls} \{{", sig_subs=SIG_SUBS, subs=ISUBS)
            f_end = Fn(path, rf"{icls} {endfn}\(\)", "it_end", "", sig_subs=[(rf"^{icls} ", "void ")],
                       subs=[(rf"{icls} a\(this\);", "g_end.n = sizes.n; for (size_t z_ = 0; z_ < VCAP; z_++) g_end.a[z_] = 0;"), (r"a\.counter\[", "g_end.a[", 0), (r"return a;", "return;")] + ISUBS)
            lem = """
  counter.n = D; for (size_t z = 0; z < VCAP; z++) counter.a[z] = 0;          /* begin(): a zero counter */
  it_end();
  for (unsigned t = 0; t < NIT; t++) {
    bool at_end = true; for (unsigned i = 0; i < DMAX; i++) if (i < D) at_end = at_end && counter.a[i] == g_end.a[i];
    __CPROVER_assert(!at_end, "end() is not reached before every cell has been visited");
    size_t want = 0; unsigned q = t;
    for (unsigned i = 0; i < DMAX; i++) if (i < D) { unsigned c = q % g_radix[i]; q /= g_radix[i]; want += (size_t)(2 * c + """ + ("1" if top else "0") + """) * x_mult(i); }
    __CPROVER_assert(it_index() == want, "the t-th visited cell is the t-th input cell in increasing bitmap position");
    it_increment();
  }
  { bool at_end = true; for (unsigned i = 0; i < DMAX; i++) if (i < D) at_end = at_end && counter.a[i] == g_end.a[i];
    __CPROVER_assert(at_end, "end() is reached right after the last cell"); }
"""
            nm = ("per." if periodic else "base.") + shape_name(shape, mask)
            Fs = fns(periodic)
            U.append(Unit(f"{nm}.{icls}", "C13", [Fs["set_up_containers"], f_inc, f_idx, f_end], no_enforce=True, includes=["c13_glue.h"], defines=shape_defs(shape, mask),
                          globals_=G, route="B", bound=f"grid shape {shape}" + (f", periodic mask {mask}" if periodic else ""), unwind=max(count + 2, 10), object_bits=10,
                          inputs=[], harness=H("", post=lem),
                          desc=f"{icls} ({'periodic' if periodic else 'base'} class) on shape {shape_name(shape, mask)}: begin / ++ / end enumerate every {'top cell' if top else 'vertex'} exactly once in bitmap order"))
    return U


def spec_sanity_units():
    """sanity of the hand-written specification itself (no code from /repo): with the incidence convention x_incidence
    the boundary of a boundary vanishes, and geometric incidence lowers the dimension by exactly one - so the contract
    'compute_incidence_between_cells == x_incidence' does carry dd = 0"""
    U = []
    for shape, mask in (((3, 2), None), ((2, 2, 2), None), ((3, 4), (True, False)), ((3, 3, 3), (True, True, True))):
        lem = """
  size_t a = nondet_size(), z = nondet_size();
  __CPROVER_assume(a < X_SIZE && z < X_SIZE);
  int sum = 0;
  for (unsigned i = 0; i < DMAX; i++) if (i < D && x_coord(a, i) % 2 == 1) {
    size_t f[2] = {x_face_lo(a, i), x_face_hi(a, i)};
    for (int s = 0; s < 2; s++) {
      __CPROVER_assert(x_dim(f[s]) + 1 == x_dim(a) && f[s] < X_SIZE, "a geometric face has one dimension less");
      if (x_is_face(z, f[s])) sum += x_incidence(a, f[s]) * x_incidence(f[s], z);
    }
  }
  __CPROVER_assert(sum == 0, "specification: boundary of boundary is zero for the incidence convention");
"""
        U.append(Unit(f"spec.incidence_convention.{shape_name(shape, mask)}", "C13", [], no_enforce=True, includes=["c13_glue.h"], defines=shape_defs(shape, mask),
                      globals_=GHOST, route="B", bound=f"shape {shape}", unwind=10, object_bits=10, inputs=["a", "z"],
                      harness="size_t nondet_size(void);\nint main(void) {\n" + lem + "\n  __CPROVER_assert(0, \"VP_REACH\");\n  return 0;\n}\n",
                      desc=f"specification sanity on shape {shape_name(shape, mask)}: the incidence convention of the contracts satisfies dd = 0"))
    return U


def value_units(tier):
    """impose_lower_star_filtration_from_vertices (base class): every cell gets the maximum of its vertices"""
    U = []
    shapes = [(2,), (3, 2), (1, 1, 1)] + ([(5,), (1, 3), (2, 1, 1), (3, 3)] if tier == "thorough" else [])
    for shape in shapes:
        ncell = 1
        for sd in shape:
            ncell *= 2 * sd + 1
        defs = shape_defs(shape, None) + [f"NCELL={ncell}"]
        F = fns(False)
        G = GHOST + """
double g_vals[NCELL];
static bool x_is_vertex(size_t c) { return x_dim(c) == 0; }
/* maximum of the values of the vertices of a cell: for every direction in which the cell has length, either end */
static double x_vertex_max(size_t cell) {
  double best = 0; bool first = true;
  for (unsigned mask = 0; mask < (1u << D); mask++) {
    size_t v = cell; bool valid = true;
    for (unsigned i = 0; i < DMAX; i++) if (i < D) {
      if (x_coord(cell, i) % 2 == 1) v = (mask >> i & 1) ? v + x_mult(i) : v - x_mult(i);
      else if (mask >> i & 1) valid = false;       /* count each vertex once */
    }
    if (valid) { if (first || best < g_vals[v]) best = g_vals[v]; first = false; }
  }
  return best;
}
static bool vertices_ok(void) { bool ok = data.a == g_vals && X_SIZE <= NCELL; for (size_t c = 0; c < NCELL; c++) if (c < X_SIZE && x_is_vertex(c)) ok = ok && !isnan(g_vals[c]); return ok; }
"""
        SUBS = vec_subs([(r"std::max\(", "VP_MAX(", 0)])
        f_rec = Fn(B, rf"void {CLS_B}<T>::propagate_from_vertices_rec \(int special_dim, int current_dim, std::size_t base\)", "propagate_from_vertices_rec", "",
                   scopes=[CLS_B], sig_subs=SIG_SUBS, subs=SUBS)
        f_imp = Fn(B, rf"void {CLS_B}<T>::impose_lower_star_filtration_from_vertices\(\)", "impose_lower_star_filtration_from_vertices", """
__CPROVER_requires(shape_ok() && vertices_ok() && g_probe < X_SIZE && (!x_is_vertex(g_probe) || g_v0 == g_vals[g_probe]))
__CPROVER_ensures(g_vals[g_probe] == x_vertex_max(g_probe))
__CPROVER_ensures(!x_is_vertex(g_probe) || g_vals[g_probe] == g_v0)
__CPROVER_assigns(g_vals)
""", scopes=[CLS_B], sig_subs=SIG_SUBS, subs=SUBS, canary=None)
        f_rec.canary = None
        nm = "base." + shape_name(shape, None)
        harness = HARNESS_SETUP + """double nondet_double(void);
double g_v0;
int main(void) {
  setup();
  data.a = g_vals;
  for (size_t c = 0; c < NCELL; c++) g_vals[c] = nondet_double();
  for (size_t c = 0; c < NCELL; c++) if (c < X_SIZE) { bool vert = true; size_t q = c;
    """ + "".join(f"vert = vert && ((q % {2 * s + 1}) % 2 == 0); q /= {2 * s + 1}; " for s in shape) + """
    if (vert) __CPROVER_assume(!isnan(g_vals[c])); }
  g_probe = nondet_size(); __CPROVER_assume(g_probe < X_SIZE); g_v0 = g_vals[g_probe];
  impose_lower_star_filtration_from_vertices();
  __CPROVER_assert(0, "VP_REACH");
  return 0;
}
"""
        U.append(Unit(f"{nm}.impose_lower_star_filtration_from_vertices", "C13", [F["set_up_containers"], f_rec, f_imp],
                      enforce="impose_lower_star_filtration_from_vertices", includes=["c13_glue.h"], defines=defs, route="B",
                      bound=f"grid shape {shape}; every cell (ghost probe) and all non-NaN vertex values symbolic", unwind=ncell + 2, globals_=G + "extern double g_v0;\n",
                      object_bits=10, inputs=["g_probe"], harness=harness, runs=[Run(backend="kissat", timeout=900)],
                      desc=f"impose_lower_star_filtration_from_vertices on shape {shape_name(shape, None)}: each cell's value becomes the maximum over its vertices; vertex values are kept"))
    return U


def comparator_units():
    """is_before_in_filtration::operator(): shape-independent, fully symbolic (route U)"""
    fn_dim = Fn(B, rf"unsigned {CLS_B}<T>::get_dimension_of_a_cell\(std::size_t cell\) const", "get_dimension_of_a_cell",
                "__CPROVER_requires(cell < 4)\n__CPROVER_ensures(__CPROVER_return_value == g_dim[cell])\n__CPROVER_assigns()\n",
                scopes=[CLS_B], sig_subs=SIG_SUBS, subs=vec_subs())
    cmp_subs = [(r"std::size_t", "size_t"), (r"typedef typename T::filtration_type Filtration_value;", ""), (r"CC_->data\[", "g_data["), (r"CC_->", "")]
    cmp_sig = [(r"const typename Bitmap_cubical_complex<T>::Simplex_handle&", "size_t"), (r"operator\(\)", "is_before")]
    contract = """
__CPROVER_requires(sh1 < 4 && sh2 < 4 && !isnan(g_data[sh1]) && !isnan(g_data[sh2]))
__CPROVER_ensures(!__CPROVER_return_value || g_data[sh1] <= g_data[sh2])
__CPROVER_ensures(!(g_data[sh1] < g_data[sh2]) || __CPROVER_return_value)
__CPROVER_ensures(!(g_data[sh1] == g_data[sh2] && g_dim[sh1] < g_dim[sh2]) || __CPROVER_return_value)
__CPROVER_ensures(!(g_data[sh1] == g_data[sh2] && g_dim[sh1] > g_dim[sh2]) || !__CPROVER_return_value)
__CPROVER_ensures(!(g_data[sh1] == g_data[sh2] && g_dim[sh1] == g_dim[sh2]) || __CPROVER_return_value == (sh1 < sh2))
__CPROVER_assigns()
"""
    fn_cmp = Fn(CC, r"bool operator\(\)\(const typename Bitmap_cubical_complex<T>::Simplex_handle& sh1,\s*const typename Bitmap_cubical_complex<T>::Simplex_handle& sh2\) const",
                "is_before", contract, within=r"class is_before_in_filtration \{", sig_subs=cmp_sig, subs=cmp_subs,
                canary=(r"return sh1 < sh2;", "return false;"))
    G = ("#include <math.h>\ntypedef double Filtration_value;\ndouble g_data[4]; unsigned g_dim[4];\n"
         "typedef struct { unsigned a[4]; size_t n; } vp_vec_u; vp_vec_u multipliers;   /* only so that the (replaced) body of get_dimension_of_a_cell compiles */\n")
    hdr = "size_t nondet_size(void); double nondet_double(void); unsigned nondet_uint(void);\n"
    fill = "  for (int k = 0; k < 4; k++) { g_data[k] = nondet_double(); g_dim[k] = nondet_uint(); __CPROVER_assume(g_dim[k] <= 4); }\n"
    U = []
    U.append(Unit("comparator.is_before", "C13", [fn_dim, fn_cmp], enforce="is_before", replace=["get_dimension_of_a_cell"],
                  globals_=G, unwind=5, inputs=["in_a", "in_b", "g_data", "g_dim"], replay=replay_cmp,
                  harness=hdr + "int main(void) {\n" + fill + "  size_t in_a = nondet_size(), in_b = nondet_size();\n  is_before(in_a, in_b);\n  __CPROVER_assert(0, \"VP_REACH\");\n  return 0;\n}\n",
                  desc="is_before_in_filtration: value first (never decreasing), then lower dimension first (faces first under monotone values), then position; all non-NaN doubles incl. infinities"))
    lemma = hdr + "int main(void) {\n" + fill + """  size_t a = nondet_size(), b = nondet_size(), c = nondet_size();
  __CPROVER_assume(a < 4 && b < 4 && c < 4 && !isnan(g_data[a]) && !isnan(g_data[b]) && !isnan(g_data[c]));
  bool ab = is_before(a, b), ba = is_before(b, a), bc = is_before(b, c), ac = is_before(a, c), aa = is_before(a, a);
  __CPROVER_assert(!aa, "irreflexive");
  __CPROVER_assert(a == b || (ab != ba), "total and asymmetric on distinct cells");
  __CPROVER_assert(!(ab && bc) || ac, "transitive");
  __CPROVER_assert(0, "VP_REACH");
  return 0;
}
"""
    fn_cmp2 = Fn(CC, fn_cmp.select, "is_before", "", within=fn_cmp.within, sig_subs=cmp_sig, subs=cmp_subs)
    fn_dim2 = Fn(B, fn_dim.select, "get_dimension_of_a_cell", fn_dim.contract, scopes=[CLS_B], sig_subs=SIG_SUBS, subs=vec_subs())
    U.append(Unit("comparator.strict_total_order", "C13", [fn_dim2, fn_cmp2], no_enforce=True, replace=["get_dimension_of_a_cell"],
                  globals_=G, unwind=5, harness=lemma, inputs=["a", "b", "c", "g_data", "g_dim"], replay=replay_cmp,
                  desc="lemma: the comparator is a strict total order on the cells (so any correct sort yields one sequence)"))
    return U


def relax_units():
    """The relaxation step of the two breadth-first value propagations (base: impose_lower_star_filtration, from the top
    cells down through boundaries; periodic: impose_lower_star_filtration_from_vertices, from the vertices up through
    coboundaries): innermost loop body as a function, shape-independent (route U)."""
    U = []
    G = ("#include <math.h>\n#define NC 64\ndouble g_data[NC]; bool is_this_cell_considered[NC]; size_t g_pushed[2]; unsigned g_npush;\n"
         "static void ghost_push(size_t x) { if (g_npush < 2) g_pushed[g_npush] = x; g_npush++; }\n"
         "size_t nondet_size(void); double nondet_double(void); bool nondet_bool(void);\n")
    for cls, path, fname, up in ((CLS_B, B, "impose_lower_star_filtration", False), (CLS_P, PB, "impose_lower_star_filtration_from_vertices", True)):
        better = "__CPROVER_old(g_data[@cur@]) " + (">" if up else "<") + " __CPROVER_old(g_data[@nb@])"
        con = f"""
__CPROVER_requires(@nb@ < NC && @cur@ < NC && @nb@ != @cur@ && !isnan(g_data[@nb@]) && !isnan(g_data[@cur@]) && g_npush == 0)
__CPROVER_ensures(g_data[@nb@] == (({better}) ? __CPROVER_old(g_data[@cur@]) : __CPROVER_old(g_data[@nb@])))
__CPROVER_ensures(g_data[@cur@] == __CPROVER_old(g_data[@cur@]))
__CPROVER_ensures(is_this_cell_considered[@nb@])
__CPROVER_ensures(g_npush == (__CPROVER_old(is_this_cell_considered[@nb@]) ? 0 : 1) && (g_npush == 0 || g_pushed[0] == @nb@))
__CPROVER_assigns(g_data[@nb@], is_this_cell_considered[@nb@], g_pushed[0], g_npush)
"""
        fn = Fn(path, rf"void {cls}<T>::{fname}\(\)", "relax_step", con, scopes=[cls],
                piece={"kind": "loop", "ordinal": 3, "sig": "void relax_step(size_t @nb@, size_t @cur@)"},
                derive={"nb": r"for \(auto (\w+) : \w*bd\)", "cur": r"for \(auto (\w+) : indices_to_consider\)"},
                subs=[(r"this->data\[", "g_data["), (r"new_indices_to_consider\.push_back\(", "ghost_push(")],
                canary=(r"ghost_push\(", "if (0) ghost_push("))
        nm = ("per" if up else "base") + f".{fname}.relax_step"
        U.append(Unit(nm, "C13", [fn], enforce="relax_step", globals_=G, inputs=["in_nb", "in_cur", "g_data", "is_this_cell_considered"], runs=[Run(backend="z3", timeout=300)], replay=replay_by_native_search,
                      harness="int main(void) {\n  size_t in_nb = nondet_size(), in_cur = nondet_size(); g_npush = 0;\n  relax_step(in_nb, in_cur);\n  __CPROVER_assert(0, \"VP_REACH\");\n  return 0;\n}\n",
                      desc=f"{cls}::{fname}, relaxation step (innermost loop body): the {'coface' if up else 'face'} takes the {'larger' if up else 'smaller'} of the two values, the current cell keeps its value, the {'coface' if up else 'face'} is marked as reached and queued for the next round exactly when it was not marked before"))
    return U

def ctor_units():
    """Construction plumbing: which set-up routine each constructor runs for the chosen input convention, and which sizes
    (numbers of top cells per direction) reach set_up_containers when the input is given on the vertices.  The set-up
    routines themselves are ghost stubs (their pieces are under contract elsewhere)."""
    U = []
    G = ("unsigned g_top_calls, g_vert_calls; bool nondet_bool(void);\n"
         "static void setup_top(void) { g_top_calls++; }\nstatic void setup_vert(void) { g_vert_calls++; }\n")
    con = """
__CPROVER_requires(g_top_calls == 0 && g_vert_calls == 0)
__CPROVER_ensures(input_top_cells ? (g_top_calls == 1 && g_vert_calls == 0) : (g_top_calls == 0 && g_vert_calls == 1))
__CPROVER_assigns(g_top_calls, g_vert_calls)
"""
    harness = "int main(void) {\n  bool in_top = nondet_bool(); g_top_calls = 0; g_vert_calls = 0;\n  ctor(in_top);\n  __CPROVER_assert(0, \"VP_REACH\");\n  return 0;\n}\n"
    disp_subs = [(r"(?:this->)?(?:setup_bitmap_based_on_top_dimensional_cells_list|construct_complex_based_on_top_dimensional_cells)\([^;]*\);", "setup_top();", 0),
                 (r"(?:this->)?(?:setup_bitmap_based_on_vertices|construct_complex_based_on_vertices)\([^;]*\);", "setup_vert();", 0),
                 (r"std::vector<bool> directions_in_which_periodic_b_cond_are_to_be_imposed = [^;]*;", "", 0)]
    for nm, path, cls, sel in (
            ("base.ctor3", B, CLS_B, rf"{CLS_B}<T>::{CLS_B}\(const std::vector<unsigned>& \w+,\s*const std::vector<T>& \w+,\s*bool input_top_cells\)"),
            ("base.ctor4", B, CLS_B, rf"{CLS_B}<T>::{CLS_B}\(const std::vector<unsigned>& dimensions,\s*const std::vector<T>& cells,\s*const std::vector<bool>& directions,\s*bool input_top_cells\)"),
            ("per.ctor3", PB, CLS_P, rf"{CLS_P}<T>::{CLS_P}\(\s*const std::vector<unsigned>& dimensions, const std::vector<T>& cells, bool input_top_cells\)"),
            ("per.ctor4", PB, CLS_P, rf"{CLS_P}<T>::{CLS_P}\(\s*const std::vector<unsigned>& dimensions, const std::vector<T>& cells,\s*const std::vector<bool>& directions_in_which_periodic_b_cond_are_to_be_imposed,\s*bool input_top_cells\)")):
        fn = Fn(path, sel, "ctor", con, sig_subs=[(r"^.*$", "void ctor(bool input_top_cells)")], subs=disp_subs,
                canary=(r"setup_vert\(\);", "setup_top();"))
        U.append(Unit(f"{nm}.input_convention", "C13", [fn], enforce="ctor", globals_=G, inputs=["in_top"], harness=harness, replay=replay_by_native_search,
                      desc=f"{cls} constructor (dimensions, cells{', directions' if nm.endswith('4') else ''}, input_top_cells): values are taken as top-cell values exactly when input_top_cells is true, as vertex values otherwise"))
    # which sizes (numbers of top cells per direction) and which starting value reach set_up_containers, and in which order the
    # construction runs: [periodic mask stored] -> set_up_containers -> input values written -> lower-star filtration imposed
    Gv = ("#define DMAX 4\ntypedef struct { unsigned a[DMAX]; size_t n; } vp_vec_u; typedef struct { bool a[DMAX]; size_t n; } vp_vec_b;\n"
          "vp_vec_u g_sizes; bool g_pos_inf; unsigned g_setup_calls, g_fill_calls, g_impose_calls, g_mask_calls; unsigned g_seq; bool g_mask_late;\n"
          "static void rec_mask(void) { g_mask_calls++; if (g_seq != 0) g_mask_late = true; }\n"
          "static void rec_set_up_containers(vp_vec_u s, bool pos_inf) { g_sizes = s; g_pos_inf = pos_inf; g_setup_calls++; if (g_seq != 0) g_seq = 99; else g_seq = 1; }\n"
          "static void rec_fill(void) { g_fill_calls++; if (g_seq != 1) g_seq = 99; else g_seq = 2; }\n"
          "static void rec_impose(void) { g_impose_calls++; if (g_seq != 2) g_seq = 99; else g_seq = 3; }\n"
          "unsigned nondet_uint(void); bool nondet_bool(void); size_t nondet_size(void);\n")
    for nm, path, cls, sel, per, top in (
            ("base.setup_bitmap_based_on_vertices", B, CLS_B, rf"void {CLS_B}<T>::setup_bitmap_based_on_vertices\(const std::vector<unsigned>& sizes_in_following_directions,\s*const std::vector<T>& vertices\)", False, False),
            ("per.construct_complex_based_on_vertices", PB, CLS_P, rf"void {CLS_P}<T>::construct_complex_based_on_vertices\(\s*const std::vector<unsigned>& dimensions, const std::vector<T>& vertices,\s*const std::vector<bool>& directions_in_which_periodic_b_cond_are_to_be_imposed\)", True, False),
            ("base.setup_bitmap_based_on_top_dimensional_cells_list", B, CLS_B, rf"void {CLS_B}<T>::setup_bitmap_based_on_top_dimensional_cells_list\(\s*const std::vector<unsigned>& sizes_in_following_directions, const std::vector<T>& top_dimensional_cells\)", False, True),
            ("per.construct_complex_based_on_top_dimensional_cells", PB, CLS_P, rf"void {CLS_P}<T>::construct_complex_based_on_top_dimensional_cells\(\s*const std::vector<unsigned>& dimensions, const std::vector<T>& topDimensionalCells,\s*const std::vector<bool>& directions_in_which_periodic_b_cond_are_to_be_imposed\)", True, True)):
        dims = "dimensions" if per else "sizes_in_following_directions"
        exp = f"{dims}.a[k]" if top else (f"{dims}.a[k] - (periodic.a[k] ? 0u : 1u)" if per else f"{dims}.a[k] - 1u")
        Gx = Gv + (f"static bool sizes_ok(vp_vec_u {dims}, vp_vec_b periodic) {{ bool ok = g_sizes.n == {dims}.n; for (unsigned k = 0; k < DMAX; k++) if (k < {dims}.n) ok = ok && g_sizes.a[k] == {exp}; return ok; }}\n")
        lim = " && ".join(f"{dims}.a[{k}] >= 2 && {dims}.a[{k}] <= 1073741824u" for k in range(4))
        conv = f"""
__CPROVER_requires({dims}.n >= 1 && {dims}.n <= DMAX && periodic.n == {dims}.n && g_setup_calls == 0 && g_fill_calls == 0 && g_impose_calls == 0 && g_mask_calls == 0 && g_seq == 0 && !g_mask_late)
__CPROVER_requires({lim})
__CPROVER_ensures(g_thrown != 0 || (g_setup_calls == 1 && g_pos_inf == {'true' if top else 'false'} && sizes_ok({dims}, periodic)))
__CPROVER_ensures(g_thrown != 0 || (g_fill_calls == 1 && g_impose_calls == 1 && g_seq == 3))
__CPROVER_ensures(g_mask_calls == {1 if per else 0} && !g_mask_late)
__CPROVER_assigns(g_sizes, g_pos_inf, g_setup_calls, g_fill_calls, g_impose_calls, g_mask_calls, g_mask_late, g_seq, g_thrown)
"""
        subs = [(r"this->directions_in_which_periodic_b_cond_are_to_be_imposed = directions_in_which_periodic_b_cond_are_to_be_imposed;", "rec_mask();", 0),
                (r"std::vector<unsigned> (\w+);", r"vp_vec_u \1; \1.n = 0;", 0),
                (r"std::transform\s*\((\w+)\.begin\(\), \1\.end\(\), std::back_inserter\((\w+)\),\s*\[\]\(int (\w+)\)\{ return ([^;]*);\}\);",
                 r"for (size_t vp_t = 0; vp_t < \1.n; vp_t++) { int \3 = (int)\1.a[vp_t]; \2.a[\2.n] = (unsigned)(\4); \2.n++; }", 0),
                (r"std::transform\s*\((\w+)\.begin\(\), \1\.end\(\), (\w+)\.begin\(\),\s*std::back_inserter\((\w+)\), \[\]\(unsigned (\w+), bool (\w+)\)\{ return ([^;]*);\}\);",
                 r"for (size_t vp_t = 0; vp_t < \1.n; vp_t++) { unsigned \4 = \1.a[vp_t]; bool \5 = periodic.a[vp_t]; \3.a[\3.n] = (unsigned)(\6); \3.n++; }", 0),
                (r"(?:this->)?set_up_containers\((\w+), (\w+)\);", r"rec_set_up_containers(\1, \2);"),
                (r"std::size_t (\w+) = std::accumulate\([^;]*\);", r"size_t \1 = g_nv;", 0),
                (r"\b\w+\.size\(\)", "g_nv_given", 0), (r"std::cerr\s*<<[^;]*;", "", 0),
                (r"for_each_vertex\(\[this, &vertices, index=\(std::size_t\)0\] \(auto cell\) mutable \{ get_cell_data\(cell\) = vertices\[index\+\+\]; \}\);", "rec_fill();", 0),
                (r"std::size_t (\w+) = 0;\s*for \(auto it = this->\w+_iterator_begin\(\);\s*it != this->\w+_iterator_end\(\); \+\+it\) \{\s*this->get_cell_data\(\*it\) = \w+\[\1\];\s*\+\+\1;\s*\}", "rec_fill();", 0),
                (r"(?:this->)?impose_lower_star_filtration(?:_from_vertices)?\(\);", "rec_impose();")]
        sigp = f"void build_complex(vp_vec_u {dims}, vp_vec_b periodic)"
        fn = Fn(path, sel, "build_complex", conv, sig_subs=[(r"^.*$", sigp)], subs=subs, throw_ret="",
                canary=(r"rec_impose\(\);", ";"))
        U.append(Unit(f"{nm}", "C13", [fn], enforce="build_complex", globals_=Gx + "int g_thrown; size_t g_nv, g_nv_given;\n", unwind=6, route="B",
                      bound="dimension <= 4 (the per-direction loop is unwound); side lengths and the periodic mask symbolic", inputs=["in_d", "in_p"], replay=replay_by_native_search,
                      harness="int main(void) {\n  vp_vec_u in_d; vp_vec_b in_p; in_d.n = nondet_size(); in_p.n = in_d.n;\n  for (int k = 0; k < DMAX; k++) { in_d.a[k] = nondet_uint(); in_p.a[k] = nondet_bool(); }\n"
                              "  g_setup_calls = 0; g_fill_calls = 0; g_impose_calls = 0; g_mask_calls = 0; g_mask_late = 0; g_seq = 0; g_thrown = 0; g_nv = nondet_size(); g_nv_given = nondet_size();\n  build_complex(in_d, in_p);\n  __CPROVER_assert(0, \"VP_REACH\");\n  return 0;\n}\n",
                      desc=f"{cls}, construction from {'top-cell' if top else 'vertex'} values: " + ("the periodic mask is stored first; " if per else "") + "set_up_containers receives, per direction, " + ("the given size" if top else ("the number of vertices minus one (the number of vertices itself in a periodic direction)" if per else "the number of vertices minus one")) + f", with {'+' if top else '-'}infinity as the starting value; then the input values are written and the lower-star filtration is imposed, in that order"))
    return U

def empty_ctor_units():
    """The constructors that only allocate an empty complex (values to be written by hand through the iterators): all
    cells start at +infinity (so that impose_lower_star_filtration can lower them), the sizes are passed through, and the
    periodic class stores its mask first."""
    U = []
    G = ("#define DMAX 4\ntypedef struct { unsigned a[DMAX]; size_t n; } vp_vec_u; typedef struct { bool a[DMAX]; size_t n; } vp_vec_b;\n"
         "vp_vec_u g_sizes; bool g_pos_inf; unsigned g_setup_calls, g_mask_calls; bool g_mask_late;\n"
         "static void rec_mask(void) { g_mask_calls++; if (g_setup_calls != 0) g_mask_late = true; }\n"
         "static void rec_set_up_containers(vp_vec_u s, bool pos_inf) { g_sizes = s; g_pos_inf = pos_inf; g_setup_calls++; }\n"
         "static bool same(vp_vec_u a, vp_vec_u b) { bool ok = a.n == b.n; for (unsigned k = 0; k < DMAX; k++) if (k < a.n) ok = ok && a.a[k] == b.a[k]; return ok; }\n"
         "unsigned nondet_uint(void); size_t nondet_size(void);\n")
    for nm, path, cls, sel, per in (
            ("base.ctor1", B, CLS_B, rf"{CLS_B}<T>::{CLS_B}\(const std::vector<unsigned>& sizes\)", False),
            ("base.ctor2", B, CLS_B, rf"{CLS_B}<T>::{CLS_B}\(const std::vector<unsigned>& sizes,\s*const std::vector<bool>& directions\)", False),
            ("per.ctor1", PB, CLS_P, rf"{CLS_P}<T>::{CLS_P}\(\s*const std::vector<unsigned>& sizes\)", True),
            ("per.ctor2", PB, CLS_P, rf"{CLS_P}<T>::{CLS_P}\(\s*const std::vector<unsigned>& sizes,\s*const std::vector<bool>& directions_in_which_periodic_b_cond_are_to_be_imposed\)\s*: directions", True)):
        con = f"""
__CPROVER_requires(sizes.n >= 1 && sizes.n <= DMAX && g_setup_calls == 0 && g_mask_calls == 0 && !g_mask_late)
__CPROVER_ensures(g_setup_calls == 1 && g_pos_inf && same(g_sizes, sizes))
__CPROVER_ensures(g_mask_calls == {1 if per else 0} && !g_mask_late)
__CPROVER_assigns(g_sizes, g_pos_inf, g_setup_calls, g_mask_calls, g_mask_late)
"""
        fn = Fn(path, sel, "ctor_empty", con, sig_subs=[(r"^.*$", "void ctor_empty(vp_vec_u sizes)")],
                subs=[(r"(?:this->)?directions_in_which_periodic_b_cond_are_to_be_imposed = [^;]*;", "rec_mask();", 0),
                      (r"(?:this->)?set_up_containers\((\w+), (\w+)\);", r"rec_set_up_containers(\1, \2);")],
                canary=(r"rec_set_up_containers\((\w+), true\)", r"rec_set_up_containers(\1, false)"))
        U.append(Unit(f"{nm}.empty_complex", "C13", [fn], enforce="ctor_empty", globals_=G, inputs=["in_s"], replay=replay_by_native_search,
                      harness="int main(void) {\n  vp_vec_u in_s; in_s.n = nondet_size(); for (int k = 0; k < DMAX; k++) in_s.a[k] = nondet_uint(); g_setup_calls = 0; g_mask_calls = 0; g_mask_late = 0;\n  ctor_empty(in_s);\n  __CPROVER_assert(0, \"VP_REACH\");\n  return 0;\n}\n",
                      desc=f"{cls} constructor from sizes{' and periodic directions' if nm.endswith('2') else ''} (empty complex to be filled by hand): " + ("the periodic mask is stored before " if per else "") + "set_up_containers gets the sizes unchanged and +infinity as the starting value of every cell"))
    return U

def vertex_walk_units(tier):
    """for_each_vertex_rec (base class): the walk that writes the input vertex values visits exactly the vertices of the
    grid, each once, in increasing bitmap position (the order in which the input vector is read)."""
    U = []
    shapes = [(3, 2), (1, 2, 1)] + ([(2, 3), (2, 1, 3), (1, 1, 1, 1)] if tier == "thorough" else [])
    for shape in shapes:
        ncell = 1
        nvert = 1
        for sd in shape:
            ncell *= 2 * sd + 1
            nvert *= sd + 1
        defs = shape_defs(shape, None) + [f"NCELL={ncell}", f"NVERT={nvert}"]
        F = fns(False)
        G = GHOST + """
size_t g_seq[NVERT + 1]; unsigned g_nvis;
static void visit_stub(size_t cell) { if (g_nvis < NVERT + 1) g_seq[g_nvis] = cell; g_nvis++; }
static bool P_walk(void) { bool ok = g_nvis == NVERT; size_t expect = 0; unsigned k = 0;
  for (size_t c = 0; c < NCELL; c++) if (c < X_SIZE && x_dim(c) == 0) { if (k < NVERT) ok = ok && g_seq[k] == c; k++; }
  return ok && k == NVERT; }
"""
        f_rec = Fn(B, rf"void {CLS_B}<T>::for_each_vertex_rec\(F&&f, std::size_t base, int dim\)", "for_each_vertex_rec", "",
                   scopes=[CLS_B], sig_subs=SIG_SUBS + [(r"F&&f, ", ""), (r"template <class F>", "", 0)],
                   subs=vec_subs([(r"for_each_vertex_rec\(f, ", "for_each_vertex_rec("), (r"\bf\(", "visit_stub(")]),
                   canary=(r"visit_stub\(base \+ 2 \* i\)", "visit_stub(base + i)"))
        f_top = Fn(B, r"template <class F> void for_each_vertex\(F&&f\)", "for_each_vertex", """
__CPROVER_requires(shape_ok() && g_nvis == 0)
__CPROVER_ensures(P_walk())
__CPROVER_assigns(g_seq, g_nvis)
""", sig_subs=[(r"template <class F>", "", 0), (r"\(F&&f\)", "(void)")], subs=vec_subs([(r"for_each_vertex_rec\(f, ", "for_each_vertex_rec(")]))
        nm = "base." + shape_name(shape, None)
        harness = HARNESS_SETUP + "int main(void) {\n  setup();\n  g_nvis = 0;\n  for_each_vertex();\n  __CPROVER_assert(0, \"VP_REACH\");\n  return 0;\n}\n"
        U.append(Unit(f"{nm}.for_each_vertex", "C13", [F["set_up_containers"], f_rec, f_top], enforce="for_each_vertex", canary_fn="for_each_vertex_rec", includes=["c13_glue.h"], defines=defs, route="B",
                      bound=f"grid shape {shape}", unwind=ncell + 2, globals_=G, object_bits=10, inputs=[], harness=harness, replay=replay_by_native_search,
                      extra_cbmc=["--unwind-min", "0"] if False else [],
                      desc=f"for_each_vertex (with the real recursive for_each_vertex_rec) on shape {shape_name(shape, None)}: visits every vertex of the grid exactly once, in increasing bitmap position"))
    return U

def bfs_units(tier):
    """The two breadth-first value propagations as whole functions on concrete small shapes (route B): base class,
    impose_lower_star_filtration (top cells -> faces, minimum; this is the default construction path) and periodic class,
    impose_lower_star_filtration_from_vertices (vertices -> cofaces, maximum).  The real get_boundary_of_a_cell /
    get_coboundary_of_a_cell are called; the iterator loop that seeds the worklist is a stub (iterator units)."""
    U = []
    base_shapes = [((2,), None), ((2, 1), None)] + ([((1, 1, 1), None), ((3, 2), None)] if tier == "thorough" else [])
    per_shapes = [((3,), (True,)), ((2, 2), (True, False))] + ([((1, 1, 1), (True, False, True)), ((2, 1, 1), (True, False, False)), ((2, 2), (True, True))] if tier == "thorough" else [])
    for up, shapes in ((False, base_shapes), (True, per_shapes)):
        for shape, mask in shapes:
            ncell = 1
            for k, sd in enumerate(shape):
                ncell *= 2 * sd + (0 if (mask and mask[k]) else 1)
            defs = shape_defs(shape, mask) + [f"NCELL={ncell}"]
            F = fns(up)
            G = GHOST + """
double g_vals[NCELL];
typedef struct { size_t a[NCELL]; size_t n; } vp_vec_wl;
#define VP_SWAP_WL(x, y) do { vp_vec_wl vp_t = (x); (x) = (y); (y) = vp_t; } while (0)
/* a is a face of b of any codimension (a == b included): per direction equal coordinates, or b has length there and a is one of its two ends */
static bool x_leq(size_t a, size_t b) {
  bool ok = true;
  for (unsigned i = 0; i < DMAX; i++) if (i < D) { unsigned ca = x_coord(a, i), cb = x_coord(b, i);
    ok = ok && (ca == cb || (cb % 2 == 1 && (ca + 1 == cb || ca == (cb + 1) % X_L(i)))); }
  return ok;
}
static bool x_is_seed(size_t c) { return x_dim(c) == (SEED_TOP ? D : 0); }
/* stub of the seeding loop `for (it = <cells>_iterator_begin(); it != ..._end(); ++it) push_back(it.compute_index_in_bitmap())` */
static void vp_seed(vp_vec_wl* w) { for (size_t c = 0; c < NCELL; c++) if (c < X_SIZE && x_is_seed(c)) { w->a[w->n] = c; w->n++; } }
static double x_expected(size_t cell) {
  double best = 0; bool first = true;
  for (size_t t = 0; t < NCELL; t++) if (t < X_SIZE && x_is_seed(t) && (SEED_TOP ? x_leq(cell, t) : x_leq(t, cell))) {
    if (first || (SEED_TOP ? g_seedv[t] < best : best < g_seedv[t])) best = g_seedv[t]; first = false; }
  return best;
}
static bool vals_ok(void) { bool ok = data.a == g_vals && X_SIZE == NCELL;
  for (size_t c = 0; c < NCELL; c++) ok = ok && (x_is_seed(c) ? (!isnan(g_vals[c]) && g_vals[c] == g_seedv[c]) : (isinf(g_vals[c]) && (SEED_TOP ? g_vals[c] > 0 : g_vals[c] < 0)));
  return ok; }
""".replace("double g_vals[NCELL];", "double g_vals[NCELL]; double g_seedv[NCELL];")
            cls, path = (CLS_P, PB) if up else (CLS_B, B)
            fname = "impose_lower_star_filtration_from_vertices" if up else "impose_lower_star_filtration"
            extra = [(r"std::vector<bool> (\w+)\(data\.n, false\);", r"bool \1[NCELL]; for (size_t vp_z = 0; vp_z < NCELL; vp_z++) \1[vp_z] = false;"),
                     (r"\bvp_vec_sz ((?:new_)?indices_to_consider);", r"vp_vec_wl \1;"),
                     (r"for \(auto (\w+) = \w+_iterator_begin\(\);\s*\1 != \w+_iterator_end\(\); \+\+\1\) \{\s*VP_PUSH\((\w+), \1\.compute_index_in_bitmap\(\)\);\s*\}", r"vp_seed(&\2);"),
                     (r"\b((?:new_)?indices_to_consider)\.size\(\)", r"\1.n"),
                     (r"for \(auto (\w+) : (\w+)\) \{", r"for (size_t vp_k_\1 = 0; vp_k_\1 < \2.n; vp_k_\1++) { size_t \1 = \2.a[vp_k_\1];"),
                     (r"(\w+)\.swap\((\w+)\);", r"VP_SWAP_WL(\1, \2);")]
            f_bfs = Fn(path, rf"void {cls}<T>::{fname}\(\)", fname, """
__CPROVER_requires(shape_ok() && vals_ok() && g_probe < X_SIZE)
__CPROVER_ensures(g_vals[g_probe] == x_expected(g_probe))
__CPROVER_assigns(g_vals)
""", scopes=[cls], sig_subs=SIG_SUBS, subs=vec_subs(extra), canary=(r"(if \(data\.a\[\w+\]) [<>] (data\.a\[\w+\]\))", r"\1 == \2"))
            nm = ("per." if up else "base.") + shape_name(shape, mask)
            nbfn = F["get_coboundary_of_a_cell"] if up else F["get_boundary_of_a_cell"]
            harness = HARNESS_SETUP + """double nondet_double(void);
int main(void) {
  setup();
  data.a = g_vals;
  for (size_t c = 0; c < NCELL; c++) { g_seedv[c] = nondet_double(); g_vals[c] = nondet_double(); }
  g_probe = nondet_size();
  """ + fname + """();
  __CPROVER_assert(0, "VP_REACH");
  return 0;
}
"""
            U.append(Unit(f"{nm}.{fname}.whole", "C13", [F["set_up_containers"], F["compute_counter_for_given_cell"], nbfn, f_bfs],
                          enforce=fname, includes=["c13_glue.h"], defines=defs + [f"SEED_TOP={0 if up else 1}"], route="B",
                          bound=f"grid shape {shape_name(shape, mask)}; every cell (ghost probe) and all non-NaN {'vertex' if up else 'top-cell'} values symbolic",
                          unwind=ncell + 2, globals_=G, object_bits=10, inputs=["g_probe", "g_seedv"], harness=harness,
                          runs=[Run(backend="kissat", timeout=1500)], replay=replay_by_native_search,
                          desc=f"{fname} as a whole on shape {shape_name(shape, mask)} (worklist rounds, real {'get_coboundary_of_a_cell' if up else 'get_boundary_of_a_cell'}): each cell ends with the {'maximum over its vertices' if up else 'minimum over the top-dimensional cells containing it'}; {'vertex' if up else 'top-cell'} values are kept"))
    return U

NATIVE_RESULTS = []


def replay_by_native_search(unit, failure):
    """The cache units are about call sequences on one object; the failing history is searched for by the native stand-in
    of the same run (second life of every swept complex: new values, impose_lower_star_filtration, initialize_filtration)."""
    for n in NATIVE_RESULTS:
        if n["unit"] == "native.values_and_order" and n.get("failures"):
            c = n["failures"][0]
            return {"reproduced": True, "detail": f"native.values_and_order on the real classes: {c.get('case')}", "native_case": c}
    return {"reproduced": None, "detail": "no swept complex / history shows a wrong value or order on the real classes"}


def cache_units():
    """Bitmap_cubical_complex::initialize_filtration / filtration_simplex_range: the order cache.  The vector and the
    standard algorithms are abstract (ghost size + ghost state); what is under contract is the sequence the wrapper
    performs WHATEVER the cache held before: resize to the number of cells, fill with 0..n-1, sort the whole range with
    the comparator - so an explicit initialize_filtration() always refreshes the order (history independence)."""
    G = ("typedef size_t Index;\nsize_t data_n; size_t sorted_n; int g_state; unsigned g_sort_calls, g_iota_calls; size_t g_sort_n; int g_sort_state; unsigned g_init_calls;\n"
         "enum { ST_ARBITRARY = 0, ST_RESIZED = 1, ST_IOTA0 = 2, ST_SORTED = 3 };\n"
         "static void vec_resize(size_t n) { sorted_n = n; g_state = ST_RESIZED; }\n"
         "static void vp_iota_whole(long start) { g_iota_calls++; g_state = (start == 0) ? ST_IOTA0 : ST_ARBITRARY; }   /* std::iota(begin, end, start) */\n"
         "static void vp_sort_whole_is_before(void) { g_sort_calls++; g_sort_n = sorted_n; g_sort_state = g_state; g_state = ST_SORTED; }   /* std::sort / tbb::parallel_sort(begin, end, is_before_in_filtration(this)) */\n"
         "size_t nondet_size(void); int nondet_int(void);\n")
    con = """
__CPROVER_requires(g_sort_calls == 0 && g_iota_calls == 0)
__CPROVER_ensures(sorted_n == data_n && g_state == ST_SORTED)
__CPROVER_ensures(g_sort_calls == 1 && g_iota_calls == 1 && g_sort_n == data_n && g_sort_state == ST_IOTA0)
__CPROVER_assigns(sorted_n, g_state, g_sort_calls, g_iota_calls, g_sort_n, g_sort_state)
"""
    subs = [(r"(?:this->)?sorted_cells\.resize\(([^;]*)\);", r"vec_resize(\1);"), (r"(?:this->)?data\.size\(\)", "data_n"),
            (r"std::iota\(std::begin\(sorted_cells\), std::end\(sorted_cells\), ([^;]*)\);", r"vp_iota_whole(\1);"),
            (r"(?:std::sort|tbb::parallel_sort)\(sorted_cells\.begin\(\), sorted_cells\.end\(\),\s*is_before_in_filtration<T>\(this\)\);", "vp_sort_whole_is_before();"),
            (r"(?:this->)?sorted_cells\.empty\(\)", "(sorted_n == 0)", 0)]
    U = []
    for tbb in (False, True):
        fn = Fn(CC, r"void Bitmap_cubical_complex<T>::initialize_filtration\(\)", "initialize_filtration", con, scopes=["Bitmap_cubical_complex"],
                subs=subs, pp_defines=(("GUDHI_USE_TBB",) if tbb else ()), canary=(r"vp_iota_whole\(0\);", "vp_iota_whole(1);"))
        U.append(Unit("cache.initialize_filtration" + (".tbb" if tbb else ""), "C13", [fn], enforce="initialize_filtration", globals_=G, inputs=["data_n", "sorted_n", "g_state"], replay=replay_by_native_search,
                      harness="int main(void) {\n  data_n = nondet_size(); sorted_n = nondet_size(); g_state = nondet_int(); g_sort_calls = 0; g_iota_calls = 0;\n  initialize_filtration();\n  __CPROVER_assert(0, \"VP_REACH\");\n  return 0;\n}\n",
                      desc="Bitmap_cubical_complex::initialize_filtration" + (" (GUDHI_USE_TBB branch)" if tbb else "") + ": whatever the cache held (any size, any content), it is resized to the number of cells, filled with 0..n-1 and sorted as a whole with is_before_in_filtration, exactly once - an explicit call always refreshes the order (std::iota / std::sort are trusted to their standard specification)"))
    con2 = """
__CPROVER_requires(g_init_calls == 0 && (sorted_n == 0 || (sorted_n == data_n && g_state == ST_SORTED)) && data_n >= 1)
__CPROVER_ensures(sorted_n == data_n && g_state == ST_SORTED)
__CPROVER_ensures(g_init_calls <= 1 && (__CPROVER_old(sorted_n) != 0 || g_init_calls == 1))
__CPROVER_assigns(sorted_n, g_state, g_init_calls)
"""
    stub = Fn(CC, r"void Bitmap_cubical_complex<T>::initialize_filtration\(\)", "initialize_filtration", """
__CPROVER_ensures(sorted_n == data_n && g_state == ST_SORTED && g_init_calls == __CPROVER_old(g_init_calls) + 1)
__CPROVER_assigns(sorted_n, g_state, g_init_calls)
""", scopes=["Bitmap_cubical_complex"], subs=subs)
    fr = Fn(CC, r"Filtration_simplex_range const& filtration_simplex_range\(\)", "filtration_simplex_range", con2,
            sig_subs=[(r"Filtration_simplex_range const&", "void")], subs=[(r"(?:this->)?sorted_cells\.empty\(\)", "(sorted_n == 0)", 0), (r"return sorted_cells;", "return;")],
            pp_defines=(), canary=(r"if \(\(sorted_n == 0\)\)", "if (!(sorted_n == 0))"))
    U.append(Unit("cache.filtration_simplex_range", "C13", [stub, fr], enforce="filtration_simplex_range", replace=["initialize_filtration"], globals_=G,
                  inputs=["data_n", "sorted_n"], replay=replay_by_native_search,
                  harness="int main(void) {\n  data_n = nondet_size(); sorted_n = nondet_size(); g_state = nondet_int(); g_init_calls = 0;\n  filtration_simplex_range();\n  __CPROVER_assert(0, \"VP_REACH\");\n  return 0;\n}\n",
                  desc="Bitmap_cubical_complex::filtration_simplex_range: computes the order when the cache is empty (at most one computation per call), and returns a cache that lists every cell in order, given a cache that is either empty or current (non-empty complex: an empty cache is the only 'not computed' marker)"))
    return U

# ------------------------------------------------------------------------------------------------ replay
REPLAY_SRC = os.path.join(VERIF, "replay", "cubical.cpp")
REPLAY_BIN = os.path.join(VERIF, "build", "replay_cubical")


_built = set()


def replay_bin(src=None, out=None):
    """the replay programs are rebuilt from /repo's current headers once per check run"""
    src, out = src or REPLAY_SRC, out or REPLAY_BIN
    if out not in _built:
        os.makedirs(os.path.dirname(out), exist_ok=True)
        inc = ["-I" + REPO + "/src/Bitmap_cubical_complex/include", "-I" + REPO + "/src/common/include"]
        rc, o, e, s = sh(["g++", "-std=c++17", "-O1", "-w"] + inc + [src, "-o", out, "-ltbb"], 300)
        if rc != 0:
            raise RuntimeError("replay build failed: " + (o + e)[-1500:])
        _built.add(out)
    return out


def replay_cmp(unit, failure):
    """comparator counterexample -> two real cells with those values / dimensions / relative position"""
    i = failure["inputs"]

    def idx(name):
        v = i.get(name)
        return int(str(v).rstrip("ulUL")) if v is not None else None
    a, b = idx("in_a"), idx("in_b")
    if a is None or b is None:
        a, b = idx("a"), idx("b")
    if a is None or b is None or a == b:
        return {"reproduced": None, "detail": "cells not in the trace"}

    def elem(arr, k):
        v = i.get(f"{arr}[{k}l]")
        if v is None and isinstance(i.get(arr), list):
            v = i[arr][k]
        return v
    da, db, va, vb = elem("g_dim", a), elem("g_dim", b), elem("g_data", a), elem("g_data", b)
    if None in (da, db, va, vb) or not str(va).startswith("bits:") or not str(vb).startswith("bits:"):
        return {"reproduced": None, "detail": f"values not in the trace: {da} {db} {va} {vb}"}
    cmd = [replay_bin(os.path.join(VERIF, "replay", "cubical_cmp.cpp"), os.path.join(VERIF, "build", "replay_cubical_cmp")),
           str(da).rstrip("ulUL"), str(db).rstrip("ulUL"), va[5:], vb[5:], "1" if a < b else "0"]
    rc, o, e, s = sh(cmd, 60)
    return {"reproduced": True if rc == 1 else (False if rc == 0 else None), "cmd": " ".join(cmd), "detail": (o + e).strip()[-500:], "rc": rc}


def mk_replay(shape, mask, what):
    def rp(unit, failure):
        i = failure["inputs"]
        cell = i.get("in_cell")
        if cell is None:
            return {"reproduced": None, "detail": "no cell in the trace"}
        args = [replay_bin(), what, str(len(shape))] + [str(s) for s in shape] + \
               ["".join("1" if b else "0" for b in mask) if mask is not None else "-"] + \
               [str(cell).rstrip("ulUL")] + [str(i.get(k, 0)).rstrip("ulUL") for k in ("in_face", "in_z", "g_probe")]
        rc, o, e, s = sh(args, 60)
        return {"reproduced": True if rc == 1 else (False if rc == 0 else None), "cmd": " ".join(args),
                "detail": (o + e).strip()[-600:], "rc": rc}
    return rp


def native(tier, seed, bdir, only=None):
    """native stand-in for the value / order clauses of C13 on the real classes (values from top cells and from
    vertices, base and periodic; filtration order total, non-decreasing, faces first): exhaustive over a 5-letter value
    alphabet (ties, +-inf) for inputs of <= 6 cells, sampled from VERIF_SEED otherwise.  Labelled bounded."""
    import fnmatch
    import json
    if only and not fnmatch.fnmatch("native.values_and_order", only):
        return []
    os.makedirs(bdir, exist_ok=True)
    exe = os.path.join(bdir, "cubical_values")
    inc = ["-I" + REPO + "/src/Bitmap_cubical_complex/include", "-I" + REPO + "/src/common/include", "-I" + REPO + "/src/Persistent_cohomology/include"]
    rc, o, e, s = sh(["g++", "-std=c++17", "-O2", "-w"] + inc + [os.path.join(VERIF, "native", "cubical_values.cpp"), "-o", exe, "-ltbb"], 600)
    if rc != 0:
        return [{"unit": "native.values_and_order", "status": "error", "notes": (o + e)[-1500:], "cases": 0, "failures": []}]
    rc, o, e, secs = sh([exe, str(seed), "1" if tier == "thorough" else "0"], 3600)
    rec = {"unit": "native.values_and_order", "route": "B", "kind": "native (exhaustive for small inputs, sampled otherwise)", "status": "ok", "cases": 0,
           "failures": [], "seconds": round(secs, 2), "bound": "11 base shapes, 10 periodic shape/mask pairs, both input conventions; value alphabet {0,1,2,+inf,-inf} exhaustive for <= 6 input cells, sampled otherwise",
           "desc": "each cell's value is the min over the top cells containing it / the max over its vertices; the filtration order lists every cell once, never decreases, faces first; the same on a second life of the object; Betti numbers of the periodic grids over Z/2, Z/3, Z/5 are those of a product of circles and intervals"}
    try:
        js = json.loads(o.strip().split("\n")[-1])
        rec["cases"] = rec["obligations"] = js["checked"]
        for m in js["first"]:
            m["id"] = f"case{len(rec['failures'])}"
            m["input_class"] = None
            rec["failures"].append(m)
    except (ValueError, IndexError):
        rec["status"] = "error"
        rec["notes"] = f"native run failed rc={rc}: {(o + e)[-600:]}"
    return [rec]


def selftest():
    try:
        replay_bin()
        return "native replay program builds against /repo's headers"
    except Exception as ex:
        return "FAIL " + str(ex)[:500]


TRUSTED = [
    "contracts/c13_glue.h: fixed-capacity vectors (R7), the geometric specification (x_coord, x_dim, x_face_lo/hi, x_is_face, x_incidence) and the predicates P_counter/P_boundary/P_coboundary",
    "vp/prelude.h; extraction rules R1-R13 (vp/extract.py)",
    "template binding T = double; CBMC 6.11.0 (goto-cc, goto-instrument --dfcc, MiniSat)",
    "std::sort / tbb::parallel_sort are assumed correct (L4: a correct sort of a strict total order is unique)",
]
ASSUMPTIONS = [
    "the grid shape is enumerated from a finite list (quick: 26 shapes; thorough: every D<=3 with sides 1..4, D=4 sides <=2, D=1 up to 8, every periodic mask over sides 3..4): bounded by shape, unbounded in the cell",
    "boundary-of-boundary for the incidence numbers is not run as a lemma: compute_incidence_between_cells is proved equal to the standard cubical incidence convention, for which dd = 0 is a textbook fact; the enumeration-sign version is machine-checked",
    "not under contract: impose_lower_star_filtration / propagate_from_vertices (iterator- and recursion-based; see the native check), the persistence of the complex, file readers",
]
