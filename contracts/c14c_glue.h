/* c14c_glue.h - glue for the bounded whole-function run of fill_and_pair on one concrete grid shape (GR x GC):
 * real arrays, range assertions on every access through the accessors, write counters per vertex / square. */
#ifndef C14C_GLUE_H
#define C14C_GLUE_H
#include "prelude.h"
typedef size_t Index;
typedef int Filtration_value;
typedef struct { Filtration_value first; } T;
#define T_make(f, i) ((T){(f)})
struct Edge { T f; Index v1, v2; };
#define NSQ (GR * GC)
#define NVX (GR * GC - GC - 1)
const Filtration_value* input_p; Index size_x, size_y, input_size, dy;
Filtration_value g_in[NSQ]; T data_v_[NSQ]; Index ds_parent_v_[NSQ]; Index ds_parent_s_[NSQ];
unsigned g_vwr[NSQ], g_swr[NSQ]; struct Edge g_edges[2 * NSQ]; unsigned g_nedges; Index g_vowner[NSQ]; Index g_cur;
static Index* acc_v(Index n) { __CPROVER_assert(n < NVX, "vertex index within the vertex arrays"); g_vwr[n]++; g_vowner[n] = g_cur; return &ds_parent_v_[n]; }
static T* acc_d(Index n) { __CPROVER_assert(n < NVX, "vertex index within data_v_"); return &data_v_[n]; }
static Index* acc_s(Index n) { __CPROVER_assert(n < NSQ, "square index within ds_parent_s_"); g_swr[n]++; return &ds_parent_s_[n]; }
static Filtration_value acc_in(Index n) { __CPROVER_assert(n < NSQ, "input index within the input array"); return g_in[n]; }
static void edges_emplace_back(T f, Index v1, Index v2) { __CPROVER_assert(g_nedges < 2 * NSQ, "edge log"); g_edges[g_nedges].f = f; g_edges[g_nedges].v1 = v1; g_edges[g_nedges].v2 = v2; g_nedges++; }
#define ds_parent_vertex(n) (*acc_v(n))
#define ds_parent_square(n) (*acc_s(n))
#define data_vertex(n) (*acc_d(n))
#define input(n) acc_in(n)
/* post-condition of the whole pass (each vertex of the reduced complex handled exactly once, by the smallest of
 * the four squares around it; interior squares exactly once, boundary squares never; critical edges well formed) */
static bool lt_sq(Index a, Index b) { return g_in[a] < g_in[b] || (!(g_in[b] < g_in[a]) && a < b); }   /* (value, index) order */
static bool P_whole(void) {
  bool ok = true;
  for (Index v = 0; v < NSQ; v++) if (v < NVX) { Index x = v % GC;
    if (x < GC - 1) { Index sq[4] = {v, v + 1, v + GC, v + GC + 1}; Index m = sq[0]; for (int k = 1; k < 4; k++) if (lt_sq(sq[k], m)) m = sq[k];
      ok = ok && g_vwr[v] == 1 && g_vowner[v] == m; }
    else ok = ok && g_vwr[v] == 0; }
  for (Index s = 0; s < NSQ; s++) { Index x = s % GC, y = s / GC; bool interior = x >= 1 && x + 1 < GC && y >= 1 && y + 1 < GR; ok = ok && g_swr[s] == (interior ? 1u : 0u); }
  for (unsigned k = 0; k < 2 * NSQ; k++) if (k < g_nedges) ok = ok && g_edges[k].v1 < g_edges[k].v2 && g_edges[k].v2 < NVX;
  return ok;
}
#endif
