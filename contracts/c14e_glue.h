/* c14e_glue.h - glue for the loop-contract proof of compute_persistence_of_function_on_line: the dispatch loop (rule
 * R14) carries an inductive invariant, so the number of iterations is not bounded; the arrays have NMAX slots, so the
 * proof covers every input of at most NMAX samples.  out(b, d) is recorded lazily: each call checks that the PREVIOUS
 * call was a finite bar with birth < death, so that only the last call (the infinite bar) escapes that check. */
#ifndef C14E_GLUE_H
#define C14E_GLUE_H
#include "prelude.h"
typedef size_t Index;
#ifdef FV_DOUBLE
typedef double Filtration;
#define FV_INF (1.0 / 0.0)
#else
typedef int Filtration;
#define FV_INF 0                 /* std::numeric_limits<int>::infinity() is 0 */
#endif
#ifdef CMP_GREATER
#define LT(a, b) ((b) < (a))
#else
#define LT(a, b) ((a) < (b))
#endif
Filtration g_in[NMAX]; Index g_n;
Filtration data[NMAX]; Index data_n;
bool g_has_prev; Filtration g_pb, g_pd; Filtration g_first;
static Filtration* acc_data(Index k) { __CPROVER_assert(k < data_n, "element access within the live part of data"); return &data[k]; }
#define DATA(k) (*acc_data(k))
bool g_pending;   /* a sample has been read and not yet stored into data */
#define DATA_SET(k, x) do { (*acc_data(k)) = (x); g_pending = false; } while (0)
static void vec_push(Filtration v) { g_pending = false; __CPROVER_assert(data_n < NMAX, "data never holds more elements than were read"); data[data_n] = v; data_n++; }
static void vec_drop(Index k) { __CPROVER_assert(k <= data_n, "pop / erase within the live part of data"); data_n -= k; }
static Filtration acc_in(Index k) { __CPROVER_assert(k < g_n, "read within the input range"); __CPROVER_assert(!g_pending, "a sample is read only after the previous one has been stored (no sample is dropped)"); g_pending = true; return g_in[k]; }
static void out_rec(Filtration b, Filtration d) {
  __CPROVER_assert(!g_has_prev || LT(g_pb, g_pd), "every bar but the last has birth < death");
  g_has_prev = true; g_pb = b; g_pd = d;
}
static bool in_ok(void) {
  bool ok = g_n <= NMAX;
#ifdef FV_DOUBLE
  for (Index i = 0; i < NMAX; i++) ok = ok && g_in[i] == g_in[i];   /* no NaN: the comparator must be a strict weak order */
#endif
  return ok;
}
#endif
