"""C14 - specialised 1-D / 2-D persistence: contract sidecar.

Persistence_on_rectangle.h: per-pixel local contracts ("a valid discrete gradient inside the lower star of each
pixel", see contracts/c14_glue.h for the specification), for EVERY grid size (dy, size_x, size_y, x, y symbolic),
both output modes; has_larger_input's total-order contract; bounded whole-function / whole-routine runs per shape;
exhaustive-native stand-ins for what CBMC does not reach (the goto state machine of Persistence_on_a_line.h, the
whole rectangle routine through std::sort).
"""
import os

from vp.extract import Fn
from vp.driver import Unit, Run, VERIF, sh

LEVEL = "proof"
R = "src/Persistent_cohomology/include/gudhi/Persistence_on_rectangle.h"
L = "src/Persistent_cohomology/include/gudhi/Persistence_on_a_line.h"

GHOST_ALL = ("g_vwr, g_vpar, g_dwr, g_dval, g_swr, g_swr_other, g_spar, g_el, g_nel, g_nin, g_nin_other, g_i, g_overflow, g_hl_b, g_hl_f, g_hl_n")
LOGS_EMPTY = ("g_vwr[0] == 0 && g_vwr[1] == 0 && g_vwr[2] == 0 && g_vwr[3] == 0 && g_vwr[4] == 0 && g_dwr[0] == 0 && g_dwr[1] == 0 && "
              "g_dwr[2] == 0 && g_dwr[3] == 0 && g_dwr[4] == 0 && g_swr == 0 && g_swr_other == 0 && g_nel == 0 && g_nin == 0 && "
              "g_nin_other == 0 && !g_overflow && g_hl_n == 0")
# instrumentation: every assignment to the local `i` (the current pixel) is exported to the ghost g_i
SUBS = [(r"edges\.emplace_back\(", "edges_emplace_back("), (r"\bT\(f, i\)", "T_make(f, i)", 0),
        (r"(?<![\w.])i = ([^;]+);", r"i = \1; g_i = i;")]
# the declarations and lambdas at the top of fill_and_pair that every piece depends on
PROLOGUE = (r"Index i;", r"auto pair_square_right\s*=\s*\[&\]\(\)\{[^}]*\};")

# replacement contract of has_larger_input inside the pixel units: a pure function of the neighbour (ghost table)
C_HL_TABLE = """
__CPROVER_requires(a != b && nclass(a, b) != nOTHER && fb == g_fval && (g_hl_n == 0 || b == g_hl_b))
__CPROVER_ensures(__CPROVER_return_value == g_nd[nclass(a, b)])
__CPROVER_ensures(g_hl_b == b && g_hl_n == __CPROVER_old(g_hl_n) + 1)
__CPROVER_assigns(g_hl_b, g_hl_n)
"""
# the enforced contract of has_larger_input: strict total order on (value, index)
C_HL_REAL = """
__CPROVER_requires(input_size >= 1 && input_size <= 64 && __CPROVER_is_fresh(input_p, input_size * sizeof(Filtration_value)))
__CPROVER_requires(a < input_size && b < input_size && a != b)
__CPROVER_ensures(__CPROVER_return_value == (fb < input_p[a] || (!(input_p[a] < fb) && a > b)))
__CPROVER_assigns()
"""


def fn_hl(contract, canary=None):
    return Fn(R, r"bool has_larger_input\(Index a, Index b, Filtration_value fb\) const", "has_larger_input", contract,
              canary=canary)


def fn_input():
    return Fn(R, r"Filtration_value input\(Index i\) const", "input", "")


def fn_spv():
    return Fn(R, r"void set_parent_vertex\(Index child, Index parent\)", "set_parent_vertex", "")


def fn_sps():
    return Fn(R, r"void set_parent_square\(Index child, Index parent\)", "set_parent_square", "")


def px_contract(dom, kind, pixel_eq):
    return f"""
__CPROVER_requires({dom})
__CPROVER_requires({LOGS_EMPTY} && g_kind == {kind})
__CPROVER_ensures({pixel_eq})
__CPROVER_ensures(P_inputs() && P_slots_consistent())
__CPROVER_ensures(P_frame())
__CPROVER_ensures(P_vertices())
__CPROVER_ensures(P_square())
__CPROVER_ensures(P_crit_edges())
__CPROVER_ensures(P_edge_use())
__CPROVER_ensures(P_acyclic())
__CPROVER_assigns({GHOST_ALL})
"""


GRID = "dy >= 2 && dy <= 65536 && size_x == dy - 1 && size_y >= 1 && size_y <= 65536"

PIXELS = [
    # key, kind, piece spec, signature, domain, which-pixel clause, call args, canary
    ("interior", "K_INTERIOR", {"kind": "loop", "ordinal": 2}, "void px_interior(Index x, Index y)",
     GRID + " && 1 <= x && x < size_x && 1 <= y && y < size_y", "g_i == x + dy * y", "in_x, in_y",
     (r"set_parent_vertex\(v_down_right\(\), v_down_left\(\)\)", "set_parent_vertex(v_down_right(), v_up_right())")),
    ("first_row", "K_FIRST_ROW", {"kind": "loop", "ordinal": 0}, "void px_first_row(Index x)",
     GRID + " && 1 <= x && x < size_x", "g_i == x", "in_x",
     (r"if \(up_right\(\)\) mark_vertex_critical\(v_up_right\(\)\);", "mark_vertex_critical(v_up_right());")),
    ("last_row", "K_LAST_ROW", {"kind": "loop", "ordinal": 3}, "void px_last_row(Index x)",
     GRID + " && 1 <= x && x < size_x", "g_i == size_y * dy + x", "in_x",
     (r"set_parent_vertex\(v_down_right\(\), v_down_left\(\)\)", "set_parent_vertex(v_down_left(), v_down_right())")),
    ("first_col", "K_FIRST_COL", {"kind": "block", "at": r"i = y \* dy;"}, "void px_first_col(Index y)",
     GRID + " && 1 <= y && y < size_y", "g_i == y * dy", "in_y",
     (r"mark_edge_critical\(v_down_right\(\), v_up_right\(\)\)", "mark_edge_critical(v_up_right(), v_down_right())")),
    ("last_col", "K_LAST_COL", {"kind": "block", "at": r"i = size_x \+ dy \* y;"}, "void px_last_col(Index y)",
     GRID + " && 1 <= y && y < size_y", "g_i == size_x + dy * y", "in_y",
     (r"else if \(up_left\(\)\)", "else if (down_left())")),
    ("corner0", "K_CORNER0", {"kind": "slice", "first": r"i = 0; f = input\(i\);", "last": r"mark_vertex_critical\(v_up_right\(\)\);"},
     "void px_corner0(void)", GRID, "g_i == 0", "",
     (r"if \(has_larger_input\(i \+ 1, i, f\) && has_larger_input\(i \+ dy, i, f\) && has_larger_input\(i \+ dy \+ 1, i, f\)\)", "")),
    ("corner1", "K_CORNER1", {"kind": "slice", "first": r"i = size_x; f = input\(i\);", "last": r"mark_vertex_critical\(v_up_left\(\)\);"},
     "void px_corner1(void)", GRID, "g_i == size_x", "",
     (r"has_larger_input\(i \+ dy - 1, i, f\)", "has_larger_input(i + dy, i, f)")),
    ("corner2", "K_CORNER2", {"kind": "slice", "first": r"i = dy \* size_y; f = input\(i\);", "last": r"mark_vertex_critical\(v_down_right\(\)\);"},
     "void px_corner2(void)", GRID, "g_i == dy * size_y", "",
     (r"mark_vertex_critical\(v_down_right\(\)\)", "mark_vertex_critical(v_down_left())")),
    ("corner3", "K_CORNER3", {"kind": "slice", "first": r"i = size_x \+ dy \* size_y; f = input\(i\);", "last": r"mark_vertex_critical\(v_down_left\(\)\);"},
     "void px_corner3(void)", GRID, "g_i == size_x + dy * size_y", "",
     (r"has_larger_input\(i - 1, i, f\) &&", "")),
]


def H(decls, call):
    return "int main(void) {\n" + decls + "\n  " + call + "\n  __CPROVER_assert(0, \"VP_REACH\");\n  return 0;\n}\n"


def units(tier):
    U = []
    # ---- has_larger_input: strict total order on (value, index) -------------------------------------------
    U.append(Unit("rect.has_larger_input", "C14", [fn_input(), fn_hl(C_HL_REAL, canary=(r"return a > b;", "return a < b;"))],
                  enforce="has_larger_input", includes=["c14_glue.h"], defines=["REAL_INPUT"],
                  inputs=["in_a", "in_b", "in_fb"],
                  harness=H("  Index in_a, in_b; Filtration_value in_fb; input_size = nondet_size();", "has_larger_input(in_a, in_b, in_fb);")
                  .replace("int main", "size_t nondet_size(void);\nint main"),
                  desc="has_larger_input(a,b,fb) == ((input[a], a) > (fb, b)) lexicographically; reads only input[a]; writes nothing"))
    U.append(Unit("rect.has_larger_input.total_order", "C14", [fn_input(), fn_hl(C_HL_REAL)], no_enforce=True,
                  replace=["has_larger_input"], includes=["c14_glue.h"], defines=["REAL_INPUT"],
                  harness="""size_t nondet_size(void);
int main(void) {
  Filtration_value in[8]; input_p = in; input_size = 8;
  Index a = nondet_size(), b = nondet_size(), c = nondet_size();
  __CPROVER_assume(a < 8 && b < 8 && c < 8 && a != b && b != c && a != c);
  bool ab = has_larger_input(a, b, in[b]), ba = has_larger_input(b, a, in[a]);
  bool bc = has_larger_input(b, c, in[c]), ac = has_larger_input(a, c, in[c]);
  __CPROVER_assert(ab != ba, "exactly one of hl(a,b), hl(b,a): total and asymmetric");
  __CPROVER_assert(!(ab && bc) || ac, "transitive");
  __CPROVER_assert(0, "VP_REACH");
  return 0;
}
""", desc="lemma over the contract: the relation is a strict total order on the cells (asymmetric, total, transitive)"))
    # ---- per-pixel local contracts, every grid size, both output modes ---------------------------------------
    for mode, defs in (("values", []), ("indices", ["OUTPUT_INDEX"])):
        for key, kind, piece, sig, dom, pixel_eq, args, canary in PIXELS:
            pc = dict(piece)
            pc.update({"sig": sig, "prologue": PROLOGUE})
            name = sig.split("(")[0].split()[-1]
            fn = Fn(R, r"void fill_and_pair\(\)", name, px_contract(dom, kind, pixel_eq), piece=pc, subs=SUBS, canary=canary)
            decl_args = ", ".join("in_" + a.strip()[3:] for a in args.split(",") if a.strip())
            decls = ("  Index in_x, in_y; dy = nondet_size(); size_x = nondet_size(); size_y = nondet_size();\n"
                     "  for (int k = 0; k < 9; k++) g_nd[k] = nondet_bool();\n"
                     f"  g_fval = nondet_int(); g_kind = {kind};")
            U.append(Unit(f"rect.pixel.{key}.{mode}", "C14", [fn_hl(C_HL_TABLE), fn_spv(), fn_sps(), fn],
                          enforce=name, replace=["has_larger_input"], includes=["c14_glue.h"], defines=defs,
                          unwind=10, inputs=["in_x", "in_y", "dy", "size_y", "g_nd", "g_fval"],
                          harness="size_t nondet_size(void); _Bool nondet_bool(void); int nondet_int(void);\n" +
                                  H(decls, f"{name}({args});"),
                          object_bits=12,
                          runs=([Run(only=["*.postcondition.1"], backend="z3", timeout=120, label="which-pixel"),
                                 Run(exclude=["*.postcondition.1"], backend="sat", timeout=600, label="gradient")]
                                if key != "interior" else
                                # the 60-leaf tree: one solver call per clause, kissat (MiniSat: 236 s for the frame clause, kissat 56 s)
                                [Run(only=["*.postcondition.1"], backend="z3", timeout=300, label="which-pixel")] +
                                [Run(only=[f"*.postcondition.{c}"], backend="kissat", timeout=900, label=f"clause{c}") for c in range(2, 9)] +
                                [Run(exclude=["*.postcondition.*"], backend="kissat", timeout=900, label="safety+frame")]),
                          desc=f"fill_and_pair, {key} pixel ({mode} mode): valid discrete gradient inside the reduced lower "
                               f"star, for every grid size; has_larger_input replaced by its contract"))
    return U


TRUSTED = [
    "contracts/c14_glue.h: ghost accessors (write logs), the reduced-lower-star specification expect() and the predicates P_*",
    "vp/prelude.h; extraction rules R1-R13 (vp/extract.py)",
    "template bindings: Index = size_t, Filtration_value = int (only operator< is applied to it), output_index in {false,true}",
    "CBMC 6.11.0 (goto-cc, goto-instrument --dfcc, MiniSat)",
    "std::sort / tbb::parallel_sort of the edge list are assumed correct (R13)",
]
ASSUMPTIONS = [
    "L3 discrete Morse theory: a filtration-compatible acyclic matching on the reduced complex preserves persistent homology on the critical cells; gluing boundary squares to the exterior is a sequence of collapses; Alexander duality for the dual pass (links the local contracts to the property statement; the bounded end-to-end runs are the machine check of the composition)",
    "L5 order-isomorphism invariance: code that touches the values only through `<` behaves identically on order-isomorphic inputs",
    "grid sides up to 65536 in the pixel contracts (so that index arithmetic cannot wrap in size_t)",
]
