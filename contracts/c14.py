"""C14 - specialised 1-D / 2-D persistence: contract sidecar.

Persistence_on_rectangle.h: per-pixel local contracts ("a valid discrete gradient inside the lower star of each
pixel", see contracts/c14_glue.h for the specification), for EVERY grid size (dy, size_x, size_y, x, y symbolic),
both output modes; has_larger_input's total-order contract; bounded whole-function / whole-routine runs per shape;
exhaustive-native stand-ins for what CBMC does not reach (the goto state machine of Persistence_on_a_line.h, the
whole rectangle routine through std::sort).
"""
import os

from vp.extract import Fn, REPO
from vp.driver import Unit, Run, VERIF, sh

LEVEL = "proof"
R = "src/Persistent_cohomology/include/gudhi/Persistence_on_rectangle.h"
L = "src/Persistent_cohomology/include/gudhi/Persistence_on_a_line.h"

GHOST_ALL = ("g_vwr, g_vpar, g_dwr, g_dval, g_swr, g_swr_other, g_spar, g_el, g_nel, g_nin, g_nin_other, g_i, g_overflow, g_hl_b, g_hl_f, g_hl_n")
LOGS_EMPTY = ("g_vwr[0] == 0 && g_vwr[1] == 0 && g_vwr[2] == 0 && g_vwr[3] == 0 && g_vwr[4] == 0 && g_dwr[0] == 0 && g_dwr[1] == 0 && "
              "g_dwr[2] == 0 && g_dwr[3] == 0 && g_dwr[4] == 0 && g_swr == 0 && g_swr_other == 0 && g_nel == 0 && g_nin == 0 && "
              "g_nin_other == 0 && !g_overflow && g_hl_n == 0")
# instrumentation: every assignment to the local `i` (the current pixel) is exported to the ghost g_i
SUBS = [(r"edges\.emplace_back\(", "edges_emplace_back("), (r"\bT\(([^()]*)\)", r"T_make(\1)", 0),
        (r"(?<![\w.])i = ([^;]+);", r"i = \1; g_i = i;")]
# the declarations and lambdas at the top of fill_and_pair that every piece depends on
PROLOGUE = (r"Index i;", r"(?=\bi = [^;]*; f = input\(i\);)")   # everything declared before the first corner is handled

# replacement contract of has_larger_input inside the pixel units: a pure function of the neighbour (ghost table)
C_HL_TABLE = """
__CPROVER_requires(a != b && nclass(a, b) != nOTHER && fb == g_fval && (g_hl_n == 0 || b == g_hl_b))
__CPROVER_ensures(__CPROVER_return_value == g_nd[nclass(a, b)])
__CPROVER_ensures(g_hl_b == b && g_hl_n == __CPROVER_old(g_hl_n) + 1)
__CPROVER_assigns(g_hl_b, g_hl_n)
"""
# the enforced contract of has_larger_input: strict total order on (value, index)
C_HL_REAL = """
__CPROVER_requires(input_size >= 1 && input_size <= 64 && __CPROVER_is_fresh(input_p, input_size * sizeof(Filtration_value)))
__CPROVER_requires(a < input_size && b < input_size && a != b)
__CPROVER_ensures(__CPROVER_return_value == (fb < input_p[a] || (!(input_p[a] < fb) && a > b)))
__CPROVER_assigns()
"""


def fn_hl(contract, canary=None):
    return Fn(R, r"bool has_larger_input\(Index a, Index b, Filtration_value fb\) const", "has_larger_input", contract,
              canary=canary)


def fn_input():
    return Fn(R, r"Filtration_value input\(Index i\) const", "input", "")


def fn_spv():
    return Fn(R, r"void set_parent_vertex\(Index child, Index parent\)", "set_parent_vertex", "")


def fn_sps():
    return Fn(R, r"void set_parent_square\(Index child, Index parent\)", "set_parent_square", "")


def px_contract(dom, kind, pixel_eq):
    return f"""
__CPROVER_requires({dom})
__CPROVER_requires({LOGS_EMPTY} && g_kind == {kind})
__CPROVER_ensures({pixel_eq})
__CPROVER_ensures(P_inputs() && P_slots_consistent())
__CPROVER_ensures(P_frame())
__CPROVER_ensures(P_vertices())
__CPROVER_ensures(P_square())
__CPROVER_ensures(P_crit_edges())
__CPROVER_ensures(P_edge_use())
__CPROVER_ensures(P_acyclic())
__CPROVER_assigns({GHOST_ALL})
"""


GRID = "dy >= 2 && dy <= 65536 && size_x == dy - 1 && size_y >= 1 && size_y <= 65536"

PIXELS = [
    # key, kind, piece spec, signature, domain, which-pixel clause, call args, canary
    ("interior", "K_INTERIOR", {"kind": "loop", "ordinal": 2}, "void px_interior(Index x, Index y)",
     GRID + " && 1 <= x && x < size_x && 1 <= y && y < size_y", "g_i == x + dy * y", "in_x, in_y",
     (r"set_parent_vertex\(v_down_right\(\), v_down_left\(\)\)", "set_parent_vertex(v_down_right(), v_up_right())")),
    ("first_row", "K_FIRST_ROW", {"kind": "loop", "ordinal": 0}, "void px_first_row(Index x)",
     GRID + " && 1 <= x && x < size_x", "g_i == x", "in_x",
     (r"if \(up_right\(\)\) mark_vertex_critical\(v_up_right\(\)\);", "mark_vertex_critical(v_up_right());")),
    ("last_row", "K_LAST_ROW", {"kind": "loop", "ordinal": 3}, "void px_last_row(Index x)",
     GRID + " && 1 <= x && x < size_x", "g_i == size_y * dy + x", "in_x",
     (r"set_parent_vertex\(v_down_right\(\), v_down_left\(\)\)", "set_parent_vertex(v_down_left(), v_down_right())")),
    ("first_col", "K_FIRST_COL", {"kind": "bare_block", "in_loop": 1, "ordinal": 0}, "void px_first_col(Index y)",
     GRID + " && 1 <= y && y < size_y", "g_i == y * dy", "in_y",
     (r"mark_edge_critical\(v_down_right\(\), v_up_right\(\)\)", "mark_edge_critical(v_up_right(), v_down_right())")),
    ("last_col", "K_LAST_COL", {"kind": "bare_block", "in_loop": 1, "ordinal": 1}, "void px_last_col(Index y)",
     GRID + " && 1 <= y && y < size_y", "g_i == size_x + dy * y", "in_y",
     (r"else if \(up_left\(\)\)", "else if (down_left())")),
    ("corner0", "K_CORNER0", {"kind": "slice", "first": r"i = [^;]*; f = input\(i\);", "nth": 0, "after": True, "last": r";"},
     "void px_corner0(void)", GRID, "g_i == 0", "",
     (r"if \(has_larger_input\(i \+ 1, i, f\) && has_larger_input\(i \+ dy, i, f\) && has_larger_input\(i \+ dy \+ 1, i, f\)\)", "")),
    ("corner1", "K_CORNER1", {"kind": "slice", "first": r"i = [^;]*; f = input\(i\);", "nth": 1, "after": True, "last": r";"},
     "void px_corner1(void)", GRID, "g_i == size_x", "",
     (r"has_larger_input\(i \+ dy - 1, i, f\)", "has_larger_input(i + dy, i, f)")),
    ("corner2", "K_CORNER2", {"kind": "slice", "first": r"i = [^;]*; f = input\(i\);", "nth": 2, "after": True, "last": r";"},
     "void px_corner2(void)", GRID, "g_i == dy * size_y", "",
     (r"mark_vertex_critical\(v_down_right\(\)\)", "mark_vertex_critical(v_down_left())")),
    ("corner3", "K_CORNER3", {"kind": "slice", "first": r"i = [^;]*; f = input\(i\);", "nth": 3, "after": True, "last": r";"},
     "void px_corner3(void)", GRID, "g_i == size_x + dy * size_y", "",
     (r"has_larger_input\(i - 1, i, f\) &&", "")),
]


NATIVE_RESULTS = []


def replay_by_native_search(unit, failure):
    """A refuted local (per-pixel) obligation has no input-level counterexample of its own: the eight neighbour
    answers are abstract.  The failing input is searched for among every weak order of the small grids - the
    exhaustive-native sweep of the same run (real template from /repo vs Bitmap_cubical_complex + cohomology)."""
    for n in NATIVE_RESULTS:
        if n["unit"].startswith("native.rect") and n.get("failures"):
            c = n["failures"][0]
            return {"reproduced": True, "detail": f"{n['unit']}: real routine differs from cubical persistence on input {c.get('input')}",
                    "native_case": c}
    return {"reproduced": None, "detail": "no weak order of the swept grids makes the real routine differ from cubical persistence"}


def H(decls, call):
    return "int main(void) {\n" + decls + "\n  " + call + "\n  __CPROVER_assert(0, \"VP_REACH\");\n  return 0;\n}\n"


def units(tier):
    U = []
    # ---- has_larger_input: strict total order on (value, index) -------------------------------------------
    U.append(Unit("rect.has_larger_input", "C14", [fn_input(), fn_hl(C_HL_REAL, canary=(r"return a > b;", "return a < b;"))],
                  enforce="has_larger_input", includes=["c14_glue.h"], defines=["REAL_INPUT"],
                  inputs=["in_a", "in_b", "in_fb"],
                  harness=H("  Index in_a, in_b; Filtration_value in_fb; input_size = nondet_size();", "has_larger_input(in_a, in_b, in_fb);")
                  .replace("int main", "size_t nondet_size(void);\nint main"),
                  desc="has_larger_input(a,b,fb) == ((input[a], a) > (fb, b)) lexicographically; reads only input[a]; writes nothing"))
    U.append(Unit("rect.has_larger_input.double", "C14", [fn_input(), fn_hl(C_HL_REAL.replace("a < input_size && b < input_size && a != b", "a < input_size && b < input_size && a != b && !__CPROVER_isnand(fb) && !__CPROVER_isnand(input_p[a])"),
                                                                           canary=(r"return a > b;", "return a < b;"))],
                  enforce="has_larger_input", includes=["c14_glue.h"], defines=["REAL_INPUT", "FV_DOUBLE"], inputs=["in_a", "in_b", "in_fb"],
                  harness=H("  Index in_a, in_b; Filtration_value in_fb; input_size = nondet_size();", "has_larger_input(in_a, in_b, in_fb);")
                  .replace("int main", "size_t nondet_size(void);\nint main"),
                  desc="has_larger_input with Filtration_value = double (the instantiation the library uses), non-NaN values: the same strict order on (value, index)"))
    U.append(Unit("rect.has_larger_input.total_order", "C14", [fn_input(), fn_hl(C_HL_REAL)], no_enforce=True,
                  replace=["has_larger_input"], includes=["c14_glue.h"], defines=["REAL_INPUT"],
                  harness="""size_t nondet_size(void);
int main(void) {
  Filtration_value in[8]; input_p = in; input_size = 8;
  Index a = nondet_size(), b = nondet_size(), c = nondet_size();
  __CPROVER_assume(a < 8 && b < 8 && c < 8 && a != b && b != c && a != c);
  bool ab = has_larger_input(a, b, in[b]), ba = has_larger_input(b, a, in[a]);
  bool bc = has_larger_input(b, c, in[c]), ac = has_larger_input(a, c, in[c]);
  __CPROVER_assert(ab != ba, "exactly one of hl(a,b), hl(b,a): total and asymmetric");
  __CPROVER_assert(!(ab && bc) || ac, "transitive");
  __CPROVER_assert(0, "VP_REACH");
  return 0;
}
""", desc="lemma over the contract: the relation is a strict total order on the cells (asymmetric, total, transitive)"))
    # ---- per-pixel local contracts, every grid size, both output modes ---------------------------------------
    for mode, defs in (("values", []), ("indices", ["OUTPUT_INDEX"])):
        for key, kind, piece, sig, dom, pixel_eq, args, canary in PIXELS:
            pc = dict(piece)
            pc.update({"sig": sig, "prologue": PROLOGUE})
            name = sig.split("(")[0].split()[-1]
            fn = Fn(R, r"void fill_and_pair\(\)", name, px_contract(dom, kind, pixel_eq), piece=pc, subs=SUBS, canary=canary)
            decl_args = ", ".join("in_" + a.strip()[3:] for a in args.split(",") if a.strip())
            decls = ("  Index in_x, in_y; dy = nondet_size(); size_x = nondet_size(); size_y = nondet_size();\n"
                     "  for (int k = 0; k < 9; k++) g_nd[k] = nondet_bool();\n"
                     f"  g_fval = nondet_int(); g_kind = {kind};")
            U.append(Unit(f"rect.pixel.{key}.{mode}", "C14", [fn_hl(C_HL_TABLE), fn_spv(), fn_sps(), fn],
                          enforce=name, replace=["has_larger_input"], includes=["c14_glue.h"], defines=defs,
                          unwind=10, inputs=["in_x", "in_y", "dy", "size_y", "g_nd", "g_fval"], replay=replay_by_native_search,
                          harness="size_t nondet_size(void); _Bool nondet_bool(void); int nondet_int(void);\n" +
                                  H(decls, f"{name}({args});"),
                          object_bits=12,
                          runs=([Run(only=["*.postcondition.1"], backend="z3", timeout=120, label="which-pixel"),
                                 Run(exclude=["*.postcondition.1"], backend="kissat", timeout=600, label="gradient")]
                                if key != "interior" else
                                # the 60-leaf tree: one solver call per clause, kissat (MiniSat: 236 s for the frame clause, kissat 56 s)
                                [Run(only=["*.postcondition.1"], backend="z3", timeout=300, label="which-pixel")] +
                                [Run(only=[f"*.postcondition.{c}"], backend="kissat", timeout=900, label=f"clause{c}") for c in range(2, 9)] +
                                [Run(exclude=["*.postcondition.*"], backend="kissat", timeout=900, label="safety+frame")]),
                          desc=f"fill_and_pair, {key} pixel ({mode} mode): valid discrete gradient inside the reduced lower "
                               f"star, for every grid size; has_larger_input replaced by its contract"))
    return U


TRUSTED = [
    "contracts/c14_glue.h: ghost accessors (write logs), the reduced-lower-star specification expect() and the predicates P_*",
    "vp/prelude.h; extraction rules R1-R13 (vp/extract.py)",
    "template bindings: Index = size_t, Filtration_value = int (only operator< is applied to it), output_index in {false,true}",
    "CBMC 6.11.0 (goto-cc, goto-instrument --dfcc, MiniSat)",
    "std::sort / tbb::parallel_sort of the edge list are assumed correct (R13)",
]
ASSUMPTIONS = [
    "L3 discrete Morse theory: a filtration-compatible acyclic matching on the reduced complex preserves persistent homology on the critical cells; gluing boundary squares to the exterior is a sequence of collapses; Alexander duality for the dual pass (links the local contracts to the property statement; the bounded end-to-end runs are the machine check of the composition)",
    "L5 order-isomorphism invariance: code that touches the values only through `<` behaves identically on order-isomorphic inputs",
    "grid sides up to 65536 in the pixel contracts (so that index arithmetic cannot wrap in size_t)",
]


# ------------------------------------------------------------------------------------------------ native stand-ins
INC = ["-I" + REPO + "/src/Persistent_cohomology/include", "-I" + REPO + "/src/Bitmap_cubical_complex/include",
       "-I" + REPO + "/src/common/include"]


def _build_native(name, bdir, extra=()):
    import time
    src = os.path.join(VERIF, "native", name + ".cpp")
    out = os.path.join(bdir, name + ("_san" if extra else ""))
    os.makedirs(bdir, exist_ok=True)
    rc, o, e, s = sh(["g++", "-std=c++17", "-O2", "-w"] + list(extra) + INC + [src, "-o", out], 600, mem_kb=16 * 1024 * 1024)
    if rc != 0:
        raise RuntimeError(f"native build of {name} failed: {(o + e)[-1500:]}")
    return out


def native(tier, seed, bdir, only=None):
    """exhaustive-native stand-ins (DESIGN route N): the real templates compiled from /repo's current tree, run on
    every weak order of small inputs.  Labelled bounded; never counted as proved."""
    import concurrent.futures as cf
    import fnmatch
    import json
    import time
    thorough = tier == "thorough"
    out = []
    jobs = []   # (unit id, desc, bound, binary key, args list of shards)
    NS = 16
    rect_shapes = [(2, 2), (2, 3), (3, 2), (2, 4), (4, 2), (3, 3)]
    for r, c in rect_shapes:
        sh_n = 1 if r * c <= 6 else NS
        jobs.append((f"native.rect.{r}x{c}", f"persistence_on_rectangle_from_top_cells, every weak order of a {r}x{c} grid, values and index mode, vs Bitmap_cubical_complex + Persistent_cohomology",
                     f"grid {r}x{c}; every weak order (exhaustive for the shape)", "rect_sweep",
                     [[str(r), str(c), str(k), str(sh_n)] for k in range(sh_n)], f"min(rows,cols)=={min(r, c)}"))
    big = [(3, 4, 40000), (4, 3, 40000), (2, 7, 20000), (5, 5, 5000)] if not thorough else \
          [(3, 4, 600000), (4, 3, 600000), (4, 4, 200000), (2, 9, 200000), (9, 2, 200000), (5, 5, 100000), (6, 7, 20000)]
    for r, c, cnt in big:
        per = cnt // NS
        jobs.append((f"native.rect.{r}x{c}.sampled", f"same, {cnt} weak orders of a {r}x{c} grid sampled from VERIF_SEED (not exhaustive)",
                     f"grid {r}x{c}; {cnt} sampled weak orders", "rect_sweep",
                     [[str(r), str(c), "random", str(seed * 1000 + k), str(per)] for k in range(NS)], f"min(rows,cols)=={min(r, c)}"))
    nmax = 9 if thorough else 8
    for n in range(1, nmax + 1):
        sh_n = 1 if n <= 7 else NS
        jobs.append((f"native.line.n{n}", f"compute_persistence_of_function_on_line, every weak order of length {n}, std::less and std::greater, vs elder-rule union-find and (for less) Bitmap_cubical_complex + Persistent_cohomology",
                     f"length {n}; every weak order", "line_sweep", [[str(n), str(k), str(sh_n)] for k in range(sh_n)], "line"))
    san_n = 7 if thorough else 6
    for n in range(1, san_n + 1):
        jobs.append((f"native.line.n{n}.sanitized", f"same under -fsanitize=address,undefined -D_GLIBCXX_ASSERTIONS: no data.end()[-k] / erase / pop_back leaves the vector",
                     f"length {n}; every weak order; ASan+UBSan build", "line_sweep_san", [[str(n), "0", "1"]], "line"))
    if only:
        jobs = [j for j in jobs if fnmatch.fnmatch(j[0], only)]
    if not jobs:
        return out
    try:
        bins = {"rect_sweep": _build_native("rect_sweep", bdir), "line_sweep": _build_native("line_sweep", bdir)}
        bins["line_sweep_san"] = _build_native("line_sweep", bdir, ["-fsanitize=address,undefined", "-D_GLIBCXX_ASSERTIONS", "-fno-sanitize-recover=all", "-O1"])
    except RuntimeError as ex:
        return [{"unit": "native.build", "status": "error", "notes": str(ex), "cases": 0, "failures": []}]

    def one(args):
        key, a = args
        t0 = time.time()
        rc, o, e, s = sh([bins[key]] + a, 3600, mem_kb=None if key.endswith("san") else 8 * 1024 * 1024)
        return rc, o, e, time.time() - t0

    with cf.ThreadPoolExecutor(max_workers=16) as ex:
        futs = {j[0]: [ex.submit(one, (j[3], a)) for a in j[4]] for j in jobs}
        for uid, desc, bound, key, shards, iclass in jobs:
            rec = {"unit": uid, "route": "B", "kind": "exhaustive-native", "bound": bound, "desc": desc, "status": "ok",
                   "cases": 0, "failures": [], "seconds": 0.0, "obligations": 0}
            for f in futs[uid]:
                rc, o, e, s = f.result()
                rec["seconds"] = round(rec["seconds"] + s, 2)
                try:
                    js = json.loads(o.strip().split("\n")[-1])
                except (ValueError, IndexError):
                    rec["status"] = "error"
                    rec["notes"] = f"native run failed rc={rc}: {(o + e)[-800:]}"
                    continue
                if "crash_signal" in json.dumps(js["first"]):
                    rec["crashed"] = True
                rec["cases"] += js["checked"]
                rec["obligations"] = rec["cases"]
                for k, m in enumerate(js["first"]):
                    if len(rec["failures"]) < 3:
                        m["id"] = f"case{len(rec['failures'])}"
                        m["input_class"] = iclass
                        m["replay_cmd"] = f"{bins[key]} (rebuild: g++ -std=c++17 {' '.join(INC)} native/{key.replace('_san', '')}.cpp); input {m['input']}"
                        rec["failures"].append(m)
                rec["mismatches"] = rec.get("mismatches", 0) + js["mismatches"]
            out.append(rec)
    return out


def selftest():
    import tempfile
    try:
        d = tempfile.mkdtemp(prefix="c14st", dir=os.path.join(VERIF, "build") if os.path.isdir(os.path.join(VERIF, "build")) else None)
        _build_native("rect_sweep", d)
        _build_native("line_sweep", d)
        import shutil
        shutil.rmtree(d, ignore_errors=True)
        return "native stand-ins build against /repo's headers"
    except Exception as ex:
        return "FAIL " + str(ex)[:500]


# ------------------------------------------------------------------------------------------------ union-find passes
def uf_units():
    U = []
    # ds_find_set_ (path halving), forest of at most 8 nodes (bounded)
    con = """
__CPROVER_requires(g_n >= 1 && g_n <= NV && v < g_n && forest_ok(P_, g_n))
__CPROVER_requires(g_q < g_n && g_r0 == root_of(P_, g_q) && g_rv == root_of(P_, v))
__CPROVER_ensures(__CPROVER_return_value == g_rv && P_[__CPROVER_return_value] == __CPROVER_return_value)
__CPROVER_ensures(root_of(P_, g_q) == g_r0)
__CPROVER_ensures(P_[g_q] < g_n)
__CPROVER_assigns(P_)
"""
    G = '#include "c14b_glue.h"\nIndex P_[NV]; Index g_n, g_q, g_r0, g_rv;\n#define ds_parent(i) (P_[(i)])\nsize_t nondet_size(void); unsigned nondet_uint(void);\n'
    fn = Fn(R, r"Index ds_find_set_\(Index v, Parent&&ds_parent\)", "ds_find_set_", con,
            sig_subs=[(r", Parent&&ds_parent", "")], canary=(r"v = grandparent;", "v = parent; ds_parent(v) = v;"))
    U.append(Unit("rect.ds_find_set", "C14", [fn], enforce="ds_find_set_", globals_=G, unwind=NVW + 2, route="B", defines=["NV=5"],
                  bound="forests with at most 5 nodes (any shape, any start node)", inputs=["in_v", "g_n", "P_"],
                  harness=H("  Index in_v = nondet_size(); g_n = nondet_size(); g_q = nondet_size();\n"
                            "  for (int i = 0; i < NV; i++) { P_[i] = nondet_size(); g_depth[i] = nondet_uint(); }\n"
                            "  __CPROVER_assume(g_n >= 1 && g_n <= NV && g_q < g_n && in_v < g_n && forest_ok(P_, g_n));\n"
                            "  g_r0 = root_of(P_, g_q); g_rv = root_of(P_, in_v);", "ds_find_set_(in_v);"),
                  runs=[Run(backend="kissat", timeout=600)],
                  desc="ds_find_set_ (path halving): returns the root of v; every node keeps its root (the partition is unchanged); parents stay in range"))
    # abstract contract of ds_find_set_vertex/square used by the passes: the root function (ghost table); parents
    # may change but roots do not (proved above for <= 8 nodes)
    for mode, defs in (("values", []), ("indices", ["OUTPUT_INDEX"])):
        GP = '#include "c14b_glue.h"\nIndex g_rootv[NV]; Index g_roots[NV];\nsize_t nondet_size(void); int nondet_int(void);\n'
        find_v = """
static Index ds_find_set_vertex(Index v)
__CPROVER_requires(v < NV)
__CPROVER_ensures(__CPROVER_return_value == g_rootv[v])
__CPROVER_assigns()
{ return g_rootv[v]; }
static Index ds_find_set_square(Index v)
__CPROVER_requires(v < NV)
__CPROVER_ensures(__CPROVER_return_value == g_roots[v])
__CPROVER_assigns()
{ return g_roots[v]; }
"""
        con_p = """
__CPROVER_requires(e->v1 < e->v2 && e->v2 < NV && g_out_n == 0 && g_rootv[e->v1] < NV && g_rootv[e->v2] < NV)
__CPROVER_ensures(__CPROVER_return_value == (g_rootv[e->v1] != g_rootv[e->v2]))
__CPROVER_ensures(g_out_n == (__CPROVER_return_value ? 1u : 0u))
__CPROVER_ensures(!__CPROVER_return_value || elder_rule_ok(g_rootv[e->v1], g_rootv[e->v2], T_OUT(e->f)))
__CPROVER_assigns(ds_parent_v_, g_out_b, g_out_d, g_out_n)
"""
        spec_p = """
/* elder rule: of the two roots the younger one (larger (value[, index])) is attached under the elder, nothing else
 * is re-parented, and (birth of the younger, value of the edge) is emitted */
Index g_pv0[NV];
static bool elder_rule_ok(Index ra, Index rb, long edge_val) {
  Index young = T_LESS(data_v_[rb], data_v_[ra]) ? ra : rb, old = young == ra ? rb : ra;
  bool ok = ds_parent_v_[young] == old && g_out_b == T_OUT(data_v_[young]) && g_out_d == edge_val;
  for (Index i = 0; i < NV; i++) if (i != young) ok = ok && ds_parent_v_[i] == g_pv0[i];
  return ok;
}
"""
        fn_p = Fn(R, r"void primal\(Out&&out\)", "primal_body", con_p,
                  piece={"kind": "slice", "first": r"assert\(e\.v1 < e\.v2\);", "last": r"return true;", "sig": "bool primal_body(struct Edge* e)", "byref": ["e"]},
                  subs=[(r"std::swap\(a, b\)", "VP_SWAP_I(a, b)"), (r"data_vertex\(b\) < data_vertex\(a\)", "T_LESS(data_vertex(b), data_vertex(a))"),
                        (r"data_vertex\(b\)\.out\(\)", "T_OUT(data_vertex(b))"), (r"\(\*e\)\.f\.out\(\)", "T_OUT((*e).f)")],
                  canary=(r"T_LESS\(data_vertex\(b\), data_vertex\(a\)\)", "T_LESS(data_vertex(a), data_vertex(b))"))
        U.append(Unit(f"rect.primal_body.{mode}", "C14", [GP_FIND := find_v, spec_p, fn_p], enforce="primal_body", globals_=GP, defines=defs, unwind=NVW + 2,
                      inputs=["in_e", "g_rootv", "data_v_"],
                      harness=H("  struct Edge in_e; in_e.v1 = nondet_size(); in_e.v2 = nondet_size(); in_e.f.first = nondet_int();\n"
                                "  for (int i = 0; i < NV; i++) { g_rootv[i] = nondet_size(); ds_parent_v_[i] = nondet_size(); g_pv0[i] = ds_parent_v_[i]; data_v_[i].first = nondet_int(); }\n"
                                "  g_out_n = 0;", "primal_body(&in_e);"),
                      desc=f"primal pass, one edge ({mode} mode): if its end points lie in different components the younger root is attached under the elder and (its birth, the edge value) is emitted exactly once; otherwise nothing happens"))
        con_d = """
__CPROVER_requires(e.v1 < e.v2 && e.v1 + (dy + 1) < NV && e.v2 < NV && dy < NV && g_out_n == 0)
__CPROVER_requires(g_roots[e.v2] < NV && g_roots[e.v1 + (dy + 1)] < NV && g_roots[e.v2] != g_roots[e.v1 + (dy + 1)])
__CPROVER_ensures(g_out_n == 1 && dual_rule_ok(g_roots[e.v2], g_roots[e.v1 + (dy + 1)], T_OUT(e.f)))
__CPROVER_assigns(ds_parent_s_, g_out_b, g_out_d, g_out_n)
"""
        spec_d = """
/* dual elder rule (squares as vertices, values reversed, the exterior cell 0 is the eldest): of the two roots the
 * one that is NOT the exterior and has the smaller input value is attached under the other; (edge value, that
 * root['s value]) is emitted */
Index g_ps0[NV];
static bool dual_rule_ok(Index ra, Index rb, long edge_val) {
  /* b (the one that dies) must not be the exterior cell 0; between two interior roots the one with the smaller value dies */
  Index dies, lives;
  if (ra == 0) { dies = rb; lives = ra; } else if (rb == 0) { dies = ra; lives = rb; }
  else if (g_input[ra] < g_input[rb]) { dies = ra; lives = rb; } else { dies = rb; lives = ra; }
  bool ok = ds_parent_s_[dies] == lives && g_out_b == edge_val;
#ifdef OUTPUT_INDEX
  ok = ok && g_out_d == (long)dies;
#else
  ok = ok && g_out_d == (long)g_input[dies];
#endif
  for (Index i = 0; i < NV; i++) if (i != dies) ok = ok && ds_parent_s_[i] == g_ps0[i];
  return ok;
}
"""
        dual_e = Fn(R, r"void dualize_edge\(Edge& e\) const", "dualize_edge", "", sig_subs=[(r"Edge&", "struct Edge&")])
        fn_d = Fn(R, r"void dual\(Out&&out\)", "dual_body", con_d,
                  piece={"kind": "loop", "ordinal": 0, "sig": "void dual_body(struct Edge e)"},
                  constexpr=[(r"output_index", mode == "indices")],
                  subs=[(r"std::swap\(a, b\)", "VP_SWAP_I(a, b)"), (r"dualize_edge\(e\)", "dualize_edge(&e)"), (r"e\.f\.out\(\)", "T_OUT(e.f)")],
                  canary=(r"input\(a\) < input\(b\)", "input(b) < input(a)"))
        U.append(Unit(f"rect.dual_body.{mode}", "C14", [find_v, spec_d, dual_e, fn_d], enforce="dual_body", globals_=GP, defines=defs, unwind=NVW + 2,
                      inputs=["in_e", "g_roots", "g_input", "dy"],
                      harness=H("  struct Edge in_e; in_e.v1 = nondet_size(); in_e.v2 = nondet_size(); in_e.f.first = nondet_int(); dy = nondet_size();\n"
                                "  for (int i = 0; i < NV; i++) { g_roots[i] = nondet_size(); ds_parent_s_[i] = nondet_size(); g_ps0[i] = ds_parent_s_[i]; g_input[i] = nondet_int(); }\n"
                                "  g_out_n = 0;", "dual_body(in_e);"),
                      desc=f"dual pass, one edge ({mode} mode): the two squares across the edge lie in different components (GUDHI_CHECK); the root that is not the exterior and has the smaller value is attached under the other and (edge value, its value) is emitted exactly once"))
    return U


NVW = 8
_units_local = units


def units(tier):   # noqa: F811
    return _units_local(tier) + uf_units()


def whole_units(tier):
    """fill_and_pair as a whole on concrete shapes: loop structure + every array access + ownership of every vertex"""
    U = []
    shapes = [(2, 2), (2, 3), (3, 2), (3, 3)] + ([(2, 4), (4, 2), (3, 4), (4, 3), (4, 4)] if tier == "thorough" else [])
    for r, c in shapes:
        con = """
__CPROVER_requires(size_x == GC - 1 && size_y == GR - 1 && dy == GC && input_size == NSQ && g_nedges == 0 && vals_ok() && counters_zero())
__CPROVER_ensures(P_whole())
__CPROVER_assigns(ds_parent_v_, ds_parent_s_, data_v_, g_vwr, g_swr, g_edges, g_nedges, g_vowner, g_cur)
"""
        G = ("static bool vals_ok(void) { bool ok = true; for (Index k = 0; k < NSQ; k++) ok = ok && g_in[k] >= 0 && g_in[k] < NSQ; return ok; }\n"
             "static bool counters_zero(void) { bool ok = true; for (Index k = 0; k < NSQ; k++) ok = ok && g_vwr[k] == 0 && g_swr[k] == 0; return ok; }\n"
             "int nondet_int(void);\n")
        fn = Fn(R, r"void fill_and_pair\(\)", "fill_and_pair", con, subs=SUBS[:2] + [(r"(?<![\w.])i = ([^;]+);", r"i = \1; g_cur = i;")],
                canary=(r"x < size_x; \+\+x\) \{\s*i = x;", "x <= size_x; ++x) { i = x;"))
        U.append(Unit(f"rect.fill_and_pair.whole.{r}x{c}", "C14", [fn_hl(""), fn_spv(), fn_sps(), fn], enforce="fill_and_pair", includes=["c14c_glue.h"],
                      defines=[f"GR={r}", f"GC={c}"], globals_=G, unwind=2 * r * c + 3, route="B", object_bits=10,
                      bound=f"grid {r}x{c}; every weak order of the cell values (values in 0..{r * c - 1}, lemma L5)", inputs=["g_in"],
                      replay=replay_by_native_search,
                      harness=H("  for (int k = 0; k < NSQ; k++) { g_in[k] = nondet_int(); g_vwr[k] = 0; g_swr[k] = 0; }\n"
                                "  size_x = GC - 1; size_y = GR - 1; dy = GC; input_size = NSQ; g_nedges = 0;", "fill_and_pair();"),
                      runs=[Run(backend="kissat", timeout=900 if r * c <= 12 else 3000)],
                      desc=f"fill_and_pair as a whole on a {r}x{c} grid (all loops unrolled, real has_larger_input): every array access in range, every vertex of the reduced complex written exactly once and by the smallest of its four squares, interior squares once, boundary squares never"))
    return U


_units_uf = units


def units(tier):   # noqa: F811
    return _units_uf(tier) + whole_units(tier)


def init_units():
    """Persistence_on_rectangle::init: the grid geometry every other contract assumes (size_x == dy - 1, ...), and
    the three arrays hold exactly one slot per vertex / square of the reduced complex"""
    G = ("typedef size_t Index; typedef int Filtration_value;\nconst Filtration_value* input_p; Index size_x, size_y, input_size, dy;\n"
         "Index g_alloc_dv, g_alloc_pv, g_alloc_ps;\nsize_t nondet_size(void);\n")
    con = """
__CPROVER_requires(n_rows >= 2 && n_cols >= 2 && n_rows <= 65536 && n_cols <= 65536)
__CPROVER_ensures(dy == n_cols && size_x == n_cols - 1 && size_y == n_rows - 1 && input_p == input_)
__CPROVER_ensures(input_size == n_rows * n_cols)
__CPROVER_ensures(g_alloc_dv == g_alloc_pv && g_alloc_ps == input_size)
__CPROVER_ensures(g_alloc_dv == (size_x - 1) + dy * (size_y - 1) + 1)
__CPROVER_assigns(input_p, size_x, size_y, input_size, dy, g_alloc_dv, g_alloc_pv, g_alloc_ps)
"""
    fn = Fn(R, r"void init\(const Filtration_value\* input_, Index n_rows, Index n_cols\)", "init", con,
            subs=[(r"data_v_\.reset\(new T\[([^\]]*)\]\);", r"g_alloc_dv = \1;"), (r"ds_parent_v_\.reset\(new Index\[([^\]]*)\]\);", r"g_alloc_pv = \1;"),
                  (r"ds_parent_s_\.resize\(([^;]*)\);", r"g_alloc_ps = \1;"), (r"edges\.reserve\([^;]*\);", "", 0)],
            canary=(r"size_y = n_rows - 1;", "size_y = n_rows;"))
    return [Unit("rect.init", "C14", [fn], enforce="init", globals_=G, inputs=["in_r", "in_c"],
                 harness=H("  Index in_r = nondet_size(), in_c = nondet_size(); Filtration_value buf[4];", "init(buf, in_r, in_c);"),
                 runs=[Run(only=["*.postcondition.2", "*.postcondition.4"], backend="z3", timeout=120, label="products"),
                       Run(exclude=["*.postcondition.2", "*.postcondition.4"], backend="sat", timeout=120, label="rest")],
                 desc="init: dy = n_cols, size_x = n_cols - 1, size_y = n_rows - 1, input_size = n_rows * n_cols; the vertex arrays get exactly one slot per vertex of the reduced complex (largest vertex index + 1), the square array one per input cell")]


_units_whole = units


def units(tier):   # noqa: F811
    return _units_whole(tier) + init_units()


# ------------------------------------------------------------------------------------------------ premise of lemma L5
def l5_guard():
    """Lemma L5 (order-isomorphism invariance) is used to restrict values to {0..N-1} in the whole-function units and
    to make weak-order enumeration complete in the native sweeps.  Its premise - the routines touch the values only
    through comparisons - is checked on /repo's current text on every run: no arithmetic operator may be applied to a
    value-typed expression in Persistence_on_rectangle.h / Persistence_on_a_line.h."""
    import re
    from vp.extract import _stripped, ExtractionError
    bad = []
    txt = _stripped(R)
    a = txt.index("struct Persistence_on_rectangle")
    body = txt[a:]
    val = r"(?:\bf\b|\bfa\b|\bfb\b|\binput\([^()]*\)|\.first\b|\bfilt\(\))"
    for m in re.finditer(rf"{val}\s*(?:[-+*/%](?![-+>=])|\+\+|--)|(?<![-+<>=!&|(,\s])\s*[-+*/%]\s*{val}", body):
        ctx = body[max(0, m.start() - 30):m.end() + 30].replace("\n", " ")
        if "input_size" in ctx or "input_p" in ctx:
            continue
        bad.append("rectangle: " + ctx)
    txt = _stripped(L)
    a = txt.index("compute_persistence_of_function_on_line")
    body = re.sub(r"data\.end\(\)\[-\d\]", "DATA_END_K", txt[a:])
    body = re.sub(r"data\.end\(\)\s*-\s*\d", "DATA_END_MINUS_K", body)
    val = r"(?:\bv\b|\bdata\[[^\]]*\]|\bdata\.back\(\)|DATA_END_K|\*it)"
    for m in re.finditer(rf"{val}\s*(?:[-+*/%](?![-+>=])|--)|[-+*/%]\s*{val}", body):
        ctx = body[max(0, m.start() - 30):m.end() + 30].replace("\n", " ")
        if "*it++" in ctx.replace(" ", ""):
            continue
        bad.append("line: " + ctx)
    if bad:
        raise ExtractionError("premise of lemma L5 violated (arithmetic on a filtration value): " + " | ".join(bad[:3]))
    return "no arithmetic on filtration values in Persistence_on_rectangle.h / Persistence_on_a_line.h"


_units_init = units


def units(tier):   # noqa: F811
    l5_guard()
    return _units_init(tier)


def toplevel_units():
    """persistence_on_rectangle_from_top_cells: the orchestration - size check, then init, fill_and_pair, sort_edges,
    primal (dimension 0 to out0), dual (dimension 1 to out1), and the global minimum is what is returned.  The member
    functions are recording stubs here (each has its own units)."""
    G = """
typedef size_t Index; typedef int Filtration_value;
int g_seq[8]; int g_nseq; const Filtration_value* g_init_in; Index g_init_r, g_init_c; int g_primal_out, g_dual_out; Filtration_value g_global_min;
enum { S_INIT = 1, S_FILL, S_SORT, S_PRIMAL, S_DUAL };
#define LOG(s) do { if (g_nseq < 8) g_seq[g_nseq] = (s); g_nseq++; } while (0)
/* ghost object X of the class: recording stubs (R13) */
#define X_init(in, r, c) do { LOG(S_INIT); g_init_in = (in); g_init_r = (r); g_init_c = (c); } while (0)
#define X_fill_and_pair() LOG(S_FILL)
#define X_sort_edges() LOG(S_SORT)
#define X_primal(o) do { LOG(S_PRIMAL); g_primal_out = (o); } while (0)
#define X_dual(o) do { LOG(S_DUAL); g_dual_out = (o); } while (0)
size_t nondet_size(void); int nondet_int(void);
"""
    con = """
__CPROVER_requires(g_nseq == 0 && g_thrown == 0 && n_rows >= 2 && n_cols >= 2)
__CPROVER_ensures(g_thrown == 0)
__CPROVER_ensures(g_thrown != 0 || (g_nseq == 5 && g_seq[0] == S_INIT && g_seq[1] == S_FILL && g_seq[2] == S_SORT && g_seq[3] == S_PRIMAL && g_seq[4] == S_DUAL))
__CPROVER_ensures(g_thrown != 0 || (g_init_in == input && g_init_r == n_rows && g_init_c == n_cols && g_primal_out == out0 && g_dual_out == out1))
__CPROVER_ensures(g_thrown != 0 || __CPROVER_return_value == g_global_min)
__CPROVER_assigns(g_seq, g_nseq, g_init_in, g_init_r, g_init_c, g_primal_out, g_dual_out, g_thrown)
"""
    fn = Fn(R, r"auto persistence_on_rectangle_from_top_cells\(Filtration_value const\* input, Index n_rows, Index n_cols,\s*Out0&&out0, Out1&&out1\)", "top_cells", con,
            sig_subs=[(r"^auto ", "Filtration_value "), (r"Out0&&out0, Out1&&out1", "int out0, int out1")],
            subs=[(r"Persistence_on_rectangle<Filtration_value, Index, output_index> X;", ""), (r"X\.(\w+)\(", r"X_\1("), (r"X\.global_min", "g_global_min"),
                  (r"GUDHI_CHECK\(", "VP_CHECK_THROW(", 0)],
            canary=(r"X_primal\(out0\)", "X_primal(out1)"))
    # GUDHI_CHECK(c, exception) throws in debug builds: model the refusal as the ghost throw flag
    G += "#define VP_CHECK_THROW(c, e) do { if (!(c)) { g_thrown = 1; return 0; } } while (0)\n#define std_domain_error(x) 0\n"
    fn.subs.insert(0, (r"std::domain_error\([^)]*\)", "0", 0))
    return [Unit("rect.top_level", "C14", [fn], enforce="top_cells", globals_=G, inputs=["in_r", "in_c"],
                 harness=H("  Index in_r = nondet_size(), in_c = nondet_size(); Filtration_value buf[4]; g_nseq = 0; g_thrown = 0; g_global_min = nondet_int();", "top_cells(buf, in_r, in_c, 10, 11);"),
                 desc="persistence_on_rectangle_from_top_cells, for every accepted size (both sides >= 2; the GUDHI_CHECK on the sizes becomes a proof obligation): init, fill_and_pair, sort_edges, primal(out0), dual(out1) in this order and the global minimum is returned")]


_units_l5 = units


def units(tier):   # noqa: F811
    return _units_l5(tier) + toplevel_units()


def small_units():
    """the comparison operators the sort relies on, dualize_edge, and the global minimum read-out"""
    U = []
    Gc = ("typedef size_t Index; typedef int Filtration_value;\n"
          "typedef struct { Filtration_value first; Index second; } T_with_index; typedef struct { Filtration_value first; } T_no_index;\n"
          "#define VP_TIE2_LT(a1, a2, b1, b2) ((a1) < (b1) || (!((b1) < (a1)) && (a2) < (b2)))   /* std::tie(a1,a2) < std::tie(b1,b2) */\n"
          "size_t nondet_size(void); int nondet_int(void);\n")
    # T_with_index::operator< : lexicographic on (value, index); T_no_index::operator< : by value
    f1 = Fn(R, r"bool operator<\(T_with_index const& other\) const", "twi_less", """
__CPROVER_ensures(__CPROVER_return_value == (self_first < other.first || (self_first == other.first && self_second < other.second)))
__CPROVER_assigns()
""", sig_subs=[(r"operator<", "twi_less"), (r"\(T_with_index const& other\)", "(Filtration_value self_first, Index self_second, T_with_index const& other)")],
            subs=[(r"std::tie\(first, second\) < std::tie\(other\.first, other\.second\)", "VP_TIE2_LT(self_first, self_second, other.first, other.second)")],
            canary=(r"VP_TIE2_LT\(self_first, self_second, other\.first, other\.second\)", "VP_TIE2_LT(self_first, self_first, other.first, other.first)"))
    U.append(Unit("rect.T_with_index.less", "C14", [f1], enforce="twi_less", globals_=Gc, inputs=["in_a", "in_b"],
                  harness=H("  T_with_index in_a, in_b; in_a.first = nondet_int(); in_a.second = nondet_size(); in_b.first = nondet_int(); in_b.second = nondet_size();", "twi_less(in_a.first, in_a.second, in_b);"),
                  desc="T_with_index::operator<: lexicographic on (value, index) - in index mode the elder rule breaks ties by index"))
    f2 = Fn(R, r"bool operator<\(T_no_index const& other\) const", "tni_less", """
__CPROVER_ensures(__CPROVER_return_value == (self_first < other.first))
__CPROVER_assigns()
""", sig_subs=[(r"operator<", "tni_less"), (r"\(T_no_index const& other\)", "(Filtration_value self_first, T_no_index const& other)")],
            subs=[(r"return first < other\.first;", "return self_first < other.first;")], canary=(r"self_first < other\.first", "other.first < self_first"))
    U.append(Unit("rect.T_no_index.less", "C14", [f2], enforce="tni_less", globals_=Gc, inputs=["in_a", "in_b"],
                  harness=H("  T_no_index in_b; int in_a = nondet_int(); in_b.first = nondet_int();", "tni_less(in_a, in_b);"),
                  desc="T_no_index::operator<: by value"))
    # dualize_edge: the two squares on either side of a primal edge
    Gd = "typedef size_t Index; typedef int Filtration_value; typedef struct { Filtration_value first; } T;\nstruct Edge { T f; Index v1, v2; };\nIndex dy;\nsize_t nondet_size(void);\n"
    f3 = Fn(R, r"void dualize_edge\(Edge& e\) const", "dualize_edge", """
__CPROVER_requires(dy >= 2 && dy <= 65536 && e->v1 <= 4294967296ul && (e->v2 == e->v1 + 1 || e->v2 == e->v1 + dy))
__CPROVER_ensures(__CPROVER_old(e->v2) == __CPROVER_old(e->v1) + 1 ? (e->v1 == __CPROVER_old(e->v1) + 1 && e->v2 == __CPROVER_old(e->v1) + 1 + dy)
                                                                   : (e->v1 == __CPROVER_old(e->v1) + dy && e->v2 == __CPROVER_old(e->v1) + dy + 1))
__CPROVER_ensures(e->v1 < e->v2)
__CPROVER_assigns(e->v1, e->v2)
""", sig_subs=[(r"Edge&", "struct Edge&")], canary=(r"\(dy \+ 1\)", "(dy)"))
    U.append(Unit("rect.dualize_edge", "C14", [f3], enforce="dualize_edge", globals_=Gd, inputs=["in_e", "dy"],
                  harness=H("  struct Edge in_e; in_e.v1 = nondet_size(); in_e.v2 = nondet_size(); dy = nondet_size(); struct Edge x_e = in_e;", "dualize_edge(&x_e);"),
                  desc="dualize_edge: a horizontal edge {v, v+1} becomes the squares below/above it (v+1, v+1+dy), a vertical edge {v, v+dy} the squares left/right of it (v+dy, v+dy+1); the result stays ordered"))
    return U


_units_top = units


def units(tier):   # noqa: F811
    return _units_top(tier) + small_units()


_built = set()


def _rbin(name):
    src = os.path.join(VERIF, "replay", name + ".cpp")
    out = os.path.join(VERIF, "build", "replay_" + name)
    if out not in _built:      # rebuilt from /repo's current tree once per run
        os.makedirs(os.path.dirname(out), exist_ok=True)
        rc, o, e, s = sh(["g++", "-std=c++17", "-O1", "-w"] + INC + [src, "-o", out], 600)
        if rc != 0:
            raise RuntimeError("replay build failed: " + (o + e)[-1500:])
        _built.add(out)
    return out


def mk_replay_line(ty, greater, nmax):
    def rp(unit, failure):
        i = failure["inputs"]

        def val(x):
            if x is None:
                return None
            x = str(x)
            return x[5:] if x.startswith("bits:") else x.rstrip("ulUL")
        n = i.get("g_n")
        whole = i.get("g_in") if isinstance(i.get("g_in"), list) else [None] * nmax
        arr = [i.get(f"g_in[{k}l]", i.get(f"g_in[{k}]", whole[k] if k < len(whole) else None)) for k in range(nmax)]   # element assignments of the harness loop win
        s_, t_ = val(i.get("g_s")), val(i.get("g_t"))
        if n is None or s_ is None or t_ is None or any(a is None for a in arr[:int(str(n).rstrip("ulUL"))]):
            return {"reproduced": None, "detail": f"inputs not in the trace: {i}"}
        n = int(str(n).rstrip("ulUL"))
        cmd = [_rbin("line"), ty, "greater" if greater else "less", s_, t_] + [val(a) for a in arr[:n]]
        rc, o, e, s = sh(cmd, 60)
        return {"reproduced": True if rc == 1 else (False if rc == 0 else None), "cmd": " ".join(cmd), "detail": (o + e).strip()[-600:], "rc": rc}
    return rp


LINE_SUBS = [(r"using std::begin;", ""), (r"using std::end;", ""),
             (r"auto (\w+) = begin\(input\);", r"Index \1 = 0;"), (r"auto (\w+) = end\(input\);", r"Index \1 = g_n;"),
             (r"typedef std::decay_t<decltype\(\*\w+\)> Filtration;", ""),
             (r"std::vector<Filtration> data;", "data_n = 0;"),
             (r"data\.push_back\(([^;]*)\);", r"vec_push(\1);"), (r"data\.pop_back\(\)", "vec_drop(1)"),
             (r"data\.back\(\)", "DATA(data_n - 1)"), (r"data\.end\(\)\[-(\d+)\]", r"DATA(data_n - \1)"),
             (r"data\.erase\(data\.end\(\)\s*-\s*(\d+), data\.end\(\)\)", r"vec_drop(\1)"),
             (r"data\.empty\(\)", "(data_n == 0)"), (r"data\.size\(\)", "data_n"), (r"\bdata\[(\d+)\]", r"DATA(\1)"),
             (r"\*(\w+)\+\+", r"acc_in(\1++)"), (r"std::numeric_limits<Filtration>::infinity\(\)", "FV_INF")]


def line_units(tier):
    """compute_persistence_of_function_on_line as a whole, bounded by the number of samples: the goto state machine
    is kept as it is (labels and gotos are C), std::vector becomes (array, length) with a range assertion on every
    element access, and the result is compared with the rank invariant of sublevel-set persistence on a line."""
    U = []
    con = """
__CPROVER_requires(in_ok() && g_nout == 0)
__CPROVER_ensures(P_empty())
__CPROVER_ensures(P_infinite_bar())
__CPROVER_ensures(P_finite_bars())
__CPROVER_ensures(P_rank())
__CPROVER_assigns(data, data_n, g_ob, g_od, g_nout)
"""
    subs = LINE_SUBS
    nq = [(5, "int", False), (5, "int", True)]
    nt = [(6, "int", False), (6, "int", True), (7, "int", False), (7, "int", True), (8, "int", True), (5, "double", False), (5, "double", True)]
    for n, ty, gr in nq + (nt if tier == "thorough" else []):
        fn = Fn(L, r"void compute_persistence_of_function_on_line\(FiltrationRange const& input, OutputFunctor&& out, Compare&& lt = \{\}\)",
                "line_persistence", con, sig_subs=[(r"\(FiltrationRange const& input, OutputFunctor&& out, Compare&& lt = \{\}\)", "(void)")],
                calls={"out": "out_rec", "lt": "LT"}, subs=subs, dispatch=True,
                canary=(r"if \(ge\((\w+), DATA\(1\)\)\)", r"if (le(\1, DATA(1)))"))
        nm = f"line.whole.n{n}.{ty}.{'greater' if gr else 'less'}"
        U.append(Unit(nm, "C14", [fn], enforce="line_persistence", includes=["c14d_glue.h"],
                      defines=[f"NMAX={n}"] + (["FV_DOUBLE"] if ty == "double" else []) + (["CMP_GREATER"] if gr else []),
                      globals_=f"size_t nondet_size(void); {ty} nondet_fv(void);\n", unwind=3 * n + 4, route="B", object_bits=10,
                      bound=f"at most {n} samples; every value of the type ({ty}, NaN excluded), every pair of levels (s, t)",
                      inputs=["g_n", "g_in", "g_s", "g_t"], replay=mk_replay_line(ty, gr, n),
                      harness=H(f"  g_n = nondet_size(); __CPROVER_assume(g_n <= NMAX);\n  for (int k = 0; k < NMAX; k++) g_in[k] = nondet_fv();\n"
                                "  g_s = nondet_fv(); g_t = nondet_fv(); g_nout = 0;", "line_persistence();"),
                      runs=[Run(backend="kissat", timeout=900 if n <= 5 else 3000)],
                      desc=f"compute_persistence_of_function_on_line ({ty}, std::{'greater' if gr else 'less'}) on at most {n} samples, all gotos unwound: every data[...] / data.end()[-k] / erase / pop_back stays inside the vector, the last bar is (minimum, infinity), every other bar has birth < death taken from the input, and for every pair of levels s <= t the number of bars alive over [s, t] equals the number of components of {{f <= t}} meeting {{f <= s}} (rank invariant: determines the barcode)"))
    return U


_units_small = units


def units(tier):   # noqa: F811
    return _units_small(tier) + line_units(tier)


LINE_INV = """
__CPROVER_assigns(vp_st, @it@, @v@, data_n, __CPROVER_object_whole(data), g_has_prev, g_pb, g_pd, g_pending)
__CPROVER_loop_invariant(g_pending == (vp_st == @st_state12down@ || vp_st == @st_state132up@ || vp_st == @st_state312down@ || vp_st == @st_up@ || vp_st == @st_down@))
__CPROVER_loop_invariant(@it@ <= @stop@ && @stop@ == g_n && g_n <= NMAX && 1 <= data_n && data_n <= @it@)
__CPROVER_loop_invariant(!g_has_prev || LT(g_pb, g_pd))
__CPROVER_loop_invariant(vp_st <= @st_infinite@ && vp_st != @st_state1down@ && (vp_st != 0 || data_n == 1))
__CPROVER_loop_invariant(__CPROVER_forall { size_t k; (0 <= k && k < NMAX - 1) ==> ((k + 1 < data_n) ==> ((k % 2 == 0) ? LT(data[k], data[k + 1]) : LT(data[k + 1], data[k]))) })
__CPROVER_loop_invariant(__CPROVER_forall { size_t k; (0 <= k && k < NMAX - 2) ==> ((k + 2 < data_n) ==> ((k % 2 == 0) ? LT(data[k], data[k + 2]) : LT(data[k + 2], data[k]))) })
__CPROVER_loop_invariant(__CPROVER_forall { size_t k; (0 <= k && k < NMAX) ==> (k >= data_n || data[k] == data[k]) })
__CPROVER_loop_invariant(vp_st != @st_state1@ || data_n == 1)
__CPROVER_loop_invariant(vp_st != @st_state12@ || data_n == 2)
__CPROVER_loop_invariant(vp_st != @st_state12down@ || (@v@ == @v@ && data_n < @it@ && data_n == 2 && LT(@v@, data[1])))
__CPROVER_loop_invariant(vp_st != @st_state132@ || (data_n >= 3 && data_n % 2 == 1))
__CPROVER_loop_invariant(vp_st != @st_state132up@ || (@v@ == @v@ && data_n < @it@ && data_n >= 3 && data_n % 2 == 1 && LT(data[data_n - 1], @v@)))
__CPROVER_loop_invariant(vp_st != @st_state312@ || (data_n >= 4 && data_n % 2 == 0))
__CPROVER_loop_invariant(vp_st != @st_state312down@ || (@v@ == @v@ && data_n < @it@ && data_n >= 4 && data_n % 2 == 0 && LT(@v@, data[data_n - 1])))
__CPROVER_loop_invariant(vp_st != @st_up@ || (@v@ == @v@ && data_n < @it@ && data_n % 2 == 1 && LT(data[data_n - 1], @v@)))
__CPROVER_loop_invariant(vp_st != @st_down@ || (@v@ == @v@ && data_n < @it@ && data_n >= 2 && data_n % 2 == 0 && LT(@v@, data[data_n - 1])))
__CPROVER_loop_invariant(vp_st != @st_endup@ || (@it@ == @stop@ && data_n >= 2 && data_n % 2 == 0))
__CPROVER_loop_invariant(vp_st != @st_enddown@ || (@it@ == @stop@ && data_n % 2 == 1))
__CPROVER_loop_invariant(vp_st != @st_infinite@ || (@it@ == @stop@ && data_n == 1))
__CPROVER_decreases(4 * (@stop@ - @it@) + 2 * data_n + (vp_st == @st_infinite@ ? 0 : vp_st == @st_enddown@ ? 1 : vp_st == @st_endup@ ? 2 : (vp_st == @st_up@ || vp_st == @st_down@) ? 7 : (vp_st == 0 || vp_st == @st_state1@ || vp_st == @st_state12@ || vp_st == @st_state132@ || vp_st == @st_state312@) ? 3 : 6))
"""


def line_invariant_units(tier):
    """compute_persistence_of_function_on_line with a loop contract on the dispatch loop (rule R14): the documented
    invariant 'data contains a sequence of type 1 9 2 8 3 7 ...' made precise per state, plus a variant."""
    U = []
    con = """
__CPROVER_requires(in_ok() && !g_has_prev && !g_pending)
__CPROVER_ensures(g_n == 0 ? !g_has_prev : (g_has_prev && g_pd == FV_INF && data_n == 1 && g_pb == data[0]))
__CPROVER_ensures(!g_pending)
__CPROVER_assigns(data, data_n, g_has_prev, g_pb, g_pd, g_pending)
"""
    cases = [(64, "int", False), (64, "int", True)] + ([(128, "int", False), (64, "double", False), (64, "double", True)] if tier == "thorough" else [])
    for n, ty, gr in cases:
        fn = Fn(L, r"void compute_persistence_of_function_on_line\(FiltrationRange const& input, OutputFunctor&& out, Compare&& lt = \{\}\)",
                "line_persistence", con, sig_subs=[(r"\(FiltrationRange const& input, OutputFunctor&& out, Compare&& lt = \{\}\)", "(void)")],
                calls={"out": "out_rec", "lt": "LT"}, subs=LINE_SUBS + [(r"DATA\(([^()]*)\) = (\w+);", r"DATA_SET(\1, \2);")], dispatch=True, loops={0: LINE_INV},
                derive={"it": r"auto (\w+) = begin\(input\)", "stop": r"auto (\w+) = end\(input\)", "v": r"\bFiltration (\w+);"},
                canary=(r"if \(le\(v, DATA\(data_n - 2\)\)\)", "if (LT(v, DATA(data_n - 2)))"))
        nm = f"line.invariant.cap{n}.{ty}.{'greater' if gr else 'less'}"
        U.append(Unit(nm, "C14", [fn], enforce="line_persistence", includes=["c14e_glue.h"], loop_contracts=True,
                      defines=[f"NMAX={n}"] + (["FV_DOUBLE"] if ty == "double" else []) + (["CMP_GREATER"] if gr else []),
                      globals_="", route="B", unwind=(n + 2 if ty == "double" else 12),
                      bound=f"at most {n} samples (capacity of the arrays); the loop is closed by its invariant, not unwound",
                      inputs=["g_n"],
                      harness=H("  g_has_prev = 0; g_pending = 0;", "line_persistence();"),
                      runs=[Run(backend="sat", timeout=1800)],
                      desc=f"compute_persistence_of_function_on_line ({ty}, std::{'greater' if gr else 'less'}), loop contract on the state machine: per state, the size/parity of data and its alternating shape (lows increasing, highs decreasing, every low below every high) are inductive; hence every data[...] / end()[-k] / erase / pop_back stays inside the vector, GUDHI_CHECK never fires, every bar but the last has birth < death, exactly the last call is (data[0], infinity), and the routine terminates (variant 4*(remaining input) + 2*size + state rank)"))
    return U


_units_line = units


def units(tier):   # noqa: F811
    return _units_line(tier) + line_invariant_units(tier)
