/* c14_glue.h - hand-written glue and SPECIFICATION for the local (per-pixel) contracts of
 * Persistence_on_rectangle::fill_and_pair.  Trusted; listed in the evidence.
 *
 * The class members become file-scope objects (rule R4).  The three reference-returning accessors
 * ds_parent_vertex / ds_parent_square / data_vertex and edges.emplace_back cannot be expressed in C; they become
 * ghost accessors that LOG every write (index, value).  The contracts below are predicates over those logs.
 *
 * Specification (written from the property: "lower-star cubical filtration of the top-cell values", reduced
 * complex of the header comment: interior vertices, interior edges, all squares, boundary squares glued to the
 * exterior):  inside the lower star of one pixel i the routine must produce a valid discrete gradient -
 *   - only cells of that lower star are written, each at most once (frame);
 *   - every vertex of the lower star is written exactly once: critical (parent == self, value (f, i)) or paired
 *     along an edge of the lower star whose other endpoint is its parent;
 *   - the square (when it belongs to the reduced complex) is written exactly once: critical or paired across an
 *     edge of the lower star with the neighbouring square;
 *   - every critical edge logged is an edge of the lower star, endpoints ordered, value (f, i);
 *   - every edge of the lower star is used exactly once (vertex pair, square pair or critical), others never;
 *   - vertex -> parent paths inside the star end at a critical vertex or leave the star (acyclic).
 * The lower star itself is defined from the eight answers of has_larger_input on the neighbours (table g_nd),
 * whose meaning - the strict total order on (value, index) - is the contract enforced on has_larger_input.
 */
#ifndef C14_GLUE_H
#define C14_GLUE_H
#include "prelude.h"

typedef size_t Index;
#ifdef FV_DOUBLE
typedef double Filtration_value;       /* second binding, used for has_larger_input only */
#else
typedef int Filtration_value;          /* binding: only operator< is applied to it (lemma L5) */
#endif
#ifdef OUTPUT_INDEX
typedef struct { Filtration_value first; Index second; } T;     /* T_with_index */
#define T_make(f, i) ((T){(f), (i)})
#else
typedef struct { Filtration_value first; } T;                   /* T_no_index   */
#define T_make(f, i) ((T){(f)})
#endif
struct Edge { T f; Index v1, v2; };

/* members (R4) */
const Filtration_value* input_p;
Index size_x, size_y, input_size, dy;

/* ---- ghost state ---------------------------------------------------------------------------------------- */
#define NONE ((Index)-1)
#define ELOG 4
/* writes are classified on the fly relative to the current pixel g_i (exported at every assignment to the local
 * `i` by the extractor's instrumentation rule): slot 0..3 = the vertices of the pixel's reduced star, 4 = any other */
unsigned g_vwr[5]; Index g_vpar[5];                  /* writes through ds_parent_vertex: count, last value */
unsigned g_dwr[5]; T g_dval[5];                      /* writes through data_vertex */
unsigned g_swr, g_swr_other; Index g_spar;           /* writes through ds_parent_square (own square / any other) */
struct Edge g_el[ELOG]; unsigned g_nel;              /* edges.emplace_back */
unsigned g_nin, g_nin_other;                         /* reads through input(): of the pixel itself / of anything else */
Filtration_value g_fval;                             /* the value input() returns (the current pixel's f) */
bool g_nd[9];                                        /* answers of has_larger_input per neighbour class */
Index g_i;                                           /* the current pixel */
bool g_overflow;                                     /* the edge log was full */
static int cur_vslot(Index n);
static Index* ghost_v(Index n) { int s = cur_vslot(n); g_vwr[s]++; return &g_vpar[s]; }
static T* ghost_d(Index n) { int s = cur_vslot(n); g_dwr[s]++; return &g_dval[s]; }
static Index* ghost_s(Index n) { if (n == g_i) g_swr++; else g_swr_other++; return &g_spar; }
static Filtration_value ghost_in(Index n) { if (n == g_i) g_nin++; else g_nin_other++; return g_fval; }
static void edges_emplace_back(T f, Index v1, Index v2) { if (g_nel >= ELOG) { g_overflow = true; g_nel = 0; } g_el[g_nel].f = f; g_el[g_nel].v1 = v1; g_el[g_nel].v2 = v2; g_nel++; }
#define ds_parent_vertex(n) (*ghost_v(n))
#define ds_parent_square(n) (*ghost_s(n))
#define data_vertex(n) (*ghost_d(n))
#ifndef REAL_INPUT
#define input(n) ghost_in(n)
#endif

/* neighbour classes relative to the square b (= the current pixel): 0 L, 1 R, 2 D, 3 U, 4 DL, 5 UL, 6 DR, 7 UR.
 * Only the neighbours that exist for the pixel kind are candidates (with 2 columns b+1 and b+dy-1 coincide as
 * numbers, but a pixel of the last column has no right neighbour). */
enum { nL, nR, nD, nU, nDL, nUL, nDR, nUR, nOTHER };
enum { K_INTERIOR, K_FIRST_ROW, K_LAST_ROW, K_FIRST_COL, K_LAST_COL, K_CORNER0, K_CORNER1, K_CORNER2, K_CORNER3 };
int g_kind;                                            /* set by the harness */
static bool kind_has(int c) {
  bool hasL = !(g_kind == K_FIRST_COL || g_kind == K_CORNER0 || g_kind == K_CORNER2);
  bool hasR = !(g_kind == K_LAST_COL || g_kind == K_CORNER1 || g_kind == K_CORNER3);
  bool hasD = !(g_kind == K_FIRST_ROW || g_kind == K_CORNER0 || g_kind == K_CORNER1);
  bool hasU = !(g_kind == K_LAST_ROW || g_kind == K_CORNER2 || g_kind == K_CORNER3);
  return c == nL ? hasL : c == nR ? hasR : c == nD ? hasD : c == nU ? hasU : c == nDL ? (hasD && hasL) :
         c == nUL ? (hasU && hasL) : c == nDR ? (hasD && hasR) : c == nUR ? (hasU && hasR) : false;
}
static int nclass(Index a, Index b) {
  return (kind_has(nL) && a == b - 1) ? nL : (kind_has(nR) && a == b + 1) ? nR : (kind_has(nD) && a == b - dy) ? nD :
         (kind_has(nU) && a == b + dy) ? nU : (kind_has(nDL) && a == b - dy - 1) ? nDL :
         (kind_has(nUL) && a == b + dy - 1) ? nUL : (kind_has(nDR) && a == b - dy + 1) ? nDR :
         (kind_has(nUR) && a == b + dy + 1) ? nUR : nOTHER;
}

/* ---- expected reduced lower star of the pixel g_i, per pixel kind (pure function of the ghost state) ------- */
struct star { unsigned nv; Index v[4]; bool vin[4]; unsigned ne; Index ea[4], eb[4], esq[4]; bool ein[4]; bool sq; };
#define G(c) (g_nd[c])
static struct star expect(void) {
  struct star S; Index i = g_i;
  for (int k = 0; k < 4; k++) { S.v[k] = NONE; S.vin[k] = false; S.ea[k] = S.eb[k] = S.esq[k] = NONE; S.ein[k] = false; }
  S.nv = 0; S.ne = 0; S.sq = false;
  if (g_kind == K_INTERIOR) {          /* vertices UL UR DL DR; edges up, down, left, right */
    S.nv = 4; S.v[0] = i - 1; S.v[1] = i; S.v[2] = i - dy - 1; S.v[3] = i - dy;
    S.vin[0] = G(nU) && G(nL) && G(nUL); S.vin[1] = G(nU) && G(nR) && G(nUR);
    S.vin[2] = G(nD) && G(nL) && G(nDL); S.vin[3] = G(nD) && G(nR) && G(nDR);
    S.ne = 4;
    S.ea[0] = i - 1;      S.eb[0] = i;      S.esq[0] = i + dy; S.ein[0] = G(nU);
    S.ea[1] = i - dy - 1; S.eb[1] = i - dy; S.esq[1] = i - dy; S.ein[1] = G(nD);
    S.ea[2] = i - dy - 1; S.eb[2] = i - 1;  S.esq[2] = i - 1;  S.ein[2] = G(nL);
    S.ea[3] = i - dy;     S.eb[3] = i;      S.esq[3] = i + 1;  S.ein[3] = G(nR);
    S.sq = true;
  }
  /* border pixels: the boundary square is glued to the exterior; only its one inner edge and that edge's two
   * interior end points can belong to its lower star */
  if (g_kind == K_FIRST_ROW) {         /* inner edge = up edge {UL, UR} */
    S.nv = 2; S.v[0] = i - 1; S.v[1] = i;
    S.vin[0] = G(nU) && G(nL) && G(nUL); S.vin[1] = G(nU) && G(nR) && G(nUR);
    S.ne = 1; S.ea[0] = i - 1; S.eb[0] = i; S.ein[0] = G(nU);
  }
  if (g_kind == K_LAST_ROW) {          /* inner edge = down edge {DL, DR} */
    S.nv = 2; S.v[0] = i - dy - 1; S.v[1] = i - dy;
    S.vin[0] = G(nD) && G(nL) && G(nDL); S.vin[1] = G(nD) && G(nR) && G(nDR);
    S.ne = 1; S.ea[0] = i - dy - 1; S.eb[0] = i - dy; S.ein[0] = G(nD);
  }
  if (g_kind == K_FIRST_COL) {         /* inner edge = right edge {DR, UR} */
    S.nv = 2; S.v[0] = i - dy; S.v[1] = i;
    S.vin[0] = G(nR) && G(nD) && G(nDR); S.vin[1] = G(nR) && G(nU) && G(nUR);
    S.ne = 1; S.ea[0] = i - dy; S.eb[0] = i; S.ein[0] = G(nR);
  }
  if (g_kind == K_LAST_COL) {          /* inner edge = left edge {DL, UL} */
    S.nv = 2; S.v[0] = i - dy - 1; S.v[1] = i - 1;
    S.vin[0] = G(nL) && G(nD) && G(nDL); S.vin[1] = G(nL) && G(nU) && G(nUL);
    S.ne = 1; S.ea[0] = i - dy - 1; S.eb[0] = i - 1; S.ein[0] = G(nL);
  }
  /* corner squares: no inner edge; one interior vertex, in the lower star iff the three other squares around it are larger */
  if (g_kind == K_CORNER0) { S.nv = 1; S.v[0] = i;          S.vin[0] = G(nR) && G(nU) && G(nUR); }   /* i = 0 */
  if (g_kind == K_CORNER1) { S.nv = 1; S.v[0] = i - 1;      S.vin[0] = G(nL) && G(nU) && G(nUL); }   /* i = size_x */
  if (g_kind == K_CORNER2) { S.nv = 1; S.v[0] = i - dy;     S.vin[0] = G(nR) && G(nD) && G(nDR); }   /* i = dy*size_y */
  if (g_kind == K_CORNER3) { S.nv = 1; S.v[0] = i - dy - 1; S.vin[0] = G(nL) && G(nD) && G(nDL); }   /* last square */
  return S;
}

/* ---- the contract predicates ----------------------------------------------------------------------------- */
static int vslot(const struct star* S, Index n) { int s = -1; for (unsigned k = 0; k < 4; k++) if (k < S->nv && S->v[k] == n) s = (int)k; return s; }
static int eslot(const struct star* S, Index a, Index b) { int s = -1; for (unsigned e = 0; e < 4; e++) if (e < S->ne && ((S->ea[e] == a && S->eb[e] == b) || (S->ea[e] == b && S->eb[e] == a))) s = (int)e; return s; }
/* slot of vertex n in the current pixel's star (same table as expect().v[], written out for speed) */
#define CUR_VSLOT_BODY \
  Index i = g_i; \
  Index v0 = g_kind == K_INTERIOR || g_kind == K_FIRST_ROW || g_kind == K_CORNER1 ? i - 1 : \
             g_kind == K_LAST_ROW || g_kind == K_LAST_COL || g_kind == K_CORNER3 ? i - dy - 1 : \
             g_kind == K_FIRST_COL || g_kind == K_CORNER2 ? i - dy : i ; \
  Index v1 = g_kind == K_INTERIOR || g_kind == K_FIRST_ROW || g_kind == K_FIRST_COL ? i : \
             g_kind == K_LAST_ROW ? i - dy : g_kind == K_LAST_COL ? i - 1 : NONE; \
  if (n == v0) return 0; \
  if (n == v1) return 1; \
  if (g_kind == K_INTERIOR && n == i - dy - 1) return 2; \
  if (g_kind == K_INTERIOR && n == i - dy) return 3; \
  return 4;
static int cur_vslot(Index n) { CUR_VSLOT_BODY }
/* same text, second copy: called from the contract predicate only (DFCC gives instrumented functions an extra
 * write-set parameter, so the copy used by the code under verification is not called from a contract clause) */
static int cur_vslot_spec(Index n) { CUR_VSLOT_BODY }

Index g_hl_b; Filtration_value g_hl_f; unsigned g_hl_n;   /* ghost record of the calls to has_larger_input */
static bool P_slots_consistent(void) {   /* the fast slot table above is the one of expect() */
  struct star S = expect();
  bool ok = true;
  for (unsigned k = 0; k < 4; k++) if (k < S.nv) ok = ok && cur_vslot_spec(S.v[k]) == (int)k;
  return ok;
}
static bool P_inputs(void) {   /* only the pixel's own value is read directly; every comparison was against (i, f); no log overflowed */
  return !g_overflow && g_nin_other == 0 && (g_hl_n == 0 || g_hl_b == g_i);
}
static bool P_frame(void) {    /* nothing outside the lower star of the pixel is written */
  struct star S = expect();
  bool ok = g_vwr[4] == 0 && g_dwr[4] == 0 && g_swr_other == 0 && (S.sq || g_swr == 0);
  for (unsigned k = 0; k < 4; k++) if (k >= S.nv || !S.vin[k]) ok = ok && g_vwr[k] == 0 && g_dwr[k] == 0;
  return ok;
}
static bool P_vertices(void) { /* each vertex of the lower star written exactly once: critical with value (f,i), or paired along an edge of the star */
  struct star S = expect();
  bool ok = true;
  for (unsigned v = 0; v < 4; v++) if (v < S.nv && S.vin[v]) {
    ok = ok && g_vwr[v] == 1;
    Index p = g_vpar[v];
    if (p == S.v[v]) {                       /* critical */
      ok = ok && g_dwr[v] == 1 && g_dval[v].first == g_fval;
#ifdef OUTPUT_INDEX
      ok = ok && g_dval[v].second == g_i;
#endif
    } else { int e = eslot(&S, S.v[v], p); ok = ok && g_dwr[v] == 0 && e >= 0 && S.ein[e]; }   /* paired */
  }
  return ok;
}
static bool P_square(void) {   /* the square (if a cell of the reduced complex) is written once: critical or paired across an edge of the star */
  struct star S = expect();
  if (!S.sq) return g_swr == 0;
  if (g_swr != 1) return false;
  if (g_spar == g_i) return true;
  bool ok = false;
  for (unsigned e = 0; e < 4; e++) if (e < S.ne && S.ein[e] && S.esq[e] == g_spar) ok = true;
  return ok;
}
static bool P_crit_edges(void) {  /* every logged critical edge is an edge of the star, ordered, with the pixel's value */
  struct star S = expect();
  bool ok = true;
  for (unsigned k = 0; k < ELOG; k++) if (k < g_nel) {
    int e = eslot(&S, g_el[k].v1, g_el[k].v2);
    ok = ok && e >= 0 && S.ein[e] && g_el[k].v1 < g_el[k].v2 && g_el[k].f.first == g_fval;
#ifdef OUTPUT_INDEX
    ok = ok && g_el[k].f.second == g_i;
#endif
  }
  return ok;
}
static bool P_edge_use(void) {    /* every edge of the star used exactly once, every other edge never */
  struct star S = expect();
  bool ok = true;
  for (unsigned e = 0; e < 4; e++) if (e < S.ne) {
    unsigned u = 0;
    for (unsigned v = 0; v < 4; v++) if (v < S.nv && g_vwr[v] >= 1 && g_vpar[v] != S.v[v] && eslot(&S, S.v[v], g_vpar[v]) == (int)e) u++;
    if (g_swr >= 1 && g_spar != g_i && S.esq[e] == g_spar) u++;
    for (unsigned k = 0; k < ELOG; k++) if (k < g_nel && eslot(&S, g_el[k].v1, g_el[k].v2) == (int)e) u++;
    ok = ok && u == (S.ein[e] ? 1u : 0u);
  }
  return ok;
}
static bool P_acyclic(void) {     /* vertex -> parent inside the star reaches a critical vertex or leaves the star */
  struct star S = expect();
  bool ok = true;
  for (unsigned v = 0; v < 4; v++) if (v < S.nv && S.vin[v] && g_vwr[v] == 1) {
    int c = (int)v; bool done = false;
    for (int s = 0; s < 4; s++) if (!done) {
      Index p = g_vpar[c];
      if (p == S.v[c]) done = true;
      else { int sl = vslot(&S, p); if (sl < 0 || !S.vin[sl] || g_vwr[sl] != 1) done = true; else c = sl; }
    }
    ok = ok && done;
  }
  return ok;
}
#endif
