/* c10_gmp_glue.h - assumed contracts on the GMP dependency, for the classes whose Element is mpz_class.
 * mpz_class is bound to a 64-bit signed integer; every contract bounds its operands so that no intermediate value
 * leaves +-2^63 (discharged by --signed-overflow-check), hence machine arithmetic coincides with GMP's unbounded
 * integers on the verified range.  The GMP functions are C transcriptions of their documentation (trusted):
 *   mpz_mod(r, a, m): r = a mod |m|, always 0 <= r < |m|      mpz_sub(r, a, b): r = a - b
 *   mpz_gcd(r, a, b): r = gcd(|a|, |b|), gcd(0, b) = |b|       mpz_invert(r, a, m): r = a^-1 mod m in [0, m) when it exists */
#ifndef C10_GMP_GLUE_H
#define C10_GMP_GLUE_H
#include "prelude.h"
typedef long mpz_class;
#define BNDS 1152921504606846976L       /* 2^60: operands of sums */
#define BNDP 2147483648L                /* 2^31: characteristic product and operands of products */
#define VP_LMAX 9223372036854775807L
/* mpz_mod is an UNINTERPRETED function with GMP's documented range as its assumed contract: the solvers cannot relate
 * two bit-blasted dividers to each other (measured: no back end finishes), while an uninterpreted symbol makes "the
 * code reduces exactly this integer with mpz_mod" a syntactic fact.  What is assumed about GMP: mpz_mod(a, m) is the
 * residue of a modulo |m| in [0, |m|); it is a itself inside [0, m) and a + m inside [-m, 0). */
long __CPROVER_uninterpreted_mpz_mod(long a, long m);
static long vp_mpz_mod(long a, long m) {
  __CPROVER_assert(m != 0, "mpz_mod: non-zero divisor");
  long r = __CPROVER_uninterpreted_mpz_mod(a, m);
  __CPROVER_assume(r >= 0 && (m > 0 ? r < m : r < -m));
  __CPROVER_assume(!(m > 0 && a >= 0 && a < m) || r == a);          /* already reduced */
  __CPROVER_assume(!(m > 0 && a < 0 && a >= -m) || r == a + m);
  return r;
}
#define VP_MPZ_MOD(r, a, m) ((r) = vp_mpz_mod((a), (m)))
#define VP_MPZ_SUB(r, a, b) ((r) = (a) - (b))
/* mpz_class multiplication (operator*, operator*=) is uninterpreted as well: two bit-blasted multipliers on equal operands
 * are not recognised as equal by any back end.  Assumed about GMP: the product of two integers below 2^31 (one of them
 * below 2^32) in absolute value is below 2^62 (2^63) in absolute value (so that the sums formed with it are checked for overflow on real bounds). */
long __CPROVER_uninterpreted_mpz_mul(long a, long b);
static long vp_mpz_mul(long a, long b) {
  long r = __CPROVER_uninterpreted_mpz_mul(a, b);
  __CPROVER_assume(!(a > -BNDP && a < BNDP && b > -BNDP && b < BNDP) || (r > -BNDP * (BNDP / 2) && r < BNDP * (BNDP / 2)));
  __CPROVER_assume(!(a > -2 * BNDP && a < 2 * BNDP && b > -BNDP && b < BNDP) || (r > -VP_LMAX && r < VP_LMAX));
  __CPROVER_assume(!(b > -2 * BNDP && b < 2 * BNDP && a > -BNDP && a < BNDP) || (r > -VP_LMAX && r < VP_LMAX));
  return r;
}
#define VP_MUL(a, b) __CPROVER_uninterpreted_mpz_mul((a), (b))      /* specification side */
/* canonical representative of x modulo P: x itself inside [0, P), x + P inside [-P, 0), mpz_mod(x, P) elsewhere */
#define NORM(x, P) (((x) >= 0 && (x) < (P)) ? (x) : (((x) >= -(P) && (x) < 0) ? (x) + (P) : __CPROVER_uninterpreted_mpz_mod((x), (P))))
/* mpz_class operator% and operator/ (truncating division, like C): uninterpreted, with the assumed contract
 * |a % m| < |m|, the sign of a % m is the sign of a (or it is 0), and a % m == a when |a| < |m|. */
long __CPROVER_uninterpreted_mpz_tdiv_r(long a, long m);
long __CPROVER_uninterpreted_mpz_tdiv_q(long a, long m);
static long vp_mpz_tdiv_r(long a, long m) {
  __CPROVER_assert(m != 0, "operator%: non-zero divisor");
  long r = __CPROVER_uninterpreted_mpz_tdiv_r(a, m);
  __CPROVER_assume(m <= 0 || (r > -m && r < m && (a >= 0 ? r >= 0 : r <= 0) && ((a > -m && a < m) ? r == a : true)));
  return r;
}
static long vp_mpz_tdiv_q(long a, long m) { __CPROVER_assert(m != 0, "operator/: non-zero divisor"); return __CPROVER_uninterpreted_mpz_tdiv_q(a, m); }
#define TDIVR(a, m) __CPROVER_uninterpreted_mpz_tdiv_r((a), (m))       /* specification side */
static long x_tdiv_r(long a, long m) {   /* specification side, with the same assumed range (a second copy: never shared with instrumented code) */
  long r = __CPROVER_uninterpreted_mpz_tdiv_r(a, m);
  __CPROVER_assume(m <= 0 || (r > -m && r < m && (a >= 0 ? r >= 0 : r <= 0) && ((a > -m && a < m) ? r == a : true)));
  return r;
}
#define TDIVQ(a, m) __CPROVER_uninterpreted_mpz_tdiv_q((a), (m))
/* mpz_gcd / mpz_invert: uninterpreted (their values are GMP's business); only which arguments they get is under contract */
long __CPROVER_uninterpreted_mpz_gcd(long a, long b);
long __CPROVER_uninterpreted_mpz_invert(long a, long m);
static long vp_mpz_gcd(long a, long b) { long r = __CPROVER_uninterpreted_mpz_gcd(a, b); __CPROVER_assume(b <= 0 || (r >= 1 && r <= b)); return r; }   /* gcd(a, b) divides b > 0 */
#define VP_MPZ_GCD(r, a, b) ((r) = vp_mpz_gcd((a), (b)))
#define VP_MPZ_INVERT(r, a, m) ((r) = __CPROVER_uninterpreted_mpz_invert((a), (m)))
#endif
