/* c14d_glue.h - glue for the bounded whole-function run of compute_persistence_of_function_on_line (NMAX samples).
 * std::vector<Filtration> data becomes (data[], data_n) with a range assertion on every element access; the input
 * range becomes (g_in[], g_n); out(b, d) appends to a ghost log; lt is bound to < or > by -DCMP_GREATER.
 * The specification is the rank invariant of 0-dimensional sublevel-set persistence of a PL function on a line, which
 * does not share any algorithmic idea with the routine (no stack, no simplification): for s <= t,
 *   #{bars [b, d) : b <= s and t < d}  ==  #{maximal runs of {i : f(i) <= t} that contain an i with f(i) <= s}. */
#ifndef C14D_GLUE_H
#define C14D_GLUE_H
#include "prelude.h"
typedef size_t Index;
#ifdef FV_DOUBLE
typedef double Filtration;
#define FV_INF (1.0 / 0.0)
#define FV_IS_INF(x) ((x) == FV_INF)
#else
typedef int Filtration;
#define FV_INF 0                 /* std::numeric_limits<int>::infinity() is 0 */
#define FV_IS_INF(x) ((x) == 0)
#endif
#ifdef CMP_GREATER
#define LT(a, b) ((b) < (a))     /* std::greater<> */
#else
#define LT(a, b) ((a) < (b))     /* std::less<> */
#endif
Filtration g_in[NMAX]; Index g_n;
Filtration data[NMAX]; Index data_n;
Filtration g_ob[NMAX + 1], g_od[NMAX + 1]; unsigned g_nout;
Filtration g_s, g_t;             /* the two levels of the rank invariant (arbitrary, chosen by the harness) */
static Filtration* acc_data(Index k) { __CPROVER_assert(k < data_n, "element access within the live part of data"); return &data[k]; }
#define DATA(k) (*acc_data(k))
static void vec_push(Filtration v) { __CPROVER_assert(data_n < NMAX, "data never holds more elements than were read"); data[data_n] = v; data_n++; }
static void vec_drop(Index k) { __CPROVER_assert(k <= data_n, "pop / erase within the live part of data"); data_n -= k; }
static Filtration acc_in(Index k) { __CPROVER_assert(k < g_n, "read within the input range"); return g_in[k]; }
static void out_rec(Filtration b, Filtration d) { __CPROVER_assert(g_nout < NMAX + 1, "at most one bar per sample"); g_ob[g_nout] = b; g_od[g_nout] = d; g_nout++; }
/* specification side (never called from the instrumented code) */
static bool x_is_input(Filtration v) { bool f = false; for (Index i = 0; i < NMAX; i++) if (i < g_n && g_in[i] == v) f = true; return f; }
static bool x_is_min(Filtration v) { bool ok = true; for (Index i = 0; i < NMAX; i++) if (i < g_n && LT(g_in[i], v)) ok = false; return ok; }
static unsigned x_beta(void) {   /* components of {f <= t} that meet {f <= s} */
  unsigned c = 0; bool run = false, has = false;
  for (Index i = 0; i < NMAX; i++) {
    bool act = i < g_n && !LT(g_t, g_in[i]);
    if (act) { run = true; if (!LT(g_s, g_in[i])) has = true; }
    else { if (run && has) c++; run = false; has = false; }
  }
  if (run && has) c++;
  return c;
}
static unsigned x_bars(void) {   /* bars alive over [s, t]; the last record is the infinite bar */
  unsigned c = 0;
  for (unsigned k = 0; k < NMAX + 1; k++) if (k < g_nout) {
    bool last = k + 1 == g_nout;
    if (!LT(g_s, g_ob[k]) && (last || LT(g_t, g_od[k]))) c++;
  }
  return c;
}
static bool P_empty(void) { return g_n != 0 || g_nout == 0; }
static bool P_infinite_bar(void) { return g_n == 0 || (g_nout >= 1 && FV_IS_INF(g_od[g_nout - 1]) && x_is_input(g_ob[g_nout - 1]) && x_is_min(g_ob[g_nout - 1])); }
static bool P_finite_bars(void) {
  bool ok = true;
  for (unsigned k = 0; k < NMAX + 1; k++) if (k + 1 < g_nout) ok = ok && LT(g_ob[k], g_od[k]) && x_is_input(g_ob[k]) && x_is_input(g_od[k]);
  return ok;
}
static bool P_rank(void) { return LT(g_t, g_s) || x_bars() == x_beta(); }
static bool in_ok(void) {
  bool ok = g_n <= NMAX;
#ifdef FV_DOUBLE
  for (Index i = 0; i < NMAX; i++) ok = ok && g_in[i] == g_in[i];
  ok = ok && g_s == g_s && g_t == g_t;
#endif
  return ok;
}
#endif
