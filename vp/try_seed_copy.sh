#!/bin/bash
# usage: try_seed_copy.sh <patch> <ID> [check args...]
# Runs the check against a scratch copy of /repo's src/ with the seeded change applied (VERIF_REPO), so that /repo itself
# is not touched and a background run on /repo is not disturbed.  The copy is removed afterwards.
set -u
patch=$(readlink -f "$1"); id=$2; shift 2
W=$(mktemp -d /tmp/seedcopy.XXXXXX)
mkdir -p $W/src && rsync -a --exclude '*.md' /repo/src/ $W/src/ || exit 3
(cd $W && patch -s -p1 < "$patch") || { echo "patch does not apply"; rm -rf $W; exit 3; }
cd /verif && VERIF_EVIDENCE_DIR=/verif/out/seed_evidence VERIF_REPO=$W ./check "$id" "$@" 2>&1 | grep -v '^KNOWN' | tail -12
rc=${PIPESTATUS[0]}
rm -rf $W
echo "exit=$rc"
