#!/usr/bin/env python3
"""setup_cmd: offline self-test of the framework.  Checks the tools, extracts and compiles every unit of every
registered property module from /repo's current tree (no solving), and builds the native replay programs."""
import concurrent.futures as cf
import importlib
import json
import os
import shutil
import sys

sys.path.insert(0, os.path.dirname(os.path.dirname(os.path.abspath(__file__))))
from vp import driver as D          # noqa: E402
from vp import extract as X         # noqa: E402


def main():
    ok = True
    for tool, arg in (("cbmc", "--version"), ("goto-cc", "--version"), ("goto-instrument", "--version"),
                      ("z3", "--version"), ("cvc5", "--version"), ("g++", "--version")):
        rc, o, e, s = D.sh([tool, arg], 30)
        line = (o + e).strip().split("\n")[0] if rc == 0 else f"MISSING (rc={rc})"
        print(f"tool {tool}: {line}")
        ok &= rc == 0
    man = json.load(open(os.path.join(D.VERIF, "MANIFEST.json")))
    props = sorted({c["property_id"] for c in man["checks"]})
    bdir = os.path.join(D.BUILD, "selftest")
    shutil.rmtree(bdir, ignore_errors=True)
    for prop in props:
        mod = importlib.import_module("contracts." + prop.lower())
        # every function under contract appears in the quick tier already (the thorough tier adds shapes / ranges)
        units = mod.units("quick" if prop == "C13" else "thorough")

        def one(u):
            try:
                D.build_unit(u, os.path.join(bdir, prop, u.uid))
                return None
            except X.ExtractionError as ex:
                return f"{u.uid}: {ex}"
        with cf.ThreadPoolExecutor(max_workers=D.JOBS) as ex:
            errs = [r for r in ex.map(one, units) if r]
        print(f"{prop}: {len(units)} units extracted from /repo and compiled, {len(errs)} failures")
        for e in errs[:10]:
            print("  ", e[:500])
        ok &= not errs
        if hasattr(mod, "selftest"):
            msg = mod.selftest()
            print(f"{prop}: {msg}")
            ok &= not msg.startswith("FAIL")
    shutil.rmtree(bdir, ignore_errors=True)
    print("selftest", "ok" if ok else "FAILED")
    return 0 if ok else 1


if __name__ == "__main__":
    sys.exit(main())
