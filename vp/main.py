"""./check <property> [--tier quick|thorough] [--replay <file>] [--only <glob>] [--no-canaries]

exit 0  every obligation explored held (known findings printed as KNOWN-FINDING lines)
exit 1  a VIOLATION line was printed (an obligation refuted on /repo's current tree, replay attached)
exit 2  tool error (extraction failed, solver timeout on a non-refutation-only obligation, vacuous harness,
        canary not refuted, counterexample that does not reproduce natively) - nothing is claimed
"""
import argparse
import fnmatch
import importlib
import json
import os
import shutil
import sys
import time

from . import driver as D
from . import extract as X

VERIF = D.VERIF



def assume_scan(mod):
    """mechanical scan, on every run, for what is assumed rather than proved: every __CPROVER_assume in the sidecar of
    the property and in the glue headers it includes, and every callee replaced by its contract"""
    import re as _re
    out = []
    src = getattr(mod, "__file__", None)
    files = [src] if src else []
    try:
        text = open(src, encoding="utf-8").read() if src else ""
    except OSError:
        text = ""
    for h in sorted(set(_re.findall(r"[\"']([\w]+_glue\.h)[\"']", text))):
        files.append(os.path.join(os.path.dirname(src), h))
    for f in files:
        try:
            lines = open(f, encoding="utf-8").read().split("\n")
        except OSError:
            continue
        hits = [ln.strip() for ln in lines if "__CPROVER_assume" in ln]
        if hits:
            out.append(f"assume-scan {os.path.basename(f)}: {len(hits)} __CPROVER_assume site(s) (harness input constraints, lemma premises, assumed ranges of external functions), e.g. " + " | ".join(h[:140] for h in hits[:3]))
    nrep = len(_re.findall(r"replace=\[", text))
    if nrep:
        out.append(f"assume-scan {os.path.basename(src)}: {nrep} unit definition(s) replace callees by their contracts (--replace-call-with-contract); every replaced contract that belongs to /repo is enforced by a unit of its own, ghost-answer stubs of callees outside the extracted set are assumptions and are named in the unit descriptions")
    return out

def load_known(prop):
    path = os.path.join(VERIF, "known_findings.jsonl")
    known, fixed = [], []
    if os.path.exists(path):
        for ln in open(path):
            ln = ln.strip()
            if not ln or ln.startswith("#"):
                continue
            e = json.loads(ln)
            if e.get("property") != prop:
                continue
            (fixed if e.get("status") == "fixed" else known).append(e)
    return known, fixed


def match_known(known, unit_id, failure, fclass):
    for e in known:
        if fnmatch.fnmatch(unit_id, e.get("unit", "*")) and fnmatch.fnmatch(failure["name"], e.get("obligation", "*")) \
                and e.get("input_class") == fclass:
            return e
    return None


def main(argv):
    ap = argparse.ArgumentParser()
    ap.add_argument("prop")
    ap.add_argument("--tier", default=os.environ.get("VERIF_TIER", "quick"))
    ap.add_argument("--replay")
    ap.add_argument("--only", help="glob on unit ids (debugging; evidence is then marked partial)")
    ap.add_argument("--no-canaries", action="store_true")
    ap.add_argument("--keep", action="store_true")
    a = ap.parse_args(argv)
    prop = a.prop.upper()
    tier = "thorough" if a.tier.startswith("t") else "quick"
    seed = int(os.environ.get("VERIF_SEED", "0") or 0)
    mod = importlib.import_module("contracts." + prop.lower())
    if a.replay:
        return replay_file(mod, a.replay)
    t0 = time.time()
    bdir = os.path.join(D.BUILD, prop)
    odir = os.path.join(D.OUT, prop)
    for d in (bdir, odir):
        shutil.rmtree(d, ignore_errors=True)
        os.makedirs(d)
    X._cache.clear()
    units = [u for u in mod.units(tier) if tier == "thorough" or u.tier == "quick"]
    if a.only:
        units = [u for u in units if fnmatch.fnmatch(u.uid, a.only)]
    ids = [u.uid for u in units]
    assert len(ids) == len(set(ids)), "duplicate unit ids"
    native = []
    import concurrent.futures as _cf
    with _cf.ThreadPoolExecutor(max_workers=1) as _ex:     # native stand-ins run alongside the solver runs
        nfut = None
        if hasattr(mod, "native"):
            nfut = _ex.submit(mod.native, tier, seed, bdir, a.only) if a.only else _ex.submit(mod.native, tier, seed, bdir)
        recs = D.run_units(units, bdir, with_canaries=not a.no_canaries)
        if nfut is not None:
            native = nfut.result()
    mod.NATIVE_RESULTS = native

    known, fixed = load_known(prop)
    errors, violations, known_hits = [], [], []
    n_ob = n_dis = n_bob = n_bdis = 0
    n_undecided = 0
    n_kf_ob = 0
    solver_s = 0.0
    by_backend, by_class = {}, {}
    samples, canaries, unit_summaries, functions = [], [], [], []
    for u, mut, r in recs:
        if mut:
            ok = r["status"] == "refuted" and any(f["class"] != "safety-reach" for f in r["failures"])
            inapplicable = r["status"] == "error" and any("canary mutation" in n and "did not apply" in n for n in r["notes"])
            canaries.append({"unit": u.uid, "refuted": ok, "status": "mutation-not-applicable" if inapplicable else r["status"],
                             "by": [f["name"] for f in r["failures"]][:3], "seconds": r.get("seconds")})
            if inapplicable:
                # the textual mutation no longer matches /repo's text (e.g. a renamed local): the vacuity guard of this
                # unit is then the reach assertion alone; not an error
                print(f"note: canary for {u.uid} not applicable to the current text of /repo", file=sys.stderr)
            elif not ok:
                errors.append(f"canary for {u.uid} was NOT refuted (status {r['status']}): contract too weak or "
                              f"run failed: {r['notes'][:2]}")
            continue
        solver_s += r.get("seconds", 0)
        for m in r.get("functions", []):
            functions.append({"unit": u.uid, **m})
        if r["status"] == "error":
            errors.append(f"{u.uid}: " + " | ".join(r["notes"])[:1500])
        bounded = (u.route == "B")
        kf_names = set()
        for f in r["failures"]:
            fc = mod.failure_class(u, f) if hasattr(mod, "failure_class") else None
            if match_known(known, u.uid, f, fc):
                kf_names.add(f["name"])
        for ob in r["obligations"]:
            if ob["name"] in kf_names:
                n_kf_ob += 1      # refuted today by a recorded known finding: reported, not counted as an obligation
                continue
            isb = bounded or ob["route"] == "B"
            if isb:
                n_bob += 1
                n_bdis += ob["status"] == "SUCCESS"
            else:
                n_ob += 1
                n_dis += ob["status"] == "SUCCESS"
            by_backend[ob["backend"]] = by_backend.get(ob["backend"], 0) + 1
            by_class[ob["class"]] = by_class.get(ob["class"], 0) + 1
        n_undecided += len(r["undecided"])
        unit_summaries.append({"unit": u.uid, "route": u.route, "bound": u.bound, "status": r["status"],
                               "obligations": len(r["obligations"]),
                               "discharged": sum(o["status"] == "SUCCESS" for o in r["obligations"]),
                               "undecided": r["undecided"], "seconds": r.get("seconds"), "desc": u.desc,
                               "tu_sha256_16": r.get("tu_sha256_16")})
        if len(samples) < 6 and r["obligations"]:
            o = [x for x in r["obligations"] if x["class"] == "postcondition"] or r["obligations"]
            samples.append({k: o[0][k] for k in ("name", "class", "desc", "status", "backend", "route", "seconds")} | {"unit": u.uid})
        for f in r["failures"]:
            handle_failure(mod, prop, u, f, r, odir, known, violations, known_hits, errors)
    for n in native:
        solver_s += n.get("seconds", 0)
        unit_summaries.append({k: n[k] for k in n if k not in ("failures",)})
        n_bob += n.get("cases", 0)
        n_bdis += n.get("cases", 0) - len(n.get("failures", []))
        if n.get("status") == "error":
            errors.append(f"{n['unit']}: {n.get('notes')}")
        for f in n.get("failures", []):
            handle_native_failure(prop, n, f, odir, known, violations, known_hits)

    wall = time.time() - t0
    trusted = list(getattr(mod, "TRUSTED", []))
    assumptions = list(getattr(mod, "ASSUMPTIONS", []))
    assumptions += assume_scan(mod)
    ev = {
        "property_id": prop, "tier": tier, "seed": seed, "level": getattr(mod, "LEVEL", "proof"),
        "coverage": {
            "obligations": n_ob, "discharged": n_dis,
            "checker_cmd": "goto-cc unit.c && goto-instrument --dfcc main --enforce-contract <f> "
                           "[--replace-call-with-contract <g>] [--apply-loop-contracts] && cbmc " + " ".join(D.CBMC_CHECKS) +
                           " [--z3|--cvc5] --property <clause>   (cbmc 6.11.0; per-unit command lines in units[])",
            "trusted_base": trusted,
            "bounded_obligations": n_bob, "bounded_discharged": n_bdis,
            "undecided_refutation_only": n_undecided,
            "obligations_refuted_by_known_findings": n_kf_ob,
            "obligations_by_backend": by_backend, "obligations_by_class": by_class,
            "functions_under_contract": functions,
            "units": unit_summaries,
            "canaries": canaries,
            "samples": samples,
            "solver_seconds_sum": round(solver_s, 1),
            "known_findings_hit": known_hits,
            "partial_run": bool(a.only),
            "evaluations": n_ob + n_bob, "distinct_nontrivial": len({s["unit"] for s in unit_summaries if s.get("obligations", s.get("cases", 0))}),
            "rule": "one evaluation = one CBMC proof obligation (or one natively enumerated case in an exhaustive-native "
                    "stand-in); distinct_nontrivial = number of distinct units (function x binding x bound) with >= 1 obligation",
        },
        "assumptions": assumptions,
        "wall_s": round(wall, 1),
        "violations": len(violations),
    }
    if errors:
        ev["coverage"]["errors"] = errors
    # seeded-change experiments (vp/try_seed*.sh) set VERIF_EVIDENCE_DIR so that they do not overwrite the record of the real tree
    evdir = os.environ.get("VERIF_EVIDENCE_DIR") or os.path.join(VERIF, "evidence")
    os.makedirs(evdir, exist_ok=True)
    if not a.only:
        with open(os.path.join(evdir, prop + ".json"), "w") as f:
            json.dump(ev, f, indent=1)
    for k in known_hits:
        print(f"KNOWN-FINDING: property={prop} {k}")
    for v in violations:
        print(v)
    print(f"[{prop} {tier}] units={len(units)} obligations={n_ob} discharged={n_dis} bounded={n_bdis}/{n_bob} "
          f"undecided(R)={n_undecided} canaries={sum(c['refuted'] for c in canaries)}/{len(canaries)} "
          f"violations={len(violations)} errors={len(errors)} wall={wall:.0f}s")
    if not a.keep and not errors and not violations:
        shutil.rmtree(bdir, ignore_errors=True)
    for e in errors:
        print("ERROR:", e, file=sys.stderr)
    if violations:
        return 1
    if errors:
        return 2
    if n_ob + n_bob == 0:
        print("ERROR: zero obligations", file=sys.stderr)
        return 2
    return 0


def handle_failure(mod, prop, u, f, r, odir, known, violations, known_hits, errors):
    fclass = mod.failure_class(u, f) if hasattr(mod, "failure_class") else None
    k = match_known(known, u.uid, f, fclass)
    rp = os.path.join(odir, (u.uid + "." + f["name"]).replace("/", "_") + ".replay.json")
    rep = None
    if u.replay and f["inputs"]:
        try:
            rep = u.replay(u, f)
        except Exception as ex:  # replay machinery failure is a tool error
            rep = {"reproduced": None, "error": repr(ex)}
    if rep and rep.get("reproduced") is None and not rep.get("error"):
        # the counterexample is outside what the real class can be instantiated with (e.g. a non-prime
        # characteristic): ask the verifier for one inside it and replay that
        f2 = D.rederive_replayable(u, f, os.path.join(D.BUILD, prop))
        if f2 is not None:
            try:
                rep2 = u.replay(u, f2)
            except Exception as ex:
                rep2 = {"reproduced": None, "error": repr(ex)}
            rep2["first_counterexample"] = {"inputs": f["inputs"], "replay": rep}
            f = dict(f)
            f["inputs"] = f2["inputs"]
            rep = rep2
            fclass = mod.failure_class(u, f) if hasattr(mod, "failure_class") else None
            k = match_known(known, u.uid, f, fclass)
    doc = {"property": prop, "unit": u.uid, "obligation": f["name"], "class": f["class"], "description": f["desc"],
           "backend": f["backend"], "inputs": f["inputs"], "input_class": fclass, "native_replay": rep,
           "verifier_output": {"status": f["status"], "notes": r.get("notes"), "tu": r.get("tu")},
           "functions": r.get("functions")}
    with open(rp, "w") as fh:
        json.dump(doc, fh, indent=1)
    if k:
        known_hits.append(f"{u.uid} {f['name']} [{fclass}]: {k.get('what')}")
        return
    if rep and rep.get("error"):
        errors.append(f"{u.uid} {f['name']}: replay machinery failed: {rep['error'][:600]}")
    elif rep and rep.get("reproduced") is True:
        violations.append(f"VIOLATION property={prop} replay={rp}")
    elif rep and rep.get("reproduced") is False:
        errors.append(f"{u.uid} {f['name']}: CBMC counterexample {f['inputs']} does NOT reproduce on the real code "
                      f"({rep.get('detail')}) - extraction and code disagree, nothing is believed")
    else:
        violations.append(f"VIOLATION property={prop} replay={rp} no-failing-input-found")


def handle_native_failure(prop, n, f, odir, known, violations, known_hits):
    rp = os.path.join(odir, (n["unit"] + "." + str(f.get("id", "case"))).replace("/", "_") + ".replay.json")
    with open(rp, "w") as fh:
        json.dump({"property": prop, "unit": n["unit"], "native_case": f}, fh, indent=1)
    for e in known:
        if fnmatch.fnmatch(n["unit"], e.get("unit", "*")) and e.get("input_class") == f.get("input_class"):
            known_hits.append(f"{n['unit']} [{f.get('input_class')}]: {e.get('what')}")
            return
    violations.append(f"VIOLATION property={prop} replay={rp}")


def replay_file(mod, path):
    doc = json.load(open(path))
    print(json.dumps(doc, indent=1)[:4000])
    if hasattr(mod, "replay_doc"):
        return mod.replay_doc(doc)
    return 0
