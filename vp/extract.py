"""Mechanical extraction of C++ functions from /repo into the C subset CBMC accepts.

Nothing here edits /repo.  Every function under contract is located in /repo's *current working tree* by
(file, signature regex) + brace matching on every run, and rewritten by the fixed, numbered rules of DESIGN.md
section 3.  A target that cannot be located, a must-fire rule that does not fire, or a C++ token that survives the
rewriting raises ExtractionError -> the check exits 2 (tool error), never 0 and never a VIOLATION.

The rule log (which rule fired how often on which function) is returned with the text and copied to the evidence.
"""
import os
import re

REPO = os.environ.get("VERIF_REPO", "/repo")


class ExtractionError(Exception):
    pass


# ----------------------------------------------------------------------------------------------- lexical helpers

def read_repo(path):
    p = os.path.join(REPO, path)
    try:
        with open(p, encoding="utf-8") as f:
            return f.read()
    except OSError as e:
        raise ExtractionError(f"cannot read {p}: {e}")


def strip_comments(s):
    """Remove // and /* */ comments (string/char literals respected); keeps newlines of block comments."""
    out = []
    i, n = 0, len(s)
    while i < n:
        c = s[i]
        if c == '"' or c == "'":
            j = i + 1
            while j < n and s[j] != c:
                j += 2 if s[j] == "\\" else 1
            out.append(s[i:j + 1])
            i = j + 1
        elif s.startswith("//", i):
            j = s.find("\n", i)
            i = n if j < 0 else j
        elif s.startswith("/*", i):
            j = s.find("*/", i + 2)
            if j < 0:
                raise ExtractionError("unterminated comment")
            out.append("\n" * s.count("\n", i, j))
            i = j + 2
        else:
            out.append(c)
            i += 1
    return "".join(out)


def match_close(s, i, open_c="{", close_c="}"):
    """s[i] == open_c ; return index of the matching close_c (comments must be stripped already)."""
    assert s[i] == open_c, (s[i - 20:i + 20], open_c)
    depth = 0
    n = len(s)
    while i < n:
        c = s[i]
        if c == '"' or c == "'":
            j = i + 1
            while j < n and s[j] != c:
                j += 2 if s[j] == "\\" else 1
            i = j + 1
            continue
        if c == open_c:
            depth += 1
        elif c == close_c:
            depth -= 1
            if depth == 0:
                return i
        i += 1
    raise ExtractionError(f"unbalanced {open_c}{close_c}")


def resolve_preprocessor(s, defines=()):
    """Resolve '#if 0 / #elif 1 / #ifdef X / #ifndef X / #else / #endif' blocks inside a function body with the
    given set of defined macros (default: none defined -> GUDHI_USE_TBB, DEBUG_TRACES, GUDHI_DETAILED_TIMES off,
    as in the pinned build of the test-suite).  Only the forms that occur in the extracted functions are handled;
    anything else raises."""
    lines = s.split("\n")
    out = []
    stack = []  # each: [taken_any, currently_active]

    def active():
        return all(fr[1] for fr in stack)

    for ln in lines:
        t = ln.strip()
        if t.startswith("#"):
            d = re.sub(r"\s+", " ", t[1:].strip())
            if d.startswith("ifdef "):
                v = d.split()[1] in defines
                stack.append([v, v])
            elif d.startswith("ifndef "):
                v = d.split()[1] not in defines
                stack.append([v, v])
            elif d.startswith("if "):
                v = _pp_cond(d[3:], defines)
                stack.append([v, v])
            elif d.startswith("elif "):
                fr = stack[-1]
                v = (not fr[0]) and _pp_cond(d[5:], defines)
                fr[1] = v
                fr[0] = fr[0] or v
            elif d == "else":
                fr = stack[-1]
                fr[1] = not fr[0]
                fr[0] = True
            elif d == "endif":
                stack.pop()
            else:
                raise ExtractionError(f"unhandled preprocessor line in extracted text: {t}")
            out.append("")
        else:
            out.append(ln if active() else "")
    if stack:
        raise ExtractionError("unbalanced #if in extracted text")
    return "\n".join(out)


def _pp_cond(c, defines):
    c = c.strip()
    if c in ("0", "1"):
        return c == "1"
    m = re.fullmatch(r"defined\s*\(?\s*(\w+)\s*\)?", c)
    if m:
        return m.group(1) in defines
    raise ExtractionError(f"unhandled #if condition: {c}")


# ----------------------------------------------------------------------------------------------- location

class Located:
    def __init__(self, path, sig, body, start_line):
        self.path, self.sig, self.body, self.start_line = path, sig, body, start_line


_cache = {}


def drop_disabled_regions(s):
    """blank out `#if 0 ... #endif` regions that have no #else/#elif of their own (dead code at file or class scope,
    e.g. the three disabled ripser_auto overloads); line structure is kept"""
    lines = s.split("\n")
    out = list(lines)
    i = 0
    while i < len(lines):
        if re.match(r"\s*#\s*if\s+0\s*$", lines[i]):
            depth, j, plain = 1, i + 1, True
            while j < len(lines) and depth > 0:
                t = lines[j].strip()
                if re.match(r"#\s*if", t):
                    depth += 1
                elif re.match(r"#\s*endif", t):
                    depth -= 1
                elif depth == 1 and re.match(r"#\s*(else|elif)", t):
                    plain = False
                j += 1
            if plain and depth == 0:
                for k in range(i, j):
                    out[k] = ""
                i = j
                continue
        i += 1
    return "\n".join(out)


def _stripped(path):
    if path not in _cache:
        _cache[path] = drop_disabled_regions(strip_comments(read_repo(path)))
    return _cache[path]


def locate(path, sig_regex, nth=0, within=None):
    """Find the nth function whose signature matches sig_regex (searched in comment-stripped text).  `within`
    = regex of an enclosing class/struct head: the search is restricted to that class's braces.
    Returns Located(sig text up to '{', body text including braces)."""
    s = _stripped(path)
    lo, hi = 0, len(s)
    if within:
        m = re.search(within, s)
        if not m:
            raise ExtractionError(f"{path}: enclosing scope /{within}/ not found")
        b = s.find("{", m.start())
        lo, hi = b, match_close(s, b) + 1
    ms = [m for m in re.finditer(sig_regex, s[lo:hi], flags=re.S)]
    # keep only matches followed (at paren depth 0) by '{' before any ';'  (definitions, not declarations/calls)
    good = []
    for m in ms:
        i = lo + m.end()
        depth = 0
        while i < hi:
            c = s[i]
            if c in "([":
                depth += 1
            elif c in ")]":
                depth -= 1
            elif c == ";" and depth <= 0:
                break
            elif c == "{" and depth <= 0:
                good.append((lo + m.start(), i))
                break
            i += 1
    if len(good) <= nth:
        raise ExtractionError(f"{path}: function /{sig_regex}/ (occurrence {nth}) not found "
                              f"({len(ms)} textual matches, {len(good)} definitions)")
    a, b = good[nth]
    e = match_close(s, b)
    return Located(path, s[a:b], s[b:e + 1], s.count("\n", 0, a) + 1)


def grab_expr(path, regex, subs=(), group=1):
    """extract an expression (e.g. the initialiser of a static data member) from /repo by regex; -> rewritten text"""
    s = _stripped(path)
    m = re.search(regex, s, flags=re.S)
    if not m:
        raise ExtractionError(f"{path}: expression /{regex}/ not found")
    t = " ".join(m.group(group).split())
    for rx, rep in subs:
        t = re.sub(rx, rep, t)
    check_is_c("x(void) {" + t + "}", "expr:" + regex[:30])
    return t


def loop_body(body, ordinal, kind=r"(?:for|while)"):
    """The `ordinal`-th (0-based, textual order, any nesting depth) loop of `body`: returns (header, body_text)."""
    it = [m for m in re.finditer(r"\b" + kind + r"\s*\(", body)]
    if len(it) <= ordinal:
        raise ExtractionError(f"loop ordinal {ordinal} not found ({len(it)} loops)")
    m = it[ordinal]
    p = body.index("(", m.start())
    q = match_close(body, p, "(", ")")
    j = q + 1
    while body[j].isspace():
        j += 1
    if body[j] != "{":
        raise ExtractionError("loop body is not a block")
    e = match_close(body, j)
    return body[m.start():q + 1], body[j:e + 1]


def enclosing_block(body, at_regex):
    """the innermost {...} block of `body` that contains the first match of at_regex"""
    m = re.search(at_regex, body)
    if not m:
        raise ExtractionError(f"block anchor /{at_regex}/ not found")
    depth = 0
    i = m.start()
    while i >= 0:
        if body[i] == "}":
            depth += 1
        elif body[i] == "{":
            if depth == 0:
                return body[i:match_close(body, i) + 1]
            depth -= 1
        i -= 1
    raise ExtractionError("no enclosing block")


def bare_block(body, ordinal):
    """the `ordinal`-th bare `{...}` block among the top-level statements of a brace-enclosed body"""
    assert body.lstrip()[0] == "{"
    i = body.index("{") + 1
    n = len(body)
    found = []
    at_stmt_start = True
    while i < n:
        c = body[i]
        if c.isspace():
            i += 1
            continue
        if c == "}":
            break
        if c == "{" and at_stmt_start:
            e = match_close(body, i)
            found.append(body[i:e + 1])
            i = e + 1
            continue
        # skip one statement: up to ';' at depth 0, or a compound statement's closing brace
        depth = 0
        while i < n:
            c = body[i]
            if c in "([":
                depth += 1
            elif c in ")]":
                depth -= 1
            elif c == "{" and depth == 0:
                i = match_close(body, i)
                # `if (...) {...} else {...}` chains: continue if followed by else
                j = i + 1
                while j < n and body[j].isspace():
                    j += 1
                if body.startswith("else", j):
                    i = j + 4
                    continue
                i += 1
                break
            elif c == ";" and depth == 0:
                i += 1
                break
            i += 1
    if len(found) <= ordinal:
        raise ExtractionError(f"bare block {ordinal} not found ({len(found)} bare blocks)")
    return found[ordinal]


def slice_between(body, first_regex, last_regex, nth=0, after=False):
    """Statement slice of a body: from the nth match of first_regex to the end of the first match of last_regex
    (searched from the start of that match, or from its end when after=True)."""
    ms = list(re.finditer(first_regex, body))
    if len(ms) <= nth:
        raise ExtractionError(f"slice start /{first_regex}/ (occurrence {nth}) not found")
    m1 = ms[nth]
    base = m1.end() if after else m1.start()
    m2 = re.search(last_regex, body[base:], flags=re.S)
    if not m2:
        raise ExtractionError(f"slice end /{last_regex}/ not found")
    return body[m1.start():base + m2.end()]


# ----------------------------------------------------------------------------------------------- rewrite rules

class RuleLog:
    def __init__(self, fn):
        self.fn = fn
        self.fired = []

    def note(self, rule, count):
        self.fired.append((rule, count))

    def as_list(self):
        return [f"{r} x{c}" for r, c in self.fired if c]


def r1_signature(sig, log):
    """R1: drop template<...> heads and linkage/cv keywords from a signature."""
    n_total = 0
    # template heads (possibly nested <>)
    while True:
        m = re.search(r"\btemplate\s*<", sig)
        if not m:
            break
        i = sig.index("<", m.start())
        depth = 0
        j = i
        while True:
            if sig[j] == "<":
                depth += 1
            elif sig[j] == ">":
                depth -= 1
                if depth == 0:
                    break
            j += 1
        sig = sig[:m.start()] + sig[j + 1:]
        n_total += 1
    for kw in (r"\bstatic\b", r"\binline\b", r"\bconstexpr\b", r"\bfriend\b", r"\bvirtual\b", r"\bexplicit\b",
               r"\boverride\b", r"\bnoexcept\b", r"\[\[maybe_unused\]\]"):
        sig, k = re.subn(kw, " ", sig)
        n_total += k
    # trailing const (member-function qualifier): after the closing paren of the parameter list
    m = re.search(r"\)\s*const\s*$", sig.rstrip())
    if m:
        sig = sig.rstrip()[:m.start()] + ")"
        n_total += 1
    log.note("R1", n_total)
    return re.sub(r"[ \t]+", " ", sig).strip()


def split_params(sig):
    """-> (head 'ret name', [param strings])"""
    p = sig.index("(")
    q = match_close(sig, p, "(", ")")
    inner = sig[p + 1:q].strip()
    params, depth, cur = [], 0, ""
    for c in inner:
        if c in "(<[":
            depth += 1
        elif c in ")>]":
            depth -= 1
        if c == "," and depth == 0:
            params.append(cur.strip())
            cur = ""
        else:
            cur += c
    if cur.strip():
        params.append(cur.strip())
    return sig[:p].strip(), params


def r5_references(sig, body, log, by_value_const_ref=True):
    """R5: `T& x` -> `T* x` with uses `(*x)`; `const T& x` -> `T x` (by value; the function cannot write through
    it, and aliasing with another reference parameter is assumed absent - recorded by the caller)."""
    head, params = split_params(sig)
    new_params, n = [], 0
    for prm in params:
        prm = re.sub(r"\s*=\s*[^,]+$", "", prm)   # default argument
        m = re.fullmatch(r"(.*?)(&&|&)\s*(\w+)", prm, flags=re.S)
        if m:
            ty, name = m.group(1).strip(), m.group(3)
            is_const = bool(re.search(r"\bconst\b", ty))
            ty_nc = re.sub(r"\bconst\b", "", ty).strip()
            if is_const and by_value_const_ref:
                new_params.append(f"{ty_nc} {name}")
            else:
                new_params.append(f"{ty_nc}* {name}")
                body = re.sub(r"(?<![\w.>])" + re.escape(name) + r"\b(?!\s*\()", f"(*{name})", body)
            n += 1
        else:
            new_params.append(re.sub(r"\bconst\b\s*", "", prm) if re.search(r"\bconst\b", prm) and "*" not in prm else prm)
    log.note("R5", n)
    return f"{head}({', '.join(new_params) if new_params else 'void'})", body


def r3_if_constexpr(body, table, log):
    """R3: `if constexpr (C) A [else B]` -> the branch selected by `table` (list of (regex on C, bool))."""
    n = 0
    while True:
        m = re.search(r"\bif\s+constexpr\s*\(", body)
        if not m:
            break
        p = body.index("(", m.start())
        q = match_close(body, p, "(", ")")
        cond = re.sub(r"\s+", " ", body[p + 1:q].strip())
        val = None
        for rx, v in table:
            if re.fullmatch(rx, cond):
                val = v
                break
        if val is None:
            raise ExtractionError(f"{log.fn}: R3 has no binding for `if constexpr ({cond})`")
        a0, a1 = _statement_span(body, q + 1)
        rest = a1
        j = a1
        while j < len(body) and body[j].isspace():
            j += 1
        b0 = b1 = None
        if body.startswith("else", j) and not (body[j + 4].isalnum() or body[j + 4] == "_"):
            b0, b1 = _statement_span(body, j + 4)
            rest = b1
        if val:
            chosen = body[a0:a1]
        else:
            chosen = body[b0:b1] if b0 is not None else ""
        body = body[:m.start()] + chosen + body[rest:]
        n += 1
    log.note("R3", n)
    return body


def _statement_span(s, i):
    """span [a,b) of the statement starting at or after i: a {...} block, an `if (...) stmt [else stmt]`, or up to ';'"""
    while s[i].isspace():
        i += 1
    if s[i] == "{":
        return i, match_close(s, i) + 1
    m = re.match(r"if\s*(constexpr\s*)?\(", s[i:])
    if m:
        p = s.index("(", i)
        q = match_close(s, p, "(", ")")
        _, e = _statement_span(s, q + 1)
        j = e
        while j < len(s) and s[j].isspace():
            j += 1
        if s.startswith("else", j) and not (s[j + 4].isalnum() or s[j + 4] == "_"):
            _, e = _statement_span(s, j + 4)
        return i, e
    depth = 0
    j = i
    while True:
        c = s[j]
        if c in "([{":
            depth += 1
        elif c in ")]}":
            depth -= 1
        elif c == ";" and depth == 0:
            return i, j + 1
        j += 1


def r_casts(body, log):
    """static_cast<T>(x) -> ((T)(x))   (part of R11)."""
    n = 0
    while True:
        m = re.search(r"\bstatic_cast\s*<", body)
        if not m:
            break
        i = body.index("<", m.start())
        depth, j = 0, i
        while True:
            if body[j] == "<":
                depth += 1
            elif body[j] == ">":
                depth -= 1
                if depth == 0:
                    break
            j += 1
        ty = body[i + 1:j].strip()
        p = j + 1
        while body[p].isspace():
            p += 1
        q = match_close(body, p, "(", ")")
        body = body[:m.start()] + f"(({ty})({body[p + 1:q]}))" + body[q + 1:]
        n += 1
    log.note("R11.cast", n)
    return body


def r6_lambdas(body, log, ret_macros=True):
    """R6: `auto f = [&](args) { return E; };` -> `#define f(args) (E)`;  `auto f = [&](args) { S; };` ->
    `#define f(args) do { S; } while (0)`.  The #defines are emitted in place (multi-line bodies are joined with
    backslashes) and #undef'd by the caller at the end of the function (`undefs` returned)."""
    names = []
    n = 0
    while True:
        m = re.search(r"\bauto\s+(\w+)\s*=\s*\[[^\[\]]*\]\s*\(", body)   # any capture list: [&], [&name], [=], [], [&x, this]
        if not m:
            break
        name = m.group(1)
        p = body.index("(", m.end() - 1)
        q = match_close(body, p, "(", ")")
        args = [a.strip().split()[-1] for a in body[p + 1:q].split(",") if a.strip()]
        j = q + 1
        mtail = re.match(r"\s*(?:mutable\s*)?(?:->\s*[\w:]+\s*)?", body[j:])   # optional `mutable`, optional `-> T`
        j += mtail.end()
        if body[j] != "{":
            raise ExtractionError(f"{log.fn}: R6 lambda {name} has an unexpected form")
        e = match_close(body, j)
        inner = body[j + 1:e].strip()
        k = e + 1
        while body[k].isspace():
            k += 1
        if body[k] != ";":
            raise ExtractionError(f"{log.fn}: R6 lambda {name}: missing ';'")
        mret = re.fullmatch(r"return\s+(.*);", inner, flags=re.S)
        if mret and ";" not in mret.group(1):
            expr = " ".join(mret.group(1).split())
            macro = f"#define {name}({', '.join(args)}) ({expr})"
        elif re.search(r"\breturn\b", inner):
            # a statement lambda with an inner `return` cannot be a macro (the return would leave the enclosing function):
            # it may only be passed around, never expanded; its body can be put under contract as a piece of kind 'lambda'
            macro = f"#define {name}(...) VP_LAMBDA_WITH_INNER_RETURN_cannot_be_expanded_as_a_macro"
        else:
            stm = " ".join(inner.split())
            macro = f"#define {name}({', '.join(args)}) do {{ {stm} }} while (0)"
        body = body[:m.start()] + "\n#undef " + name + "\n" + macro + "\n" + body[k + 1:]
        names.append(name)
        n += 1
    log.note("R6", n)
    return body, names


def check_no_lambda(body, fn):
    """after the per-target substitutions (which may consume lambdas passed inline to std algorithms)"""
    if re.search(r"\[[&=]?\w*\]\s*\((?:[^()]*\))\s*(?:mutable\s*)?\{", body) or re.search(r"\[this\b", body):
        raise ExtractionError(f"{fn}: an unconverted lambda survives R6 and the per-target substitutions")


def r9_throw(body, log, ret="0", is_void=False):
    """R9: `throw X(...);` -> `{ g_thrown = K; return [ret]; }`  K = ordinal (1-based) of the throw in the body."""
    n = 0
    while True:
        m = re.search(r"\bthrow\b", body)
        if not m:
            break
        j = m.end()
        depth = 0
        while True:
            c = body[j]
            if c in "([{":
                depth += 1
            elif c in ")]}":
                depth -= 1
            elif c == ";" and depth == 0:
                break
            j += 1
        n += 1
        rv = "" if is_void else " " + ret
        body = body[:m.start()] + f"{{ g_thrown = {n}; return{rv}; }}" + body[j + 1:]
    log.note("R9", n)
    return body


def r10_checks(body, log):
    """R10: GUDHI_CHECK(c, e) / GUDHI_assert(c) / assert(c) -> __CPROVER_assert(c, "...")."""
    n = 0
    for macro in ("GUDHI_CHECK", "GUDHI_assert", "assert"):
        pos = 0
        while True:
            m = re.search(r"(?<![\w_])" + macro + r"\s*\(", body[pos:])
            if not m:
                break
            a = pos + m.start()
            p = body.index("(", a)
            q = match_close(body, p, "(", ")")
            inner = body[p + 1:q]
            # first top-level argument
            depth, k = 0, 0
            cut = len(inner)
            for k, c in enumerate(inner):
                if c in "([{":
                    depth += 1
                elif c in ")]}":
                    depth -= 1
                elif c == "," and depth == 0:
                    cut = k
                    break
            cond = inner[:cut].strip()
            rep = f'__CPROVER_assert({cond}, "GUDHI_CHECK {" ".join(cond.split())}")'
            body = body[:a] + rep + body[q + 1:]
            pos = a + len(rep)
            n += 1
    log.note("R10", n)
    return body


def apply_subs(text, subs, log, label="S"):
    """Per-target substitutions (regex, replacement[, min_count]); each must fire at least min_count (default 1)."""
    for k, sub in enumerate(subs):
        rx, rep = sub[0], sub[1]
        need = sub[2] if len(sub) > 2 else 1
        text, c = re.subn(rx, rep, text, flags=re.S)
        if c < need:
            raise ExtractionError(f"{log.fn}: must-fire substitution {label}{k} /{rx}/ fired {c} < {need} times")
        log.note(f"{label}{k}:/{rx}/", c)
    return text


FORBIDDEN = [r"\bauto\b", r"\[&\]", r"\bstd\s*::", r"\btemplate\b", r"::", r"\bconstexpr\b", r"\bstatic_cast\b",
             r"\bthrow\b", r"\bnoexcept\b", r"\btypename\b", r"\bnullptr\b", r"\bthis\b", r"\bnew\b", r"\bdelete\b",
             r"\boperator\b", r"\bGUDHI_CHECK\b"]


def check_is_c(text, fn):
    t = re.sub(r'"[^"\n]*"', '""', text)    # ignore string literals (assert messages)
    for rx in FORBIDDEN:
        m = re.search(rx, t)
        if m:
            ctx = t[max(0, m.start() - 40):m.end() + 40].replace("\n", " ")
            raise ExtractionError(f"{fn}: C++ token /{rx}/ survives extraction near: ...{ctx}...")
    # reference in a parameter list
    head = t.split("{", 1)[0]
    if "&" in head.split("__CPROVER")[0]:
        raise ExtractionError(f"{fn}: reference parameter survives extraction: {head.strip()}")


# ----------------------------------------------------------------------------------------------- one function


def r14_goto_dispatch(body, log):
    """R14: a goto state machine becomes one dispatch loop.  Everything before the first label runs once (it holds the
    declarations); from the first label on, `L:` -> `case K: ;` and `goto L;` -> `{ vp_st = K; continue; }` inside
    `for (;;) { switch (vp_st) { case 0: ; ... } break; }`.  Control flow is unchanged (C allows case labels inside nested
    blocks); the verifier then sees a single loop instead of one loop per backward goto."""
    targets = []
    for m in re.finditer(r"\bgoto\s+(\w+)\s*;", body):
        if m.group(1) not in targets:
            targets.append(m.group(1))
    if not targets:
        raise ExtractionError(f"{log.fn}: R14 requested but the body has no goto")
    # labels that are only reached by falling through (or that lost their last goto) keep a state number as well
    for m in re.finditer(r"(?:^|[;{}])\s*([A-Za-z_]\w*)\s*:(?!:)", body, flags=re.M):
        if m.group(1) not in ("default", "case", "public", "private", "protected") and m.group(1) not in targets:
            targets.append(m.group(1))
    pos = {}
    for t in targets:
        ms = [m for m in re.finditer(r"(?<![\w:?])" + re.escape(t) + r"\s*:(?!:)", body)]
        if len(ms) != 1:
            raise ExtractionError(f"{log.fn}: R14 label {t} found {len(ms)} times")
        pos[t] = ms[0]
    order = sorted(targets, key=lambda t: pos[t].start())
    first = pos[order[0]].start()
    b0 = body.index("{")
    e0 = match_close(body, b0)
    pro, rest = body[b0 + 1:first], body[first:e0]
    if re.search(r"\bgoto\b", pro):
        raise ExtractionError(f"{log.fn}: R14 goto before the first label")
    # no declaration may follow the first label (its value would not survive the loop iteration), no label inside a switch
    for m in re.finditer(r"(?:^|[;{}])\s*([A-Za-z_]\w*)\s+[A-Za-z_]\w*\s*(?:=[^;]*)?;", rest):
        if m.group(1) not in ("goto", "return", "else", "case", "do"):
            raise ExtractionError(f"{log.fn}: R14 declaration after the first label: {m.group(0).strip()}")
    for m in re.finditer(r"\bswitch\s*\(", rest):
        q = match_close(rest, rest.index("(", m.start()), "(", ")")
        j = rest.index("{", q)
        e = match_close(rest, j)
        for t in targets:
            if j < pos[t].start() - first < e:
                raise ExtractionError(f"{log.fn}: R14 label {t} inside a switch")
    num = {t: k + 1 for k, t in enumerate(order)}
    for t in targets:
        rest = re.sub(r"(?<![\w:?])" + re.escape(t) + r"\s*:(?!:)", f"case {num[t]}: /* {t} */ ;", rest, count=1)
    rest, k = re.subn(r"\bgoto\s+(\w+)\s*;", lambda m: f"{{ vp_st = {num[m.group(1)]}; continue; }}", rest)
    log.note("R14.goto-dispatch", k)
    return num, (body[:b0 + 1] + pro + "\n  unsigned vp_st = 0;\n  for (;;) {\n  switch (vp_st) { case 0: ;\n" + rest +
            "\n  }\n  break;\n  }\n" + body[e0:])


class Fn:
    """Extraction + contract spec for one function instance (sidecar entry).

    path, select[, nth, within]   where the function lives in /repo
    name        C name given to the extracted function (C has no overloading)
    rename      the C++ name to replace in the signature (default: last identifier before '(')
    ret         override of the return type text (e.g. std::pair -> struct)
    constexpr   R3 table
    subs        must-fire per-target substitutions applied to the body (after the generic rules)
    sig_subs    same, applied to the signature
    calls       {c++ callee name: C name} renames applied to call sites in the body
    contract    text spliced between signature and body (CBMC contract clauses)
    loops       {ordinal: loop contract text} spliced after the loop header
    piece       None | ('loop', ordinal, new_signature) | ('slice', first_rx, last_rx, new_signature):
                emit a loop body / statement slice as a function of its own (DESIGN "loop body as function")
    canary      (regex, replacement): textual mutation of the *extracted* text that the contract must refute
    """

    def __init__(self, path, select, name, contract="", nth=0, within=None, constexpr=(), subs=(), sig_subs=(),
                 calls=None, loops=None, piece=None, canary=None, throw_ret="0", pp_defines=(), keep_lambdas=False,
                 prologue="", scopes=(), derive=None, dispatch=False):
        self.path, self.select, self.name, self.contract = path, select, name, contract
        self.nth, self.within = nth, within
        self.constexpr, self.subs, self.sig_subs = list(constexpr), list(subs), list(sig_subs)
        self.calls = dict(calls or {})
        self.loops = dict(loops or {})
        self.piece, self.canary, self.throw_ret = piece, canary, throw_ret
        self.pp_defines = pp_defines
        self.prologue = prologue
        self.scopes = list(scopes)   # R4: class names whose `Name::` qualification is dropped
        # names the contract needs but must not hard-code: {token: regex with one group, matched on the extracted
        # body}; the contract / loop contract / canary texts refer to them as @token@, and to the k-th parameter as
        # @k@ - so renaming a parameter or a local in /repo does not break the proof
        self.derive = dict(derive or {})
        self.dispatch = dispatch     # R14: goto state machine -> one dispatch loop


def extract_fn(fn, mutate=False):
    """-> (C text of the function with contract spliced in, RuleLog, meta)"""
    log = RuleLog(fn.name)
    loc = locate(fn.path, fn.select, fn.nth, fn.within)
    sig, body = loc.sig, loc.body
    body = resolve_preprocessor(body, fn.pp_defines)
    sig = r1_signature(sig, log)
    k_sc = 0
    for sc in fn.scopes:
        sig, k1 = re.subn(r"\b" + re.escape(sc) + r"\s*(<[^<>]*>)?\s*::\s*", "", sig)
        body, k2 = re.subn(r"\b" + re.escape(sc) + r"\s*(<[^<>]*>)?\s*::\s*", "", body)
        k_sc += k1 + k2
    if fn.scopes:
        log.note("R4.scope", k_sc)
    binds = {}
    for tok, rx in fn.derive.items():
        mm = re.search(rx, body, flags=re.S)
        if not mm:
            raise ExtractionError(f"{fn.name}: cannot derive the name @{tok}@ (/{rx}/ does not match the function body)")
        binds[tok] = mm.group(1)

    def bind(text):
        return re.sub(r"@(\w+)@", lambda m_: binds.get(m_.group(1), m_.group(0)), text) if text else text
    # R4b: constructor `Name(params) : m1(e1), m2(e2)` -> `void name(params)` with `m1 = e1; m2 = e2;` first
    mctor = re.match(r"^(.*?\))\s*:\s*(\w+\s*\(.*)$", sig, flags=re.S)
    if mctor:
        inits, depth, cur = [], 0, ""
        for c in mctor.group(2):
            if c in "([{":
                depth += 1
            elif c in ")]}":
                depth -= 1
            if c == "," and depth == 0:
                inits.append(cur.strip())
                cur = ""
            else:
                cur += c
        if cur.strip():
            inits.append(cur.strip())
        assigns = []
        for it in inits:
            mi = re.fullmatch(r"(\w+)\s*\((.*)\)", it, flags=re.S)
            if not mi:
                raise ExtractionError(f"{fn.name}: constructor initialiser `{it}` not understood")
            assigns.append(f"{mi.group(1)} = {mi.group(2)};")
        sig = "void " + mctor.group(1).strip()
        b0 = body.index("{")
        body = body[:b0 + 1] + "\n" + "\n".join(assigns) + "\n" + body[b0 + 1:]
        log.note("R4b.ctor-init", len(assigns))
    if fn.piece:
        pc = fn.piece
        if isinstance(pc, tuple):      # legacy tuple forms
            if pc[0] == "loop":
                pc = {"kind": "loop", "ordinal": pc[1], "sig": pc[2], "byref": pc[3] if len(pc) > 3 else ()}
            else:
                pc = {"kind": "slice", "first": pc[1], "last": pc[2], "sig": pc[3]}
        kind = pc["kind"]
        whole = body
        if kind == "loop":
            _, body = loop_body(whole, pc["ordinal"])
        elif kind == "block":
            body = enclosing_block(whole, pc["at"])
        elif kind == "bare_block":      # the n-th bare {...} block among the statements of a loop body
            _, lb = loop_body(whole, pc["in_loop"])
            body = bare_block(lb, pc["ordinal"])
        elif kind == "lambda":         # the body of `auto <name> = [..](..) [-> T] { ... };` as a function of its own
            ml = re.search(r"\bauto\s+" + re.escape(pc["name"]) + r"\s*=\s*\[[^\[\]]*\]\s*\(", whole)
            if not ml:
                raise ExtractionError(f"{fn.name}: lambda {pc['name']} not found")
            pl = whole.index("(", ml.end() - 1)
            ql = match_close(whole, pl, "(", ")")
            jl = whole.index("{", ql)
            body = whole[jl:match_close(whole, jl) + 1]
        elif kind == "slice":
            body = slice_between(whole, pc["first"], pc["last"], pc.get("nth", 0), pc.get("after", False))   # wrapped in braces below
        else:
            raise ExtractionError("unknown piece kind")
        # live-ins passed by pointer: every use becomes (*name)
        for nm in [bind(x) for x in pc.get("byref", ())]:
            body = re.sub(r"(?<![\w.>])" + re.escape(nm) + r"\b(?!\s*\()", f"(*{nm})", body)
        if pc.get("prologue"):         # declarations / lambdas of the enclosing function the piece depends on
            pro = slice_between(whole, pc["prologue"][0], pc["prologue"][1])
            body = "{\n" + pro + "\n" + body + "\n" + pc.get("epilogue", "") + "\n}"
        elif pc.get("epilogue") or kind == "slice":
            body = "{\n" + body + "\n" + pc.get("epilogue", "") + "\n}"
        sig = bind(pc["sig"])
        log.note("piece:" + kind, 1)
    else:
        sig = apply_subs(sig, fn.sig_subs, log, "SS")
        sig, body = r5_references(sig, body, log)
        # rename the function itself
        head, params = split_params(sig)
        m = re.search(r"([\w~]+)\s*$", head)
        if not m:
            raise ExtractionError(f"{fn.name}: cannot find the function name in `{head}`")
        head = head[:m.start()] + fn.name
        sig = f"{head}({', '.join(params)})"
    body = r3_if_constexpr(body, fn.constexpr, log)
    body, lam = r6_lambdas(body, log)
    body = r_casts(body, log)
    is_void = bool(re.match(r"\s*void\b", sig))
    body = r9_throw(body, log, fn.throw_ret, is_void)
    body = r10_checks(body, log)
    for cxx, c in fn.calls.items():
        body, k = re.subn(r"(?<![\w.>])" + re.escape(cxx) + r"\s*\(", c + "(", body)
        log.note(f"call:{cxx}->{c}", k)
    body = apply_subs(body, fn.subs, log, "S")
    check_no_lambda(body, fn.name)
    if fn.dispatch:
        stnum, body = r14_goto_dispatch(body, log)
        binds.update({"st_" + k_: str(v_) for k_, v_ in stnum.items()})   # loop contracts name the states as @st_<label>@
    try:
        _, plist = split_params(sig)
        for k, prm in enumerate(plist):
            mm = re.search(r"(\w+)\s*$", prm)
            if mm:
                binds.setdefault(str(k + 1), mm.group(1))
    except (ValueError, ExtractionError):
        pass
    if binds:
        log.note("names:" + ",".join(f"{k}={v}" for k, v in sorted(binds.items())), 1)
    # loop contracts
    if fn.loops:
        for ordinal in sorted(fn.loops, reverse=True):
            it = [m for m in re.finditer(r"\b(?:for|while)\s*\(", body)]
            if len(it) <= ordinal:
                raise ExtractionError(f"{fn.name}: loop {ordinal} for a loop contract not found")
            p = body.index("(", it[ordinal].start())
            q = match_close(body, p, "(", ")")
            body = body[:q + 1] + "\n" + bind(fn.loops[ordinal]).strip() + "\n" + body[q + 1:]
        log.note("loop-contracts", len(fn.loops))
    if lam:
        # macros defined inside the body stay defined until the end of the function; #undef them after it
        body = body + "\n" + "\n".join(f"#undef {n}" for n in lam) + "\n"
    if mutate:
        if not fn.canary:
            raise ExtractionError(f"{fn.name}: no canary defined")
        body2, k = re.subn(bind(fn.canary[0]), bind(fn.canary[1]), body, count=1, flags=re.S)
        if k != 1 or body2 == body:
            raise ExtractionError(f"{fn.name}: canary mutation /{fn.canary[0]}/ did not apply")
        body = body2
    if fn.prologue:
        b = body.index("{")
        body = body[:b + 1] + "\n" + fn.prologue + "\n" + body[b + 1:]
    text = sig + "\n" + bind(fn.contract).strip() + "\n" + body + "\n"
    check_is_c(sig + body, fn.name)
    meta = {"function": fn.name, "source": f"{fn.path}:{loc.start_line}", "rules": log.as_list()}
    return text, log, meta
