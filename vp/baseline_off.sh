#!/bin/bash
# Rebuild /repo/_build (guard off = the shipped tree; this framework puts no hooks into /repo) and run the
# pinned suite; succeed iff every test of BASELINE.json.stable_pass passes.  ctest itself exits non-zero on the
# pinned tree because of the two always_fail tests, so its status is not used.
set -u
B=/repo/_build
J=${VERIF_JOBS:-16}
cmake --build "$B" -j"$J" > /tmp/verif_baseline_build.log 2>&1 || { tail -30 /tmp/verif_baseline_build.log; echo "BUILD FAILED"; exit 2; }
OUT=$(mktemp /tmp/verif_baseline_junit.XXXXXX.xml)
ctest --test-dir "$B" -j8 --timeout 900 --output-junit "$OUT" > /tmp/verif_baseline_ctest.log 2>&1
python3 - "$OUT" <<'PY'
import sys, json, xml.etree.ElementTree as ET
base = json.load(open('/root/.vp/BASELINE.json'))
want = {t.split('::')[0] for t in base['stable_pass']}
passed = set()
for tc in ET.parse(sys.argv[1]).getroot().iter('testcase'):
    ok = tc.get('status') == 'run' and tc.find('failure') is None and tc.find('error') is None
    if ok: passed.add(tc.get('name'))
missing = sorted(want - passed)
print(f"baseline: {len(want & passed)}/{len(want)} stable tests pass")
if missing:
    print("NOT PASSING:", *missing, sep="\n  ")
    sys.exit(1)
PY
rc=$?
rm -f "$OUT"
exit $rc
