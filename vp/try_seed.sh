#!/bin/bash
# usage: try_seed.sh <patch> <ID> [check args...]   - apply a seeded change to /repo, run the check, undo it straight afterwards
set -u
patch=$1; id=$2; shift 2
git -C /repo status --short | grep -q . && { echo "/repo not clean"; exit 3; }
git -C /repo apply "$patch" || exit 3
cd /verif && VERIF_EVIDENCE_DIR=/verif/out/seed_evidence ./check "$id" "$@" 2>&1 | grep -v '^KNOWN' | tail -12
rc=${PIPESTATUS[0]}
git -C /repo checkout -- .
git -C /repo status --short | grep -q . && echo "WARNING /repo not clean after undo"
echo "exit=$rc"
