#!/usr/bin/env python3
"""save_seed.py <prop> <mN> <src dir> '<needs>' '<what I ran / detection>' : store a confirmed seeded change under /verif/seeded/"""
import json, os, shutil, sys
prop, m, src, needs, ran = sys.argv[1:6]
caught = sys.argv[6] if len(sys.argv) > 6 else ""
import os as _os
tag = _os.environ.get("SEED_TAG", "")
d = f"/verif/seeded/{prop}-{tag}{m}"
os.makedirs(d, exist_ok=True)
shutil.copy(f"{src}/{m}.diff", f"{d}/patch.diff")
shutil.copy(f"{src}/{m}_demo.cpp", f"{d}/demo.cpp")
notes = open(f"{src}/notes.md").read() if os.path.exists(f"{src}/notes.md") else ""
json.dump({"property": prop, "id": f"{prop}-{tag}{m}", "breaks": prop, "needs_to_manifest": needs,
           "confirmed_by": "vp/confirm_seed.sh in the scratch worktree /tmp/seed/confirm: demo exits 0 on the clean tree and non-zero with the patch; tree rebuilt with ninja; 138/138 baseline tests still pass with the patch",
           "what_i_ran": ran, "detected_by": caught, "author": "independent sub-agent given only the property text and a scratch worktree"},
          open(f"{d}/meta.json", "w"), indent=1)
open(f"{d}/agent_notes.md", "w").write(notes)
print("saved", d)
