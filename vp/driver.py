"""Driver: extract -> goto-cc -> goto-instrument --dfcc -> cbmc, per obligation group ("unit"), in parallel.

Verdict per unit:
  ok          every obligation of every run discharged (U/B) or undecided within budget (R only)
  refuted     some obligation has a counterexample  -> replay -> VIOLATION (or exit 2 if the replay disagrees)
  error       extraction / compilation / instrumentation / solver error / timeout of a non-R run  -> exit 2
"""
import concurrent.futures as cf
import fnmatch
import hashlib
import json
import os
import re
import shutil
import subprocess
import sys
import time

from . import extract as X

VERIF = os.path.dirname(os.path.dirname(os.path.abspath(__file__)))
BUILD = os.path.join(VERIF, "build")
OUT = os.path.join(VERIF, "out")
PRELUDE = os.path.join(VERIF, "vp", "prelude.h")
MEM_KB = int(os.environ.get("VERIF_MEM_KB", str(10 * 1024 * 1024)))
JOBS = int(os.environ.get("VERIF_JOBS", "16"))

CBMC_CHECKS = ["--bounds-check", "--pointer-check", "--signed-overflow-check", "--div-by-zero-check",
               "--undefined-shift-check", "--no-malloc-may-fail"]
BACKENDS = {"sat": [], "kissat": ["--external-sat-solver", "kissat"], "z3": ["--z3"], "cvc5": ["--cvc5"]}


class Run:
    """One cbmc invocation over a subset of the unit's obligations.
    only / exclude: fnmatch patterns on CBMC property names.  route: U (complete), B (bounded, see unit.bound),
    R (refutation-only: a timeout is 'undecided', not an error)."""

    def __init__(self, only=None, exclude=None, backend="sat", timeout=120, route=None, label=None):
        self.only, self.exclude = only, exclude or []
        self.backend, self.timeout, self.route, self.label = backend, timeout, route, label


class Unit:
    def __init__(self, uid, prop, fns, enforce=None, replace=(), harness="", typedefs=None, globals_="",
                 runs=None, route="U", bound=None, tier="quick", unwind=None, loop_contracts=False,
                 inputs=(), replay=None, extra_cbmc=(), defines=(), canary_fn=None, desc="", includes=(),
                 no_enforce=False, object_bits=None, expect_fail=(), known=None):
        self.uid, self.prop, self.fns = uid, prop, fns
        self.enforce, self.replace, self.harness = enforce, list(replace), harness
        self.typedefs, self.globals_ = dict(typedefs or {}), globals_
        self.runs = runs or [Run()]
        self.route, self.bound, self.tier = route, bound, tier
        self.unwind, self.loop_contracts = unwind, loop_contracts
        self.inputs, self.replay = list(inputs), replay
        self.extra_cbmc, self.defines = list(extra_cbmc), list(defines)
        self.canary_fn = canary_fn          # name of the Fn whose canary is applied (default: the enforced one)
        self.desc = desc
        self.includes = list(includes)
        self.no_enforce = no_enforce        # plain harness assertions (lemma units), no contract instrumentation
        self.object_bits = object_bits
        self.expect_fail = list(expect_fail)
        self.known = known


def sh(cmd, timeout, cwd=None, mem_kb=MEM_KB):
    """run with wall timeout + address-space limit; -> (rc, stdout, stderr, seconds); rc = 'timeout' on timeout"""
    t0 = time.time()

    def lim():
        import resource
        if mem_kb:
            resource.setrlimit(resource.RLIMIT_AS, (mem_kb * 1024, mem_kb * 1024))
        os.setsid()

    try:
        p = subprocess.Popen(cmd, stdout=subprocess.PIPE, stderr=subprocess.PIPE, cwd=cwd, preexec_fn=lim, text=True)
        try:
            o, e = p.communicate(timeout=timeout)
            return p.returncode, o, e, time.time() - t0
        except subprocess.TimeoutExpired:
            try:
                os.killpg(p.pid, 9)
            except ProcessLookupError:
                pass
            p.communicate()
            return "timeout", "", "", time.time() - t0
    except OSError as ex:
        return "oserror", "", str(ex), time.time() - t0


def sha(text):
    return hashlib.sha256(text.encode()).hexdigest()[:16]


def classify(name, desc):
    if "VP_REACH" in desc:
        return "reach"
    if ".postcondition" in name:
        return "postcondition"
    if ".precondition" in name:
        return "callee-precondition"
    if ".assigns" in name or "loop_assigns" in name:
        return "frame"
    if "loop_invariant_base" in name:
        return "loop-invariant-base"
    if "loop_invariant_step" in name:
        return "loop-invariant-step"
    if "loop_decreases" in name or "decreases" in name:
        return "termination"
    if ".unwind" in name:
        return "unwinding"
    if ".assertion" in name:
        return "assertion"
    return "safety"


def build_unit(unit, bdir, mutate=False):
    """extract + write TU + goto-cc + goto-instrument; -> (goto binary path, meta) or raises ExtractionError"""
    os.makedirs(bdir, exist_ok=True)
    parts = ['#include "prelude.h"']
    for inc in unit.includes:
        parts.append(f'#include "{inc}"')
    for k, v in unit.typedefs.items():
        parts.append(f"typedef {v} {k};")
    parts.append("int g_thrown;")
    parts.append(unit.globals_)
    metas = []
    canary_target = unit.canary_fn or unit.enforce
    texts = []
    for fn in unit.fns:
        if isinstance(fn, str):           # raw C (assumed-contract stubs, ghost helpers) - listed as trusted
            texts.append(fn)
            continue
        t, log, meta = X.extract_fn(fn, mutate=(mutate and fn.name == canary_target))
        meta["sha256_16"] = sha(t)
        metas.append(meta)
        texts.append(t)
    # forward declarations so that definition order does not matter
    protos = []
    for t in texts:
        head = t.split("\n", 1)[0].strip()
        if re.match(r"^[\w\s\*]+\(.*\)$", head) and not head.startswith("#"):
            protos.append(head + ";")
    parts += protos
    parts += texts
    parts.append(unit.harness)
    src = "\n".join(parts) + "\n"
    cfile = os.path.join(bdir, "unit.c")
    with open(cfile, "w") as f:
        f.write(src)
    gb0, gb1 = os.path.join(bdir, "a.gb"), os.path.join(bdir, "b.gb")
    cmd = ["goto-cc", "-I", os.path.join(VERIF, "vp"), "-I", os.path.join(VERIF, "contracts"), "-DVP_CBMC"] + [f"-D{d}" for d in unit.defines] + [cfile, "-o", gb0]
    rc, o, e, s = sh(cmd, 120)
    if rc != 0:
        raise X.ExtractionError(f"{unit.uid}: goto-cc failed (rc={rc}):\n{(o + e)[-2000:]}")
    if unit.no_enforce:
        if unit.loop_contracts or unit.replace:
            cmd = ["goto-instrument", "--dfcc", "main"]
            for r in unit.replace:
                cmd += ["--replace-call-with-contract", r]
            if unit.loop_contracts:
                cmd += ["--apply-loop-contracts"]
            rc, o, e, s = sh(cmd + [gb0, gb1], 300)
            if rc != 0:
                raise X.ExtractionError(f"{unit.uid}: goto-instrument failed (rc={rc}):\n{(o + e)[-2000:]}")
        else:
            shutil.copy(gb0, gb1)
    else:
        cmd = ["goto-instrument", "--dfcc", "main", "--enforce-contract", unit.enforce]
        for r in unit.replace:
            cmd += ["--replace-call-with-contract", r]
        if unit.loop_contracts:
            cmd += ["--apply-loop-contracts"]
        cmd += [gb0, gb1]
        rc, o, e, s = sh(cmd, 300)
        if rc != 0:
            raise X.ExtractionError(f"{unit.uid}: goto-instrument failed (rc={rc}):\n{(o + e)[-3000:]}")
    return gb1, {"functions": metas, "tu_sha256_16": sha(src), "tu": cfile}


def list_properties(gb, unit):
    cmd = ["cbmc", gb, "--show-properties", "--json-ui"] + CBMC_CHECKS + unit.extra_cbmc
    if unit.unwind:
        cmd += ["--unwind", str(unit.unwind), "--unwinding-assertions"]
    rc, o, e, s = sh(cmd, 120)
    try:
        js = json.loads(o)
    except ValueError:
        raise X.ExtractionError(f"{unit.uid}: cbmc --show-properties gave no JSON (rc={rc}): {(o + e)[-1000:]}")
    props = []
    for el in js:
        if isinstance(el, dict) and "properties" in el:
            for p in el["properties"]:
                props.append((p["name"], p.get("description", "")))
    return props


import threading
SOLVER_SLOTS = threading.Semaphore(JOBS)      # at most JOBS solver processes at any time (memory)


def run_cbmc(gb, unit, run, names):
    with SOLVER_SLOTS:
        return _run_cbmc(gb, unit, run, names)


def _run_cbmc(gb, unit, run, names):
    cmd = ["cbmc", gb, "--json-ui", "--trace"] + CBMC_CHECKS + BACKENDS[run.backend] + unit.extra_cbmc
    if unit.unwind:
        cmd += ["--unwind", str(unit.unwind), "--unwinding-assertions"]
    if unit.object_bits:
        cmd += ["--object-bits", str(unit.object_bits)]
    for n in names:
        cmd += ["--property", n]
    rc, o, e, s = sh(cmd, run.timeout)
    res = {"cmd": " ".join(cmd[:1] + ["<unit.gb>"] + [c for c in cmd[2:] if not c.startswith("--property") and c not in names]),
           "seconds": round(s, 2), "backend": run.backend, "status": None, "results": [], "notes": []}
    if rc == "timeout":
        res["status"] = "timeout"
        return res
    try:
        js = json.loads(o)
    except ValueError:
        res["status"] = "error"
        res["notes"].append(f"no JSON from cbmc rc={rc}: {(o + e)[-800:]}")
        return res
    got = False
    for el in js:
        if not isinstance(el, dict):
            continue
        if el.get("messageType") == "ERROR":
            res["notes"].append("ERROR: " + el.get("messageText", "")[:500])
        if el.get("messageType") == "WARNING" and "ignoring" in el.get("messageText", ""):
            res["notes"].append("WARNING: " + el.get("messageText", "")[:300])
        if "result" in el:
            got = True
            for r in el["result"]:
                res["results"].append({"name": r["property"], "desc": r.get("description", ""),
                                       "status": r["status"], "trace": r.get("trace")})
    if not got:
        res["status"] = "error"
        res["notes"].append(f"cbmc produced no result list (rc={rc}) {(e or '')[-500:]}")
    else:
        res["status"] = "done"
    return res


def trace_inputs(trace, wanted):
    """last value assigned to each harness-local input variable before the call"""
    vals = {}
    if not trace:
        return vals
    for st in trace:
        if st.get("stepType") != "assignment":
            continue
        lhs = st.get("lhs", "")
        base = lhs.split("[")[0].split(".")[0]
        if base in wanted or lhs in wanted:
            v = st.get("value", {})
            data = v.get("data")
            if v.get("name") == "float" and v.get("binary"):
                data = "bits:" + v["binary"]          # exact IEEE-754 pattern for floating-point inputs
            if data is None and "elements" in v:
                data = [("bits:" + el["value"]["binary"]) if el.get("value", {}).get("name") == "float" and el["value"].get("binary")
                        else el.get("value", {}).get("data") for el in v["elements"]]
            if data is None and "members" in v:
                data = {mm.get("name"): mm.get("value", {}).get("data") for mm in v["members"]}
            # keep the FIRST complete assignment of plain inputs made in main (nondet initialisation); the
            # function under contract receives copies, so later assignments to the same name are in callee frames
            fnm = st.get("sourceLocation", {}).get("function", "")
            key = lhs
            if fnm in ("main", "") or key not in vals:
                vals[key] = data
    return vals


def process_unit(unit, tier_dir, mutate=False):
    """-> dict(status=ok|refuted|error|undecided, obligations=[...], failures=[...], ...)"""
    t0 = time.time()
    bdir = os.path.join(tier_dir, unit.uid.replace("/", "_") + ("__canary" if mutate else ""))
    rec = {"unit": unit.uid, "route": unit.route, "bound": unit.bound, "desc": unit.desc, "obligations": [],
           "failures": [], "undecided": [], "notes": [], "status": "ok", "canary": mutate}
    try:
        gb, meta = build_unit(unit, bdir, mutate)
        rec.update(meta)
        props = list_properties(gb, unit)
    except X.ExtractionError as ex:
        rec["status"] = "error"
        rec["notes"].append(str(ex))
        rec["seconds"] = round(time.time() - t0, 2)
        return rec
    allnames = [n for n, _ in props]
    descs = dict(props)
    if not allnames:
        rec["status"] = "error"
        rec["notes"].append("zero obligations generated (vacuous harness)")
        return rec
    if not unit.no_enforce and not any(".postcondition" in n or ".assertion" in n for n in allnames):
        rec["status"] = "error"
        rec["notes"].append("no postcondition/assertion obligation generated: contract dropped?")
        return rec
    # (a loop without a source-located head - `for (;;)` of rule R14 - gets its base/step/variant obligations as
    #  unnamed assertions of <fn>_wrapped_for_contract_checking)
    if unit.loop_contracts and not any("loop_invariant_step" in n or "_wrapped_for_contract_checking." in n for n in allnames):
        rec["status"] = "error"
        rec["notes"].append("loop contract silently dropped (no loop_invariant_step obligation)")
        return rec
    covered = set()
    plans = []
    for run in unit.runs:
        names = allnames
        if run.only is not None:
            names = [n for n in allnames if any(fnmatch.fnmatch(n, p) or p in descs[n] for p in run.only)]
            # the reach assertion rides along with every run
            names += [n for n in allnames if "VP_REACH" in descs[n] and n not in names]
            if len(names) <= 1 and not mutate:
                rec["status"] = "error"
                rec["notes"].append(f"run {run.label}: patterns {run.only} match no obligation")
                continue
        if run.exclude:
            names = [n for n in names if not any(fnmatch.fnmatch(n, p) or p in descs[n] for p in run.exclude)]
        explicit = names if (run.only is not None or run.exclude) else []
        plans.append((run, names, explicit))
    # the runs of one unit are independent solver calls: execute them concurrently
    with cf.ThreadPoolExecutor(max_workers=max(1, len(plans))) as rex:
        futs = [rex.submit(run_cbmc, gb, unit, run, explicit) for run, names, explicit in plans]
        results = [f.result() for f in futs]
    for (run, names, explicit), r in zip(plans, results):
        route = run.route or unit.route
        if r["status"] == "timeout":
            if route == "R" or mutate:
                for n in names:
                    if classify(n, descs[n]) != "reach":
                        rec["undecided"].append({"name": n, "backend": run.backend, "budget_s": run.timeout})
                continue
            rec["status"] = "error"
            rec["notes"].append(f"run {run.label or run.backend}: timeout after {run.timeout}s (route {route})")
            continue
        if r["status"] == "error":
            rec["status"] = "error"
            rec["notes"] += r["notes"]
            continue
        rec["notes"] += r["notes"]
        for pr in r["results"]:
            cls = classify(pr["name"], pr["desc"])
            if cls == "reach":
                if pr["status"] != "FAILURE":
                    rec["status"] = "error"
                    rec["notes"].append(f"vacuity: end of harness unreachable in run {run.label or run.backend} "
                                        f"(contradictory requires?)")
                continue
            covered.add(pr["name"])
            ob = {"name": pr["name"], "class": cls, "desc": pr["desc"], "status": pr["status"],
                  "backend": run.backend, "route": route, "seconds": r["seconds"]}
            rec["obligations"].append(ob)
            if pr["status"] == "FAILURE":
                f = dict(ob)
                f["inputs"] = trace_inputs(pr.get("trace"), set(unit.inputs))
                rec["failures"].append(f)
            elif pr["status"] != "SUCCESS":
                rec["status"] = "error"
                rec["notes"].append(f"{pr['name']}: status {pr['status']}")
    missing = [n for n in allnames if n not in covered and classify(n, descs[n]) != "reach"
               and not any(u["name"] == n for u in rec["undecided"])]
    if missing and rec["status"] == "ok" and not mutate:
        rec["status"] = "error"
        rec["notes"].append(f"obligations never run: {missing[:5]}")
    if rec["failures"] and rec["status"] != "error":
        rec["status"] = "refuted"
    rec["seconds"] = round(time.time() - t0, 2)
    return rec


def run_units(units, tier_dir, with_canaries=True, jobs=JOBS):
    os.makedirs(tier_dir, exist_ok=True)
    tasks = []
    with cf.ThreadPoolExecutor(max_workers=jobs) as ex:
        for u in units:
            tasks.append((u, False, ex.submit(process_unit, u, tier_dir, False)))
            if with_canaries and (not u.no_enforce) and any((not isinstance(f, str)) and f.name == (u.canary_fn or u.enforce) and f.canary for f in u.fns):
                tasks.append((u, True, ex.submit(process_unit, u, tier_dir, True)))
        recs = []
        for u, mut, fut in tasks:
            r = fut.result()
            recs.append((u, mut, r))
    return recs


def rederive_replayable(unit, failure, tier_dir):
    """re-run one refuted obligation with -DVP_REPLAYABLE (inputs restricted to what the real class accepts)"""
    import copy
    u2 = copy.copy(unit)
    u2.uid = unit.uid + "__replayable"
    u2.defines = list(unit.defines) + ["VP_REPLAYABLE"]
    u2.runs = [Run(only=[failure["name"]], backend=failure["backend"], timeout=120, route="R")]
    r = process_unit(u2, tier_dir, False)
    for f in r["failures"]:
        if f["name"] == failure["name"] and f["inputs"]:
            return f
    return None
