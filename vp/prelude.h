/* prelude.h - hand-written glue shared by all extracted translation units (trusted, listed in the evidence).
 *
 * (a) C stand-ins for the few std:: facilities the extracted functions use (rule R11): one line each.
 * (b) Specification functions, written from the property statements ("the residue of the integer", "the exact
 *     result reduced"), NOT from the bodies under verification.  They are piecewise-linear wherever the operands
 *     are already reduced and apply `%` once to the entry value (DESIGN.md section 2 item 10).
 */
#ifndef VP_PRELUDE_H
#define VP_PRELUDE_H
#include <limits.h>
#include <stdbool.h>
#include <stddef.h>
#include <stdint.h>

/* ---- (a) R11 stand-ins ---------------------------------------------------------------------------------- */
#define VP_MAX(a, b) ((a) < (b) ? (b) : (a))   /* std::max: returns a unless a < b */
#define VP_MIN(a, b) ((b) < (a) ? (b) : (a))   /* std::min: returns a unless b < a */
#define VP_SWAP_U(a, b) do { unsigned int vp_t_ = (a); (a) = (b); (b) = vp_t_; } while (0)   /* std::swap */
static inline unsigned int vp_gcd_u(unsigned int a, unsigned int b) /* std::gcd on unsigned int (Euclid) */
{
  while (b != 0) { unsigned int t = a % b; a = b; b = t; }
  return a;
}

/* used only when a counterexample is re-derived in a form the real class accepts (its constructor refuses
 * non-primes): `-DVP_REPLAYABLE` restricts the characteristic to this list of primes. Never active in a proof run. */
#define VP_LISTED_PRIME(p) ((p) == 2 || (p) == 3 || (p) == 5 || (p) == 7 || (p) == 11 || (p) == 13 || (p) == 251 || \
  (p) == 257 || (p) == 32749 || (p) == 46337 || (p) == 46349 || (p) == 65519 || (p) == 65521 || (p) == 131071)

/* ---- (b) specification functions ------------------------------------------------------------------------- */
typedef unsigned __int128 vp_u128;
typedef __int128 vp_i128;

/* residue of an unsigned machine integer modulo p (p >= 1) */
#define RES_U(e, p) ((e) < (p) ? (e) : (e) % (p))
/* x + y mod p, x - y mod p for reduced operands: exact, in 64 bits, no division */
#define ADDMOD(x, y, p) \
  ((uint64_t)(x) + (uint64_t)(y) < (uint64_t)(p) ? (uint32_t)((uint64_t)(x) + (uint64_t)(y)) \
                                                 : (uint32_t)((uint64_t)(x) + (uint64_t)(y) - (uint64_t)(p)))
#define SUBMOD(x, y, p) \
  ((uint64_t)(x) >= (uint64_t)(y) ? (uint32_t)((uint64_t)(x) - (uint64_t)(y)) \
                                  : (uint32_t)((uint64_t)(x) + (uint64_t)(p) - (uint64_t)(y)))
/* mathematical residue of a signed 64-bit value modulo a positive 64-bit modulus, via C's truncating % */
#define MATHMOD64(v, p) ((((int64_t)(v)) % ((int64_t)(p))) < 0 ? (((int64_t)(v)) % ((int64_t)(p))) + (int64_t)(p) \
                                                               : (((int64_t)(v)) % ((int64_t)(p))))

#endif
