#!/bin/bash
# confirm a seeded change in the scratch worktree /tmp/seed/confirm (full build present):
#   usage: confirm_seed.sh <patch.diff> <demo.cpp>
# demo must pass without the patch, fail with it; the tree must still build and the 138 baseline tests must pass.
set -u
W=/tmp/seed/confirm
P=$(readlink -f "$1"); D=$(readlink -f "$2")
cd $W && git checkout -q -- . || exit 2
CMD=$(head -1 "$D" | sed 's#^// *##; s#^/\* *##; s#\*/ *$##')
build_demo() { # compile the demo against the worktree's headers
  g++ -std=c++17 -O1 -w $(for d in $W/src/*/include; do echo -n "-I$d "; done) $EXTRA "$D" -o /tmp/seed/demo_bin $LIBS 2>/tmp/seed/demo_build.log; }
EXTRA=""; LIBS="-ltbb"
grep -q "gmp" "$D" && LIBS="$LIBS -lgmpxx -lgmp"
grep -q "GUDHI_FORCE_FAKE_UINT128" "$D" && EXTRA="-DGUDHI_FORCE_FAKE_UINT128"
build_demo || { echo "demo does not build on clean tree"; tail -5 /tmp/seed/demo_build.log; exit 2; }
timeout 600 /tmp/seed/demo_bin > /tmp/seed/demo_clean.out 2>&1; RC0=$?
git apply "$P" || { echo "patch does not apply"; exit 2; }
build_demo || { echo "demo does not build with patch"; git checkout -q -- .; exit 2; }
timeout 600 /tmp/seed/demo_bin > /tmp/seed/demo_patched.out 2>&1; RC1=$?
nice ninja -C _build -j14 > /tmp/seed/confirm_ninja.log 2>&1; RB=$?
NB=$(grep -c "Building" /tmp/seed/confirm_ninja.log)
OUT=/tmp/seed/confirm_junit.xml; rm -f $OUT
ctest --test-dir _build -j8 --timeout 900 --output-junit $OUT > /tmp/seed/confirm_ctest.log 2>&1
python3 - $OUT <<'PY'
import sys, json, xml.etree.ElementTree as ET
base = json.load(open('/root/.vp/BASELINE.json'))
want = {t.split('::')[0] for t in base['stable_pass']}
passed = set()
for tc in ET.parse(sys.argv[1]).getroot().iter('testcase'):
    if tc.get('status') == 'run' and tc.find('failure') is None and tc.find('error') is None: passed.add(tc.get('name'))
miss = sorted(want - passed)
print(f"baseline with patch: {len(want & passed)}/{len(want)} pass", "MISSING: " + ", ".join(miss) if miss else "")
PY
echo "demo clean rc=$RC0 ; demo patched rc=$RC1 ; ninja rc=$RB rebuilt_objects=$NB"
tail -3 /tmp/seed/demo_patched.out
git checkout -q -- .
nice ninja -C _build -j14 > /dev/null 2>&1
