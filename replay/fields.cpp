// Native replay of CBMC counterexamples for C10 against the real classes of /repo.
// usage: replay_fields <class-key> <op> <args...> ; exit 0 = real code agrees with the exact arithmetic,
//        exit 1 = real code is wrong on this input (counterexample reproduced), exit 3 = usage / unsupported.
#include <cassert>
#include <iostream>
#include <cstdio>
#include <cstdlib>
#include <cstring>
#include <string>
#include <vector>
#include <gudhi/Fields/Zp_field_operators.h>
#include <gudhi/Fields/Zp_field_shared.h>
#include <gudhi/Fields/Zp_field.h>
#include <gudhi/Fields/Z2_field_operators.h>
#include <gudhi/Fields/Multi_field_small_operators.h>
#include <gudhi/Fields/Multi_field_small_shared.h>
#include <gudhi/Persistent_cohomology/Field_Zp.h>

typedef __int128 i128;
using namespace Gudhi::persistence_fields;

static i128 mathmod(i128 v, i128 p) { i128 m = v % p; return m < 0 ? m + p : m; }
static int verdict(const char* what, i128 got, i128 want) {
  printf("%s: real code returns %lld, exact arithmetic gives %lld -> %s\n", what, (long long)got, (long long)want,
         got == want ? "agree" : "MISMATCH");
  return got == want ? 0 : 1;
}

// The private leaves (_add, _subtract, _multiply) are reached through the public operations that forward reduced
// operands to them unchanged.
int main(int argc, char** argv) {
  if (argc < 4) return 3;
  std::string cls = argv[1], op = argv[2];
  std::vector<long long> a;
  for (int i = 3; i < argc; ++i) a.push_back(strtoll(argv[i], nullptr, 10));
  auto U = [&](size_t i) { return (unsigned int)a.at(i); };
  try {
    if (op == "init_twice") {   // table construction on an object that already held another characteristic: c (then the table is checked)
      long long c = a[0]; if (c > (1 << 20)) return 3;
      auto isprime = [](long long n) { if (n < 2) return false; for (long long d = 2; d * d <= n; d++) if (n % d == 0) return false; return true; };
      bool refused = false; std::vector<long long> inv;
      try {
        if (cls == "zp_ops") { Zp_field_operators<> f(7); f.set_characteristic((unsigned)c); for (long long k = 0; k < c; k++) inv.push_back(f.get_inverse((unsigned)k)); }
        else if (cls == "zp_sh") { Shared_Zp_field_element<>::initialize(7); Shared_Zp_field_element<>::initialize((unsigned)c); for (long long k = 0; k < c; k++) inv.push_back(Shared_Zp_field_element<>((unsigned)k).get_inverse().get_value()); }
        else if (cls == "field_zp") { Gudhi::persistent_cohomology::Field_Zp f; f.init(7); f.init((int)c); for (long long k = 0; k < c; k++) inv.push_back(f.inverse((int)k, 1).first); }
        else return 3;
      } catch (std::exception const&) { refused = true; }
      if (refused != !isprime(c)) { printf("characteristic %lld: %s, but it is %sa prime\n", c, refused ? "refused" : "accepted", isprime(c) ? "" : "not "); return 1; }
      if (!refused) for (long long k = 1; k < c; k++) if (inv[k] < 1 || inv[k] >= c || inv[k] * k % c != 1) { printf("after re-initialising to %lld: inverse(%lld) = %lld, but %lld * %lld mod %lld = %lld\n", c, k, inv[k], inv[k], k, c, inv[k] * k % c); return 1; }
      printf("characteristic %lld: table correct after re-initialisation\n", c); return 0;
    }
    if (cls == "zp_ops") {
      if (op == "get_value_u") { Zp_field_operators<> f; unsigned p = U(1);
        // set_characteristic builds a table of size p: only replay small p through it, otherwise use a field of char p w/o table
        if (p > (1u << 20)) { printf("characteristic too large to instantiate natively\n"); return 3; }
        f.set_characteristic(p); return verdict("get_value", f.get_value(U(0)), mathmod(U(0), p)); }
      if (op == "get_value_int" || op == "get_value_long") { unsigned p = U(1); if (p > (1u << 20)) return 3;
        Zp_field_operators<> f; f.set_characteristic(p);
        long long e = a[0];
        unsigned r = (op == "get_value_int") ? f.get_value((int)e) : f.get_value((long)e);
        return verdict("get_value(signed)", r, mathmod(e, p)); }
      unsigned p = U(2); if (p > (1u << 20)) return 3;
      Zp_field_operators<> f; f.set_characteristic(p);
      if (op == "_add") return verdict("add", f.add(U(0), U(1)), mathmod((i128)U(0) + U(1), p));
      if (op == "_subtract") return verdict("subtract", f.subtract(U(0), U(1)), mathmod((i128)U(0) - U(1), p));
      if (op == "_multiply") return verdict("multiply", f.multiply(U(0), U(1)), mathmod((i128)U(0) * U(1), p));
      if (op == "add") return verdict("add", f.add(U(0), U(1)), mathmod((i128)U(0) + U(1), p));
      if (op == "subtract") return verdict("subtract", f.subtract(U(0), U(1)), mathmod((i128)U(0) - U(1), p));
      if (op == "multiply") return verdict("multiply", f.multiply(U(0), U(1)), mathmod((i128)U(0) * U(1), p));
      if (op == "are_equal") return verdict("are_equal", f.are_equal(U(0), U(1)), mathmod(U(0), p) == mathmod(U(1), p));
    }
    if (cls == "zp_ops3") {   // fused operations: e m a p  (inputs in the order in_e in_m in_a)
      unsigned p = U(3); if (p > (1u << 20)) return 3;
      Zp_field_operators<> f; f.set_characteristic(p);
      if (op == "multiply_and_add") return verdict("multiply_and_add", f.multiply_and_add(U(0), U(1), U(2)), mathmod((i128)U(0) * U(1) + U(2), p));
      if (op == "add_and_multiply") return verdict("add_and_multiply", f.add_and_multiply(U(0), U(2), U(1)), mathmod(((i128)U(0) + U(2)) * U(1), p));
    }
    if (cls == "zp_sh") {
      unsigned p = (op.rfind("get_value", 0) == 0) ? U(1) : U(2); if (p > (1u << 20)) return 3;
      Shared_Zp_field_element<>::initialize(p);
      if (op == "get_value_u") return verdict("ctor(unsigned)", Shared_Zp_field_element<>(U(0)).get_value(), mathmod(U(0), p));
      if (op == "get_value_int") return verdict("ctor(int)", Shared_Zp_field_element<>((int)a[0]).get_value(), mathmod(a[0], p));
      if (op == "get_value_long") return verdict("ctor(long)", Shared_Zp_field_element<>((long)a[0]).get_value(), mathmod(a[0], p));
      Shared_Zp_field_element<> x(U(0)), y(U(1));
      if (op == "_add") { x += y; return verdict("+=", x.get_value(), mathmod((i128)U(0) + U(1), p)); }
      if (op == "_subtract") { x -= y; return verdict("-=", x.get_value(), mathmod((i128)U(0) - U(1), p)); }
      if (op == "_multiply") { x *= y; return verdict("*=", x.get_value(), mathmod((i128)U(0) * U(1), p)); }
    }
    if (cls == "mfs_ops" || cls == "mfs_sh") {
      printf("small multi-field: product %lld is only reachable for products of consecutive primes; see the native sweep\n", a.back());
      return 3;
    }
    if (cls == "field_zp") {
      Gudhi::persistent_cohomology::Field_Zp f; int p = (int)a.back(); f.init(p);
      if (op == "plus_times_equal") return verdict("plus_times_equal", f.plus_times_equal((int)a[0], (int)a[1], (int)a[2]), mathmod((i128)a[0] + (i128)a[2] * a[1], p));
      if (op == "times_minus") return verdict("times_minus", f.times_minus((int)a[0], (int)a[1]), mathmod(-(i128)a[0] * a[1], p));
    }
  } catch (std::exception const& e) { printf("exception: %s\n", e.what()); return 3; }
  printf("unsupported replay %s %s\n", cls.c_str(), op.c_str());
  return 3;
}
