// Replay of a CBMC counterexample of the line units (contracts/c14.py: line.whole.*) on the real
// Gudhi::persistent_cohomology::compute_persistence_of_function_on_line from /repo.
// usage: line <int|double> <less|greater> <s> <t> v0 v1 ...      (doubles as 16 hex digits of the IEEE pattern, or decimal)
// Evaluates the same clauses as the contract (contracts/c14d_glue.h): empty input -> no call; last call is
// (minimum, infinity); every other bar has birth < death, both taken from the input; rank invariant at (s, t) and at
// every pair of input values.  exit 1 = the real routine violates a clause (reproduced), 0 = it does not.
#include <gudhi/Persistence_on_a_line.h>
#include <cstdint>
#include <cstdio>
#include <cstdlib>
#include <cstring>
#include <functional>
#include <limits>
#include <stdexcept>
#include <string>
#include <vector>
template <class T> static T parse(const char* s);
template <> int parse<int>(const char* s) { return (int)strtol(s, nullptr, 10); }
template <> double parse<double>(const char* s) {
  if (strlen(s) == 64 && strspn(s, "01") == 64) { uint64_t u = 0; for (int k = 0; k < 64; k++) u = (u << 1) | (uint64_t)(s[k] - '0'); double d; memcpy(&d, &u, 8); return d; }
  return strtod(s, nullptr);
}
template <class T, class Lt> static int run(int argc, char** argv, Lt lt) {
  T s = parse<T>(argv[3]), t = parse<T>(argv[4]);
  std::vector<T> f; for (int k = 5; k < argc; k++) f.push_back(parse<T>(argv[k]));
  std::vector<std::pair<T, T>> out;
  try {
    Gudhi::persistent_cohomology::compute_persistence_of_function_on_line(f, [&](T b, T d) { out.emplace_back(b, d); }, lt);
  } catch (std::exception const& e) { printf("real routine threw: %s\n", e.what()); return 1; }
  auto is_input = [&](T v) { for (T x : f) if (x == v) return true; return false; };
  int bad = 0;
  if (f.empty()) { if (!out.empty()) { printf("empty input but %zu calls\n", out.size()); bad = 1; } return bad; }
  if (out.empty()) { printf("no call of the output functor\n"); return 1; }
  {
    T b = out.back().first, d = out.back().second; bool mn = true; for (T x : f) if (lt(x, b)) mn = false;
    if (!(d == std::numeric_limits<T>::infinity()) || !is_input(b) || !mn) { printf("last call (%g, %g) is not (minimum, infinity)\n", (double)b, (double)d); bad = 1; }
  }
  for (size_t k = 0; k + 1 < out.size(); k++)
    if (!lt(out[k].first, out[k].second) || !is_input(out[k].first) || !is_input(out[k].second)) { printf("bar %zu = (%g, %g): not birth < death from the input\n", k, (double)out[k].first, (double)out[k].second); bad = 1; }
  auto rank_ok = [&](T s_, T t_) {
    if (lt(t_, s_)) return true;
    unsigned beta = 0; bool run_ = false, has = false;
    for (size_t i = 0; i <= f.size(); i++) { bool act = i < f.size() && !lt(t_, f[i]); if (act) { run_ = true; if (!lt(s_, f[i])) has = true; } else { if (run_ && has) beta++; run_ = false; has = false; } }
    unsigned bars = 0; for (size_t k = 0; k < out.size(); k++) { bool last = k + 1 == out.size(); if (!lt(s_, out[k].first) && (last || lt(t_, out[k].second))) bars++; }
    if (bars != beta) { printf("rank invariant at (s, t) = (%g, %g): %u bars alive, %u components\n", (double)s_, (double)t_, bars, beta); return false; }
    return true;
  };
  if (!rank_ok(s, t)) bad = 1;
  for (T a : f) for (T b : f) if (!bad && !rank_ok(a, b)) bad = 1;
  printf("input:"); for (T x : f) printf(" %g", (double)x); printf("\noutput:"); for (auto& p : out) printf(" (%g,%g)", (double)p.first, (double)p.second); printf("\n");
  return bad;
}
int main(int argc, char** argv) {
  if (argc < 5) return 2;
  bool dbl = !strcmp(argv[1], "double"), gr = !strcmp(argv[2], "greater");
  if (dbl) return gr ? run<double>(argc, argv, std::greater<double>()) : run<double>(argc, argv, std::less<double>());
  return gr ? run<int>(argc, argv, std::greater<int>()) : run<int>(argc, argv, std::less<int>());
}
