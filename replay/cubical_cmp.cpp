// Native replay for the cubical comparator (C13 / C03): realises two cells with the counterexample's values,
// dimensions and relative position in a real Bitmap_cubical_complex and evaluates is_before_in_filtration on them.
// usage: replay_cubical_cmp dim1 dim2 bits1 bits2 lt   (bits = 64-character IEEE-754 pattern; lt = 1 iff sh1 < sh2)
// exit 1 = the real comparator violates "value first, then lower dimension first, then position; strict total order"
#include <gudhi/Bitmap_cubical_complex.h>
#include <cstdio>
#include <cstdlib>
#include <cstring>
#include <cmath>
#include <string>
#include <vector>
using namespace Gudhi::cubical_complex;
static double from_bits(const char* b) { unsigned long long u = 0; for (int i = 0; i < 64 && b[i]; i++) u = (u << 1) | (b[i] == '1'); double d; memcpy(&d, &u, 8); return d; }
int main(int argc, char** argv) {
  if (argc < 6) return 3;
  unsigned d1 = atoi(argv[1]), d2 = atoi(argv[2]); double v1 = from_bits(argv[3]), v2 = from_bits(argv[4]); bool lt = atoi(argv[5]);
  if (d1 > 2 || d2 > 2 || std::isnan(v1) || std::isnan(v2)) { printf("not realisable (dimension > 2 or NaN)\n"); return 3; }
  typedef Bitmap_cubical_complex_base<double> B; typedef Bitmap_cubical_complex<B> CC;
  CC cc(std::vector<unsigned>{2, 2}, std::vector<double>(4, 0.0), true);   // 5 x 5 cells
  size_t low[3] = {0, 1, 6}, high[3] = {24, 23, 18};                          // a low and a high cell of each dimension
  size_t c1 = lt ? low[d1] : high[d1], c2 = lt ? high[d2] : low[d2];
  if (c1 == c2) return 3;
  cc.get_cell_data(c1) = v1; cc.get_cell_data(c2) = v2;
  is_before_in_filtration<B> cmp(&cc);
  bool ab = cmp(c1, c2), ba = cmp(c2, c1);
  bool want = v1 != v2 ? v1 < v2 : d1 != d2 ? d1 < d2 : c1 < c2;
  printf("cells %zu (dim %u, value %g) and %zu (dim %u, value %g): is_before = %d, reverse = %d, expected %d / %d\n", c1, cc.get_dimension_of_a_cell(c1), v1, c2, cc.get_dimension_of_a_cell(c2), v2, ab, ba, want, !want);
  return (ab == want && ba == !want) ? 0 : 1;
}
