// Native replay for C03 value kernels against the real Simplex_tree / filtration_value_utils of /repo.
// usage: simplex_values intersect|unify double|int a b        (doubles as 64-bit patterns)
//        simplex_values extended float|double min max v       (bit patterns)
// exit 1 = the real code violates the statement, 0 = it agrees, 3 = unsupported
#include <gudhi/Simplex_tree.h>
#include <cmath>
#include <cstdio>
#include <cstdlib>
#include <cstring>
#include <string>
template <class T> static T from_bits(const char* b) { unsigned long long u = 0; int n = 0; for (; b[n]; n++) u = (u << 1) | (b[n] == '1'); T d; if (sizeof(T) == 4) { unsigned v = (unsigned)u; memcpy(&d, &v, 4); } else memcpy(&d, &u, 8); return d; }
template <class T> struct Opt : Gudhi::Simplex_tree_options_default { typedef T Filtration_value; };
template <class T> static int extended(const char* a, const char* b, const char* c) {
  T mn = from_bits<T>(a), mx = from_bits<T>(b), v = from_bits<T>(c);
  typedef Gudhi::Simplex_tree<Opt<T>> ST; ST st;
  st.insert_simplex({0}, mn); st.insert_simplex({1}, mx); st.insert_simplex({2}, v); st.insert_simplex({0, 1}, mx); st.insert_simplex({1, 2}, mx);
  auto efd = st.extend_filtration(); int bad = 0;
  for (int vert = 0; vert < 3; vert++) {
    T up = st.filtration(st.find({vert})), down = st.filtration(st.find({vert, 3}));
    auto du = st.decode_extended_filtration(up, efd), dd = st.decode_extended_filtration(down, efd);
    bool ok = up >= -2 && up <= -1 && down >= 1 && down <= 2 && du.second == Gudhi::Extended_simplex_type::UP && dd.second == Gudhi::Extended_simplex_type::DOWN;
    printf("vertex %d: ascending value %.9g (decoded type %d), descending value %.9g (decoded type %d)%s\n", vert, (double)up, (int)du.second, (double)down, (int)dd.second, ok ? "" : "  <-- outside [-2,-1] / [1,2] or misclassified");
    bad |= !ok; }
  auto dx = st.decode_extended_filtration(st.filtration(st.find({3})), efd);
  if (dx.second != Gudhi::Extended_simplex_type::EXTRA) { printf("cone point not EXTRA\n"); bad = 1; }
  return bad; }
// prune_above_filtration(threshold) on a small tree with values below, at and above the threshold: keeps exactly the sublevel complex
template <class T> static int prune(T thr) {
  typedef Gudhi::Simplex_tree<Opt<T>> ST; ST st;
  T lo = std::numeric_limits<T>::lowest(), hi = std::numeric_limits<T>::max();
  std::vector<T> vals = {lo, thr, hi};
  if (thr > lo) vals.push_back(std::numeric_limits<T>::is_integer ? thr - 1 : std::nextafter(thr, lo));
  if (thr < hi) vals.push_back(std::numeric_limits<T>::is_integer ? thr + 1 : std::nextafter(thr, hi));
  if (std::numeric_limits<T>::has_infinity) vals.push_back(std::numeric_limits<T>::infinity());
  for (size_t k = 0; k < vals.size(); k++) st.insert_simplex({(int)k}, vals[k]);
  size_t want = 0; for (auto v : vals) want += !(thr < v);
  bool r = st.prune_above_filtration(thr); size_t got = st.num_simplices();
  printf("prune_above_filtration(%g): kept %zu simplices, sublevel complex has %zu; returned %d, expected %d\n", (double)thr, got, want, r, want != vals.size());
  return (got == want && r == (want != vals.size())) ? 0 : 1; }
// initialize_filtration(true) leaves out exactly the simplices whose value is the type's infinity (max() for integers)
template <class T> static int ignore_inf(T v) {
  typedef Gudhi::Simplex_tree<Opt<T>> ST; ST st; T top = std::numeric_limits<T>::has_infinity ? std::numeric_limits<T>::infinity() : std::numeric_limits<T>::max();
  std::vector<T> vals = {v, top, (T)0, (T)1}; for (size_t k = 0; k < vals.size(); k++) st.insert_simplex({(int)k}, vals[k]);
  st.initialize_filtration(true); size_t listed = 0; for (auto sh : st.filtration_simplex_range()) { (void)sh; ++listed; }
  size_t want = 0; for (auto x : vals) want += !(x == top);
  printf("initialize_filtration(true) with values {%g, top, 0, 1}: %zu simplices listed, %zu expected\n", (double)v, listed, want); return listed == want ? 0 : 1; }
int main(int argc, char** argv) {
  if (argc < 5) return 3; std::string w = argv[1], t = argv[2];
  if (w == "ignore") return t == "int" ? ignore_inf<int>(atoi(argv[3])) : ignore_inf<double>(from_bits<double>(argv[3]));
  if (w == "prune") return t == "int" ? prune<int>(atoi(argv[3])) : prune<double>(from_bits<double>(argv[3]));
  if (w == "extended") return argc < 6 ? 3 : (t == "float" ? extended<float>(argv[3], argv[4], argv[5]) : extended<double>(argv[3], argv[4], argv[5]));
  if (t == "double") { double a = from_bits<double>(argv[3]), b = from_bits<double>(argv[4]), x = a; bool r; double want; bool wr;
    if (w == "intersect") { r = Gudhi::intersect_lifetimes(x, b); if (std::isnan(a)) { want = b; wr = !std::isnan(b); } else if (std::isnan(b)) { want = a; wr = false; } else { want = a < b ? b : a; wr = a < b; } }
    else { r = Gudhi::unify_lifetimes(x, b); if (std::isnan(a) || std::isnan(b)) return 3; want = b < a ? b : a; wr = b < a; }
    bool ok = (r == wr) && ((std::isnan(want) && std::isnan(x)) || x == want);
    printf("%s(%g, %g): f1 = %g returned %d; expected f1 = %g returned %d\n", w.c_str(), a, b, x, r, want, wr); return ok ? 0 : 1; }
  if (t == "int") { int a = atoi(argv[3]), b = atoi(argv[4]), x = a; bool r = w == "intersect" ? Gudhi::intersect_lifetimes(x, b) : Gudhi::unify_lifetimes(x, b);
    int want = w == "intersect" ? (a < b ? b : a) : (b < a ? b : a); bool ok = x == want && r == (want != a);
    printf("%s(%d, %d): f1 = %d returned %d; expected %d returned %d\n", w.c_str(), a, b, x, r, want, want != a); return ok ? 0 : 1; }
  return 3; }
