// Native replay for C13: builds the real Bitmap_cubical_complex_base<double> (or the periodic class) of the given
// shape and re-evaluates, for the counterexample cell, the geometry the contracts state, from first principles.
// usage: replay_cubical <what> D s0..s(D-1) <mask|-> cell face z probe ; exit 1 = real code violates the statement
#include <gudhi/Bitmap_cubical_complex_base.h>
#include <gudhi/Bitmap_cubical_complex_periodic_boundary_conditions_base.h>
#include <cstdio>
#include <cstdlib>
#include <string>
#include <vector>
using namespace Gudhi::cubical_complex;
static std::vector<unsigned> S; static std::vector<bool> P; static unsigned Dm;
static unsigned L(unsigned i) { return 2 * S[i] + (P[i] ? 0 : 1); }
static size_t M(unsigned i) { size_t m = 1; for (unsigned j = 0; j < i; j++) m *= L(j); return m; }
static unsigned coord(size_t c, unsigned i) { return (c / M(i)) % L(i); }
static unsigned dim(size_t c) { unsigned d = 0; for (unsigned i = 0; i < Dm; i++) d += coord(c, i) % 2; return d; }
static size_t lo(size_t c, unsigned i) { return c - M(i); }
static size_t hi(size_t c, unsigned i) { return (P[i] && coord(c, i) == L(i) - 1) ? c - (size_t)(L(i) - 1) * M(i) : c + M(i); }
static bool is_face(size_t f, size_t c) { for (unsigned i = 0; i < Dm; i++) if (coord(c, i) % 2 == 1 && (f == lo(c, i) || f == hi(c, i))) return true; return false; }
template <class C> static int check(C& cc, size_t cell, size_t face, size_t total) {
  int bad = 0;
  if (cell >= total) { printf("cell out of range\n"); return 3; }
  if (cc.get_dimension_of_a_cell(cell) != dim(cell)) { printf("dimension of cell %zu: real %u, geometry %u\n", cell, cc.get_dimension_of_a_cell(cell), dim(cell)); bad = 1; }
  auto b = cc.get_boundary_of_a_cell(cell);
  std::vector<size_t> want; for (unsigned k = 0; k < Dm; k++) { unsigned i = Dm - 1 - k; if (coord(cell, i) % 2) { want.push_back(lo(cell, i)); want.push_back(hi(cell, i)); } }
  bool okb = b.size() == want.size();
  for (size_t j = 0; okb && j + 1 < b.size(); j += 2) okb = (b[j] == want[j] && b[j + 1] == want[j + 1]) || (b[j] == want[j + 1] && b[j + 1] == want[j]);
  if (!okb) { printf("boundary of cell %zu is not its geometric faces (real:", cell); for (auto x : b) printf(" %zu", x); printf(" ; geometry:"); for (auto x : want) printf(" %zu", x); printf(")\n"); bad = 1; }
  auto cb = cc.get_coboundary_of_a_cell(cell);
  for (size_t z = 0; z < total; z++) { bool listed = false; for (auto x : cb) listed |= x == z; if (listed != is_face(cell, z)) { printf("coboundary of %zu %s cell %zu although geometry says %s\n", cell, listed ? "lists" : "omits", z, is_face(cell, z) ? "incident" : "not incident"); bad = 1; break; } }
  for (size_t z = 0; z < total && okb; z++) { int se = 0, si = 0;
    for (size_t n = 0; n < b.size(); n++) { auto b2 = cc.get_boundary_of_a_cell(b[n]); for (size_t m = 0; m < b2.size(); m++) if (b2[m] == z) { se += ((n + m) % 2 == 0) ? 1 : -1; si += cc.compute_incidence_between_cells(cell, b[n]) * cc.compute_incidence_between_cells(b[n], z); } }
    if (se != 0 || si != 0) { printf("boundary of boundary of %zu at %zu: alternating sum %d, incidence sum %d\n", cell, z, se, si); bad = 1; break; } }
  if (face < total && is_face(face, cell)) { int s = 1, want_inc = 0; for (unsigned i = 0; i < Dm; i++) if (coord(cell, i) % 2) { if (face == lo(cell, i) || face == hi(cell, i)) { want_inc = face == hi(cell, i) ? s : -s; break; } s = -s; }
    int got = cc.compute_incidence_between_cells(cell, face); if (got != want_inc) { printf("incidence(%zu,%zu): real %d, convention %d\n", cell, face, got, want_inc); bad = 1; } }
  if (!bad) printf("cell %zu: real code agrees with the geometry\n", cell);
  return bad;
}
int main(int argc, char** argv) {
  if (argc < 5) return 3;
  Dm = atoi(argv[2]); for (unsigned i = 0; i < Dm; i++) S.push_back(atoi(argv[3 + i]));
  std::string mask = argv[3 + Dm]; P.assign(Dm, false); bool periodic = mask != "-";
  if (periodic) for (unsigned i = 0; i < Dm; i++) P[i] = mask[i] == '1';
  size_t cell = strtoull(argv[4 + Dm], 0, 10), face = argc > 5 + (int)Dm ? strtoull(argv[5 + Dm], 0, 10) : (size_t)-1;
  size_t total = 1; for (unsigned i = 0; i < Dm; i++) total *= L(i);
  size_t ntop = 1; for (auto s : S) ntop *= s;
  std::vector<double> top(ntop, 0.0);
  try {
    if (periodic) { Bitmap_cubical_complex_periodic_boundary_conditions_base<double> cc(S, top, P, true); return check(cc, cell, face, total); }
    Bitmap_cubical_complex_base<double> cc(S, top, true); return check(cc, cell, face, total);
  } catch (std::exception const& e) { printf("exception: %s\n", e.what()); return 1; }
}
