// Native replay for C11 leaves against /repo (compiled with -DGUDHI_FORCE_FAKE_UINT128 so that Fake_uint128 exists).
// usage: ripser_bits f128 <op> ah al bh bl      |  ripser_bits sparse x <dist-bits> <threshold-bits>  |  ripser_bits lookup <j> <n> v0 d0bits ...
#include <gudhi/uint128.h>
#include <gudhi/ripser.h>
#include <cmath>
#include <limits>
#include <cstdio>
#include <cstdlib>
#include <cstring>
#include <string>
#include <vector>
typedef unsigned __int128 u128;
static float fbits(const char* b) { unsigned u = 0; for (int i = 0; b[i]; i++) u = (u << 1) | (b[i] == '1'); float f; memcpy(&f, &u, 4); return f; }
struct P { typedef int vertex_t; typedef float value_t; };
struct Mat { typedef int vertex_t; typedef float value_t; float d; int size() const { return 2; } float operator()(int i, int j) const { return i == j ? 0 : d; } };
int main(int argc, char** argv) {
  if (argc < 5) return 3; std::string w = argv[1], op = argv[2];
  if (w == "f128") { if (argc < 7) return 3;
    unsigned long long ah = strtoull(argv[3], 0, 10), al = strtoull(argv[4], 0, 10), bh = strtoull(argv[5], 0, 10), bl = strtoull(argv[6], 0, 10);
    using Gudhi::numbers::Fake_uint128; Fake_uint128 a = (Fake_uint128(ah) << 64) + Fake_uint128(al), b = (Fake_uint128(bh) << 64) + Fake_uint128(bl);
    u128 na = ((u128)ah << 64) + al, nb = ((u128)bh << 64) + bl; bool got, want;
    if (op == "lt") { got = a < b; want = na < nb; } else if (op == "gt") { got = a > b; want = na > nb; } else if (op == "le") { got = a <= b; want = na <= nb; }
    else if (op == "ge") { got = a >= b; want = na >= nb; } else if (op == "eq") { got = a == b; want = na == nb; } else if (op == "ne") { got = a != b; want = na != nb; }
    else { unsigned sh = argc > 7 ? (unsigned)strtoul(argv[7], 0, 10) : 0; Fake_uint128 r; u128 w;
      if (op == "add") { r = a + b; w = na + nb; } else if (op == "sub") { r = a - b; w = na - nb; } else if (op == "and") { r = a & b; w = na & nb; } else if (op == "or") { r = a | b; w = na | nb; }
      else if (op == "not") { r = ~a; w = ~na; } else if (op == "shl" && sh < 128) { r = a << (uint8_t)sh; w = na << sh; } else if (op == "shr" && sh < 128) { r = a >> (uint8_t)sh; w = na >> sh; } else return 3;
      bool same = ((r >> 64) == Fake_uint128((unsigned long long)(w >> 64))) && ((r & Fake_uint128(~0ull)) == Fake_uint128((unsigned long long)w));
      printf("Fake_uint128 %s on (%llu,%llu) (%llu,%llu) shift %u: %s the native __int128 result\n", op.c_str(), ah, al, bh, bl, sh, same ? "equals" : "DIFFERS from"); return same ? 0 : 1; }
    printf("Fake_uint128 %s on (%llu,%llu) (%llu,%llu): real %d, native __int128 %d\n", op.c_str(), ah, al, bh, bl, got, want); return got == want ? 0 : 1; }
  if (w == "sparse") { float d = fbits(argv[3]), t = fbits(argv[4]); Mat m{d};
    Gudhi::ripser::Sparse_distance_matrix<P> s(m, t); bool kept = !s.neighbors[0].empty(); bool want = d <= t;
    printf("distance %g, threshold %g: edge kept = %d, expected %d\n", d, t, kept, want); return kept == want ? 0 : 1; }
  if (w == "dense") {   // the unit square, no threshold: H1 class born at 1 must die at sqrt(2) (cofacets of diameter == enclosing radius are part of the complex)
    typedef Gudhi::ripser::Full_distance_matrix<P> FM; struct Sq { typedef int vertex_t; typedef float value_t; int size() const { return 4; } float operator()(int i, int j) const { static const float x[4] = {0, 1, 1, 0}, y[4] = {0, 0, 1, 1}; return std::sqrt((x[i] - x[j]) * (x[i] - x[j]) + (y[i] - y[j]) * (y[i] - y[j])); } };
    FM fm{Sq()}; int dim = 0; bool inf1 = false, fin1 = false;
    Gudhi::ripser::ripser_auto(std::move(fm), 1, std::numeric_limits<float>::infinity(), 2, [&](int d) { dim = d; }, [&](float b, float d) { if (dim == 1 && d > b) { if (std::isinf(d)) inf1 = true; else fin1 = true; } });
    printf("unit square, no threshold: H1 interval %s\n", inf1 ? "[1, inf)  <-- the class never dies" : fin1 ? "[1, 1.414)" : "missing");
    return (fin1 && !inf1) ? 0 : 1; }
  if (w == "lookup") {  // ripser_bits lookup <j> <n> v0 d0bits v1 d1bits ...: vertex 0's neighbour list; query (0, j)
    int j = atoi(argv[2]); int n = atoi(argv[3]); if (argc < 4 + 2 * n) return 3;
    typedef Gudhi::ripser::Sparse_distance_matrix<P> SM; std::vector<std::vector<SM::vertex_diameter_t>> nbs(1);
    float want = std::numeric_limits<float>::infinity();
    for (int k = 0; k < n; k++) { int v = atoi(argv[4 + 2 * k]); float d = fbits(argv[5 + 2 * k]); nbs[0].emplace_back(v, d); if (v == j) want = d; }
    SM s(std::move(nbs)); float got = s(0, j);
    printf("neighbour list of %d entries, query vertex %d: real operator() returns %g, the stored distance is %g\n", n, j, got, want); return got == want ? 0 : 1; }
  return 3; }
